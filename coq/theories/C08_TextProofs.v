(* C08_TextProofs.v — the canonical JSON text is injective on JSON values; "same checksum" is
   "same projection" under the one assumption about md5; the checksum model decides as the
   projection model does, on every history. *)
From Coq Require Import DecimalN DecimalFacts.
From Verif Require Import Common Json JsonText JsonText_Proofs C08_Model C08_Spec C08_Proofs C08_MergeProofs C08_Text.
Open Scope N_scope.

(* ---- integers as decimal literals ---- *)

Lemma uint_bytes_digits d : forallb is_digit (uint_bytes d) = true.
Proof. induction d; cbn [uint_bytes forallb]; try reflexivity; rewrite IHd; reflexivity. Qed.

Lemma uint_bytes_inj a : forall b, uint_bytes a = uint_bytes b -> a = b.
Proof.
  induction a; destruct b; cbn [uint_bytes]; intro H; try discriminate H; try reflexivity;
    injection H as H; f_equal; auto.
Qed.

Lemma uint_bytes_no_minus d r : uint_bytes d <> 45 :: r.
Proof. destruct d; cbn [uint_bytes]; intro H; discriminate H. Qed.

Lemma span_digits_uint d : span_digits (uint_bytes d) = (uint_bytes d, []).
Proof. induction d; cbn [uint_bytes span_digits]; try reflexivity; cbn [is_digit]; rewrite IHd; reflexivity. Qed.

Lemma nzhead_not_D0 d r : Decimal.nzhead d <> Decimal.D0 r.
Proof. induction d; cbn [Decimal.nzhead]; try discriminate. exact IHd. Qed.

Lemma to_uint_norm n : Decimal.unorm (N.to_uint n) = N.to_uint n.
Proof. rewrite <- Unsigned.to_of, Unsigned.of_to. reflexivity. Qed.

Lemma scan_int_uint d : Decimal.unorm d = d -> scan_int (uint_bytes d) = Some (uint_bytes d, []).
Proof.
  intro Hn. destruct d; cbn [uint_bytes scan_int];
    try (cbn; rewrite span_digits_uint; reflexivity).
  - discriminate Hn.
  - unfold Decimal.unorm in Hn. cbn [Decimal.nzhead] in Hn.
    destruct (Decimal.nzhead d) eqn:E; try discriminate Hn.
    + injection Hn as Hn. subst d. reflexivity.
    + exfalso. exact (nzhead_not_D0 _ _ E).
Qed.

Lemma scan_number_uint d : Decimal.unorm d = d -> scan_number (uint_bytes d) = Some (uint_bytes d, []).
Proof.
  intro Hn. pose proof (scan_int_uint d Hn) as Hi. unfold scan_number.
  destruct d; try discriminate Hn; cbn [uint_bytes] in *;
    (cbn [N.eqb Pos.eqb]; rewrite Hi; cbn; rewrite ?app_nil_r; reflexivity).
Qed.

Lemma is_number_print_Z z : is_number (print_Z z) = true.
Proof.
  unfold is_number, print_Z. set (d := N.to_uint (Z.abs_N z)).
  assert (Hn : Decimal.unorm d = d) by apply to_uint_norm.
  destruct (z <? 0)%Z.
  - cbn [app]. unfold scan_number. cbn [N.eqb Pos.eqb].
    rewrite (scan_int_uint d Hn). cbn. rewrite ?app_nil_r. reflexivity.
  - cbn [app]. rewrite (scan_number_uint d Hn). reflexivity.
Qed.

Lemma int_chars_print_Z z : int_chars (print_Z z) = true.
Proof.
  unfold int_chars, print_Z. rewrite forallb_app. apply andb_true_iff. split.
  - destruct (z <? 0)%Z; reflexivity.
  - generalize (uint_bytes_digits (N.to_uint (Z.abs_N z))). generalize (uint_bytes (N.to_uint (Z.abs_N z))).
    intros l. induction l as [|c l IH]; cbn [forallb]; [reflexivity|].
    intro H. apply andb_true_iff in H as [H1 H2]. rewrite H1, (IH H2). reflexivity.
Qed.

Lemma print_Z_inj a b : print_Z a = print_Z b -> a = b.
Proof.
  unfold print_Z. destruct (Z.ltb_spec a 0) as [Ha|Ha]; destruct (Z.ltb_spec b 0) as [Hb|Hb]; cbn [app]; intro H.
  - injection H as H. apply uint_bytes_inj, Unsigned.to_uint_inj in H. lia.
  - exfalso. symmetry in H. exact (uint_bytes_no_minus _ _ H).
  - exfalso. exact (uint_bytes_no_minus _ _ H).
  - apply uint_bytes_inj, Unsigned.to_uint_inj in H. lia.
Qed.

(* ---- [lit]: the same text, a value the shared reader gives back, injective ---- *)

Lemma print_lit v : print_value (lit v) = print_value v.
Proof.
  induction v as [| b | z | t | s | l H | m H] using json_ind2; try reflexivity.
  - cbn [lit print_value]. do 3 f_equal. rewrite map_map.
    induction H as [|x l Hx _ IH]; [reflexivity|]. cbn [map]. rewrite Hx, IH. reflexivity.
  - cbn [lit print_value]. do 3 f_equal. rewrite map_map.
    induction H as [|[k x] m Hx _ IH]; [reflexivity|]. cbn [map fst snd] in *. rewrite Hx, IH. reflexivity.
Qed.

Lemma wf_lit v : val_ok v = true -> wf_json (lit v) = true.
Proof.
  induction v as [| b | z | t | s | l H | m H] using json_ind2; cbn [val_ok lit wf_json]; intro Hv; try reflexivity.
  - apply is_number_print_Z.
  - apply andb_true_iff in Hv as [Hv _]. exact Hv.
  - induction H as [|x l Hx _ IH]; [reflexivity|]. cbn [map forallb] in *.
    apply andb_true_iff in Hv as [H1 H2]. rewrite (Hx H1), (IH H2). reflexivity.
  - induction H as [|[k x] m Hx _ IH]; [reflexivity|]. cbn [map forallb fst snd] in *.
    apply andb_true_iff in Hv as [H1 H2]. rewrite (Hx H1), (IH H2). reflexivity.
Qed.

Lemma flt_not_int t z : val_ok (JFlt t) = true -> t <> print_Z z.
Proof.
  cbn [val_ok]. intros Hv E. subst t. rewrite int_chars_print_Z in Hv.
  apply andb_true_iff in Hv as [_ Hv]. discriminate Hv.
Qed.

Lemma lit_inj a : forall b, val_ok a = true -> val_ok b = true -> lit a = lit b -> a = b.
Proof.
  induction a as [| x | z | t | s | l H | m H] using json_ind2; intros b Ha Hb E; destruct b; cbn [lit] in E;
    try discriminate E; try reflexivity; try exact E.
  - injection E as E. apply print_Z_inj in E. subst. reflexivity.
  - injection E as E. exfalso. exact (flt_not_int _ _ Hb (eq_sym E)).
  - injection E as E. exfalso. exact (flt_not_int _ _ Ha E).
  - injection E as E. f_equal. cbn [val_ok] in Ha, Hb.
    revert l0 Hb E. induction H as [|x l Hx _ IH]; intros [|y l0] Hb E; cbn [map] in E; try discriminate E; [reflexivity|].
    injection E as E1 E2. cbn [forallb] in Ha, Hb.
    apply andb_true_iff in Ha as [Ha1 Ha2]. apply andb_true_iff in Hb as [Hb1 Hb2].
    f_equal; [exact (Hx y Ha1 Hb1 E1) | exact (IH Ha2 l0 Hb2 E2)].
  - injection E as E. f_equal. cbn [val_ok] in Ha, Hb.
    revert m0 Hb E. induction H as [|[k x] m Hx _ IH]; intros [|[k' y] m0] Hb E; cbn [map fst snd] in E; try discriminate E; [reflexivity|].
    injection E as E0 E1 E2. cbn [forallb fst snd] in Ha, Hb, Hx.
    apply andb_true_iff in Ha as [Ha1 Ha2]. apply andb_true_iff in Hb as [Hb1 Hb2].
    subst k'. f_equal; [f_equal; exact (Hx y Ha1 Hb1 E1) | exact (IH Ha2 m0 Hb2 E2)].
Qed.

(* ---- the text is injective on values ---- *)

Theorem json_text_injective a b :
  val_ok a = true -> val_ok b = true -> (json_text a = json_text b <-> a = b).
Proof.
  intros Ha Hb. split; [|intros ->; reflexivity].
  unfold json_text. intro E. rewrite <- (print_lit a), <- (print_lit b) in E.
  pose proof (roundtrip_single (lit a) (wf_lit a Ha)) as Ra.
  pose proof (roundtrip_single (lit b) (wf_lit b Hb)) as Rb.
  rewrite E in Ra. rewrite Ra in Rb. injection Rb as Rb. exact (lit_inj a b Ha Hb Rb).
Qed.

(* different look-alikes, by the theorem's reading: no two of them have the same text *)
Lemma text_differs a b : val_ok a = true -> val_ok b = true -> a <> b -> json_text a <> json_text b.
Proof. intros Ha Hb N E. apply N. apply (json_text_injective a b Ha Hb). exact E. Qed.

Section Checksum.
  Variable md5 : bytes -> bytes.
  Hypothesis md5_cf : collision_free md5.

  Theorem checksum_decides_equality a b :
    val_ok a = true -> val_ok b = true ->
    bytes_eqb (checksum md5 a) (checksum md5 b) = json_eqb a b.
  Proof.
    intros Ha Hb. unfold checksum.
    destruct (json_eqb a b) eqn:E.
    - apply json_eqb_eq in E. subst b. apply bytes_eqb_refl.
    - destruct (bytes_eqb (md5 (json_text a)) (md5 (json_text b))) eqn:E2; [|reflexivity].
      apply bytes_eqb_eq in E2. apply (md5_cf a b Ha Hb) in E2.
      apply (json_text_injective a b Ha Hb) in E2. subst b. rewrite json_eqb_refl in E. discriminate E.
  Qed.

  Variable jq : json -> list json * bool.

  Definition cache_ok (c : cache) : Prop := forall id e, c_get id c = Some e -> val_ok (e_proj e) = true.

  Lemma handle_ck_handle cfg c t id o :
    cache_ok c -> (forall e, apply_filter jq cfg o = Some e -> val_ok (e_proj e) = true) ->
    handle_ck md5 jq cfg c t id o = handle jq cfg c t id o /\ cache_ok (fst (handle jq cfg c t id o)).
  Proof.
    intros Hc Ho. unfold handle_ck, handle. destruct (apply_filter jq cfg o) as [e|] eqn:Ea; [|split; [reflexivity|exact Hc]].
    specialize (Ho e eq_refl).
    assert (Hset : cache_ok (c_set id e c)).
    { intros i x. rewrite c_get_set. destruct (N.eqb i id); [intro H; injection H as <-; exact Ho | apply Hc]. }
    assert (Hdel : cache_ok (c_del id c)).
    { intros i x. rewrite c_get_del. destruct (N.eqb i id); [discriminate | apply Hc]. }
    destruct t; cbn [fst]; (split; [|assumption]); try reflexivity.
    - destruct (c_get id c) as [cached|] eqn:G; [|reflexivity].
      rewrite (checksum_decides_equality _ _ (Hc _ _ G) Ho). reflexivity.
    - destruct (c_get id c) as [cached|] eqn:G; [|reflexivity].
      rewrite (checksum_decides_equality _ _ (Hc _ _ G) Ho). reflexivity.
  Qed.

  Theorem run_ck_run cfg : forall h c, cache_ok c -> projs_ok jq cfg h ->
    run_ck md5 jq cfg c h = run jq cfg c h.
  Proof.
    induction h as [|[[t id] o] r IH]; intros c Hc Hp; [reflexivity|].
    cbn [run_ck run].
    destruct (handle_ck_handle cfg c t id o Hc) as [E Hc'].
    { intros e He. exact (Hp (t, id, o) e (or_introl eq_refl) He). }
    rewrite E. destruct (handle jq cfg c t id o) as [c' ev]. cbn [fst] in Hc'.
    rewrite (IH c' Hc'); [reflexivity|].
    intros s e Hin. apply Hp. right. exact Hin.
  Qed.

  Lemma cache_ok_nil : cache_ok [].
  Proof. intros id e H. discriminate H. Qed.

End Checksum.

(* ---- the clause about Modified deliveries follows from P, for any observations ---- *)

Lemma fired_is l t (b : bool) : fired_eqb l (if b then [t] else []) = true -> l = if b then [t] else [].
Proof. intro H. apply (list_eqb_eq evtype_eqb) in H; [exact H|]. intros x y; destruct x, y; cbn; split; intro E; try reflexivity; discriminate E. Qed.

Lemma P_from_modified_values jq types filter : forall h k obs_l,
  P_from jq types filter k h obs_l = true -> modified_values_ok jq types filter k h obs_l = true.
Proof.
  induction h as [|[[t id] o] r IH]; intros k [|ob obs'] H; cbn [modified_values_ok]; try reflexivity.
  cbn [P_from] in H. apply andb_true_iff in H as [Hs Hr]. rewrite (IH _ _ Hr), andb_true_r.
  destruct t; try reflexivity. destruct (k_get id k) as [[o' p]|] eqn:G; [|reflexivity].
  unfold step_ok in Hs. apply andb_true_iff in Hs as [Hf _]. apply fired_is in Hf.
  unfold expected_fire in Hf. rewrite G in Hf. rewrite Hf. unfold modified_value_ok.
  destruct (listed types Modified); cbn [andb].
  - destruct (proj_eqb p (projection jq filter o)); reflexivity.
  - reflexivity.
Qed.

Section Whole.
  Variable md5 : bytes -> bytes.
  Hypothesis md5_cf : collision_free md5.
  Variable jq : json -> list json * bool.

  (* the model that compares CHECKSUMS satisfies the property on every history outside the
     recorded findings, and with it the clause about look-alike values *)
  Theorem checksum_model_partial types filter h :
    projs_ok jq (mkConfig types filter) h ->
    T_F8m jq filter h = false -> T_F16 jq filter h = false ->
    P jq types filter h (map to_obs (run_ck md5 jq (mkConfig types filter) [] h)) = true.
  Proof.
    intros Hp H8 H16. rewrite (run_ck_run md5 md5_cf jq _ h [] (cache_ok_nil) Hp).
    exact (partial_merge jq types filter h H8 H16).
  Qed.

  Theorem modified_value_change_triggers types filter h :
    projs_ok jq (mkConfig types filter) h ->
    T_F8m jq filter h = false -> T_F16 jq filter h = false ->
    modified_values_ok jq types filter [] h (map to_obs (run_ck md5 jq (mkConfig types filter) [] h)) = true.
  Proof.
    intros Hp H8 H16. apply P_from_modified_values. exact (checksum_model_partial types filter h Hp H8 H16).
  Qed.
End Whole.
