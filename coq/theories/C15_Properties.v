(* C15_Properties.v — the property theorems of C15 and nothing else.

   The model (C15_Model.v) is the code AFTER the repairs F4a-F4d; the theorems are the full
   statement, no trigger predicate is left.

   Domain of the search theorems (C15_Spec.in_domain / C15_Proofs.rules_dom, dom): one CRD has
   one group — every version that is written with a group carries the same group g, so that
   "the same version, written with or without its group" is an equivalence — and a request
   asks for a version other than the one the objects have.  The chain cache of a CRD is any
   state reachable by queries of that domain: cache_inv holds of the initial cache
   (C15_cache_inv_base) and is kept by every query (C15_cache_inv_preserved), so the
   theorems cover a ChainStorage shared by any number of earlier queries.

   Fuel: find runs the code's for{} loop with fuel 1 + |rules|.  C15_find_complete proves
   that this fuel suffices whenever a chain exists; by C15_find_sound no later iteration
   could return anything but a valid chain, so for unreachable targets "fuel exhausted"
   and the loop's own exit give the same answer (nil).

   Last section: conversion bindings that carry the further documented binding parameters (`group`,
   `includeSnapshotsFrom`) in any position of a chain - the model (C15_BindModel) follows a step from
   the hook's configuration to the binding context its hook reads (MapV1), the Spec (C15_BindSpec)
   demands that every executed hook read the conversion request of its step.

   Very last section: what a step's hook returns AS ENCODED, element by element (C15_EncModel: an element
   of convertedObjects is a JSON object whose apiVersion is a string / missing / null / not a string, or
   null, or no object; ExtractAPIVersions decodes every element into a fresh TypeMeta).  C15_EncSpec
   reads "at the desired version" per element; the theorems hold for all lists. *)
From Coq Require Import String.
From Verif Require Import Common C15_Model C15_Spec C15_Proofs C15_BindModel C15_BindSpec C15_BindProofs.
From Verif Require Import C15_EncModel C15_EncSpec C15_EncProofs.
From Verif Require Import C15_MultiModel C15_MultiSpec C15_MultiProofs.

(* ---- the search ---- *)

Theorem C15_find_sound : forall g rules c q p,
  rules_dom g rules -> dom g (r_from q) -> dom g (r_to q) -> cache_inv g rules c ->
  snd (find rules c q) = Some p -> valid_chain rules (r_from q) (r_to q) p = true.
Proof. exact find_sound. Qed.
Print Assumptions C15_find_sound.

Theorem C15_find_complete : forall g rules c q,
  rules_dom g rules -> dom g (r_from q) -> dom g (r_to q) -> short (r_from q) <> short (r_to q) ->
  cache_inv g rules c -> reachable rules (r_from q) (r_to q) = true ->
  exists p, snd (find rules c q) = Some p.
Proof. exact find_complete. Qed.
Print Assumptions C15_find_complete.

Theorem C15_cache_inv_base : forall g rules, rules_dom g rules -> cache_inv g rules (base_cache rules).
Proof. exact cache_inv_base. Qed.
Print Assumptions C15_cache_inv_base.

Theorem C15_cache_inv_preserved : forall g rules c q, rules_dom g rules -> dom g (r_from q) ->
  cache_inv g rules c -> cache_inv g rules (fst (find rules c q)).
Proof. exact cache_inv_preserved. Qed.
Print Assumptions C15_cache_inv_preserved.

(* the Spec's decidable reachability is exactly "some valid chain exists" *)
Theorem C15_reachable_iff_chain : forall rules A B,
  reachable rules A B = true <-> exists p, valid_chain rules A B p = true.
Proof. exact reachable_iff_chain. Qed.
Print Assumptions C15_reachable_iff_chain.

(* on a fresh ChainStorage, with the Spec's own domain test *)
Theorem C15_find_sound_fresh : forall rules A B p, in_domain rules A B = true ->
  snd (find rules (base_cache rules) (A, B)) = Some p -> valid_chain rules A B p = true.
Proof. exact find_sound_fresh. Qed.
Print Assumptions C15_find_sound_fresh.

Theorem C15_find_complete_fresh : forall rules A B, in_domain rules A B = true ->
  reachable rules A B = true -> exists p, snd (find rules (base_cache rules) (A, B)) = Some p.
Proof. exact find_complete_fresh. Qed.
Print Assumptions C15_find_complete_fresh.

(* every answer of every sequence of queries — on one shared storage or on a fresh one per
   query — satisfies the property's predicate (valid chain if found, unreachable if not) *)
Theorem C15_search_shared_meets_spec : forall g rules, rules_dom g rules ->
  forall qs c, queries_dom g qs -> cache_inv g rules c ->
               all_P_search rules qs (find_shared rules c qs) = true.
Proof. exact search_shared_meets_spec. Qed.
Print Assumptions C15_search_shared_meets_spec.

Theorem C15_search_fresh_meets_spec : forall g rules, rules_dom g rules ->
  forall qs, queries_dom g qs -> all_P_search rules qs (find_fresh rules qs) = true.
Proof. exact search_fresh_meets_spec. Qed.
Print Assumptions C15_search_fresh_meets_spec.

(* ---- applying the chain: for every chain, every outcome script, every request ---- *)

Theorem C15_steps_in_order : forall desired chain outs req t a,
  convert desired chain outs req = (t, a) ->
  map fst t = firstn (length t) chain /\ feeds req outs t = true.
Proof. exact steps_in_order. Qed.
Print Assumptions C15_steps_in_order.

Theorem C15_stop_at_first_failure : forall desired chain outs req t a k,
  convert desired chain outs req = (t, a) -> k < length t -> is_ok (nth k outs OExitFail) = false ->
  length t = S k /\ exists m, a = Failed m.
Proof. exact stop_at_first_failure. Qed.
Print Assumptions C15_stop_at_first_failure.

Theorem C15_success_iff_all_steps_and_count : forall desired chain outs req t a objs,
  convert desired chain outs req = (t, a) ->
  (a = Success objs <->
   t <> [] /\ (forall k, k < length t -> is_ok (nth k outs OExitFail) = true)
   /\ last_out outs t = OResp [] objs /\ all_at desired objs = true /\ length objs = length req).
Proof. exact success_iff_all_steps_and_count. Qed.
Print Assumptions C15_success_iff_all_steps_and_count.

(* a hook's outcome carries its failedMessage as a byte string, [] = none given *)
Theorem C15_failed_message_relayed : forall desired chain outs req t a k m objs,
  convert desired chain outs req = (t, a) -> k < length t ->
  nth k outs OExitFail = OResp m objs -> m <> [] -> a = Failed (MHook m).
Proof. exact failed_message_relayed. Qed.
Print Assumptions C15_failed_message_relayed.

(* the Spec judges the ConversionReview answer (status and message text): [respond] writes
   the abstract answer out, for any spelling [dtext] of the desired version *)
Theorem C15_handler_meets_spec : forall dtext desired chain outs req t a,
  convert desired chain outs req = (t, a) -> P_handler desired chain outs req t (respond dtext a) = true.
Proof. exact handler_meets_spec. Qed.
Print Assumptions C15_handler_meets_spec.

(* ---- the message texts: conversionEventHandler's return value, then handleReviewRequest /
        errored, as two functions over byte strings (C15_Model part 3) ---- *)

(* the layered model and [convert] are the same function *)
Theorem C15_serve_is_convert : forall dtext desired chain outs req,
  serve dtext desired chain outs req =
  (fst (convert desired chain outs req), respond dtext (snd (convert desired chain outs req))).
Proof. exact serve_respond. Qed.
Print Assumptions C15_serve_is_convert.

(* handler.go: whatever bytes a non-empty FailedMessage consists of, they are the message *)
Theorem C15_review_copies_message : forall requested m objs, m <> [] ->
  handle_review requested (OpResponse m objs) = RFailure m.
Proof. exact review_copies_message. Qed.
Print Assumptions C15_review_copies_message.

(* end to end, for every byte string: the failing hook's own message is the answer's message *)
Theorem C15_failed_message_verbatim : forall dtext desired chain outs req t r k m objs,
  serve dtext desired chain outs req = (t, r) -> k < length t ->
  nth k outs OExitFail = OResp m objs -> m <> [] -> r = RFailure m.
Proof. exact serve_message_verbatim. Qed.
Print Assumptions C15_failed_message_verbatim.

Theorem C15_serve_stop_at_first_failure : forall dtext desired chain outs req t r k,
  serve dtext desired chain outs req = (t, r) -> k < length t -> is_ok (nth k outs OExitFail) = false ->
  length t = S k /\ exists message, r = RFailure message.
Proof. exact serve_stop_at_first_failure. Qed.
Print Assumptions C15_serve_stop_at_first_failure.

Theorem C15_serve_success_iff : forall dtext desired chain outs req t r objs,
  serve dtext desired chain outs req = (t, r) ->
  (r = RSuccess objs <->
   t <> [] /\ (forall k, k < length t -> is_ok (nth k outs OExitFail) = true)
   /\ last_out outs t = OResp [] objs /\ all_at desired objs = true /\ length objs = length req).
Proof. exact serve_success_iff. Qed.
Print Assumptions C15_serve_success_iff.

Theorem C15_serve_meets_spec : forall dtext desired chain outs req t r,
  serve dtext desired chain outs req = (t, r) -> P_handler desired chain outs req t r = true.
Proof. exact serve_meets_spec. Qed.
Print Assumptions C15_serve_meets_spec.

(* ---- non-vacuity: the hypotheses are met by concrete non-trivial inputs ---- *)

(* a diamond with a cycle back, near-miss names (short 0 = "v1", 1 = "v10"), mixed spellings *)
Definition ex_rules : list rule :=
  [ ((None, 0), (Some 1, 3)); ((Some 1, 0), (None, 5)); ((None, 3), (None, 8)); ((Some 1, 5), (Some 1, 8));
    ((None, 8), (None, 0)); ((Some 1, 8), (None, 9)); ((None, 1), (None, 9)) ]%N.

Example C15_hyp_met :
  in_domain ex_rules (Some 1, 0)%N (None, 9)%N = true
  /\ reachable ex_rules (Some 1, 0)%N (None, 9)%N = true
  /\ reachable ex_rules (None, 9)%N (None, 0)%N = false
  /\ option_map (@length rule) (snd (find ex_rules (base_cache ex_rules) ((Some 1, 0), (None, 9))%N)) = Some 3
  /\ snd (find ex_rules (base_cache ex_rules) ((None, 9), (None, 0))%N) = None.
Proof. repeat split; vm_compute; reflexivity. Qed.

Example C15_hyp_met_dom : rules_dom 1%N ex_rules /\ cache_inv 1%N ex_rules (base_cache ex_rules).
Proof.
  assert (rules_dom 1%N ex_rules) as H.
  { intros r Hr. unfold ex_rules in Hr. cbn [In] in Hr.
    repeat (destruct Hr as [<- | Hr]; [split; cbv; auto|]). destruct Hr. }
  split; [exact H | now apply cache_inv_base].
Qed.

(* three hooks, the second one answers failedMessage "50% of %d" (a text full of what a
   formatter would take for verbs): two hook runs, the message relayed as it is *)
Example C15_handler_example :
  convert (None, 8)%N [((None,0),(None,3)); ((None,3),(None,5)); ((None,5),(None,8))]%N
          [OResp [] [(100, (None,3))]; OResp (str "50% of %d") []; OResp [] [(300, (None,8))]]%N
          [(1, (None,0))]%N
  = ([(((None,0),(None,3)), [(1, (None,0))]); (((None,3),(None,5)), [(100, (None,3))])]%N,
     Failed (MHook [53; 48; 37; 32; 111; 102; 32; 37; 100]%N)).
Proof. vm_compute. reflexivity. Qed.

Example C15_serve_example :
  serve (str "v4") (None, 8)%N [((None,0),(None,3)); ((None,3),(None,5)); ((None,5),(None,8))]%N
        [OResp [] [(100, (None,3))]; OResp (str "50% of %d") []; OResp [] [(300, (None,8))]]%N
        [(1, (None,0))]%N
  = ([(((None,0),(None,3)), [(1, (None,0))]); (((None,3),(None,5)), [(100, (None,3))])]%N,
     RFailure (str "50% of %d"))
  /\ snd (serve (str "v4") (None, 8)%N [((None,0),(None,8))]%N [OExitFail] [(1, (None,0))]%N)
     = RFailure (str "Hook failed to convert to v4")
  /\ snd (serve (str "v4") (None, 8)%N [((None,0),(None,8))]%N [ONoResponse] [(1, (None,0))]%N)
     = RFailure (str "hook task prop error")
  /\ snd (serve (str "v4") (None, 8)%N [((None,0),(None,8))]%N [OResp [] [(100, (None,3))]]%N [(1, (None,0))]%N)
     = RFailure (str "Conversion to v4 was not successuful")
  /\ snd (serve (str "v4") (None, 8)%N [((None,0),(None,8))]%N
                [OResp [] [(100, (None,8)); (101, (None,8)); (102, (None,8)); (103, (None,8)); (104, (None,8));
                           (105, (None,8)); (106, (None,8)); (107, (None,8)); (108, (None,8)); (109, (None,8))]]%N
                [(1, (None,0))]%N)
     = RFailure (str "hook returned 10 objects instead of 1").
Proof. repeat split; vm_compute; reflexivity. Qed.

(* ---- hooks with execution-rate settings, several requests served by one operator (C15_Model
        part 4: every step goes through the hook-run task, whose first action is
        RateLimitWait(context.Background()); C15_Spec part 3) ----

   [admits b]: the limiter has no limit or a burst of at least 1.  A hook's limiter is made
   from its settings once (create_rate_limiter) and Wait never changes limit or burst. *)

(* settings that allow the hook to run at all give a limiter that admits, all others do not *)
Theorem C15_runnable_settings_admit : forall s, runnable s = true -> admits (create_rate_limiter s) = true.
Proof. exact runnable_admits. Qed.
Print Assumptions C15_runnable_settings_admit.

(* a rate-limited hook is DELAYED, never skipped: whatever the limiter's tokens and whatever the
   clock reads, Wait(context.Background()) returns nil, at an instant not before the call, and the
   limiter still admits afterwards *)
Theorem C15_wait_delays_never_refuses : forall b t, admits b = true ->
  exists b' t', rate_limit_wait b t = (b', Some t') /\ admits b' = true /\ (t <= t')%Z.
Proof. exact wait_admitted. Qed.
Print Assumptions C15_wait_delays_never_refuses.

(* hence, for every rule set, assignment of rules to hooks, settings in the domain, clock, and
   every sequence of requests (chains, outcomes, objects): each request gets exactly the hook
   runs and the answer it gets from hooks without settings - [serve], about which the theorems
   above speak - however closely the requests follow each other *)
Theorem C15_session_is_serve : forall rules owners hsets clock qs, settings_in_domain hsets = true ->
  serve_session rules owners (initial_limiters hsets, clock) qs = map serve_plain qs.
Proof. exact session_is_serve. Qed.
Print Assumptions C15_session_is_serve.

(* the same from any limiter state that admits (tokens used up by earlier executions for other
   bindings, a bucket in debt, a clock that jumps) *)
Theorem C15_session_admitted : forall rules owners qs lims clock, Forall (fun b => admits b = true) lims ->
  serve_session rules owners (lims, clock) qs = map serve_plain qs.
Proof. exact session_admitted. Qed.
Print Assumptions C15_session_admitted.

(* and every request of the session satisfies the property's predicate *)
Theorem C15_session_meets_spec : forall rules owners hsets clock qs, settings_in_domain hsets = true ->
  all_P_session qs (serve_session rules owners (initial_limiters hsets, clock) qs) = true.
Proof. exact session_meets_spec. Qed.
Print Assumptions C15_session_meets_spec.

(* in general (settings outside the domain included) the hook runs and the answers depend on the
   limiters only through which of them admit: not on tokens, not on the clock.  This is why the
   correspondence needs no clock readings from the implementation. *)
Theorem C15_session_state_irrelevant : forall rules owners qs lims clock lims' clock',
  map admits lims = map admits lims' ->
  serve_session rules owners (lims, clock) qs = serve_session rules owners (lims', clock') qs.
Proof. exact session_state_irrelevant. Qed.
Print Assumptions C15_session_state_irrelevant.

(* outside the domain: a hook whose limiter never admits (positive interval, negative burst) is
   not executed - Wait fails, the task answers "Repeat", nobody repeats a conversion task, and
   conversionEventHandler finds no "conversionResponse" prop.  Recorded as a fact of the model
   (and of the code: corpus case "never-runnable"); such a configuration allows no execution of
   the hook for any binding, so the Spec does not judge it (C15_Spec.runnable). *)
Theorem C15_unrunnable_hook_refused : forall rules owners lims clock dtext desired r rest outs req,
  extract req <> [] -> admits (lim_get lims (owner_of rules owners r)) = false ->
  exists st', serve_lim rules owners (lims, clock) dtext desired (r :: rest) outs req
              = ([], RFailure (msg_text dtext MPropError), st').
Proof. exact unrunnable_hook_refused. Qed.
Print Assumptions C15_unrunnable_hook_refused.

(* non-vacuity: one hook (number 0) owns v1->v2 and v2->v3, executionMinInterval 40 ms, burst 1;
   two requests v1->v3 at a clock that stands still (every Wait is called at instant 0): all four
   steps run, both answers are Success; the second, third and fourth step were granted 40, 80 and
   120 ms later *)
Definition ex_lrules : list rule := [((None,0),(None,3)); ((None,3),(None,5))]%N.
Definition ex_lq (base : N) : squery :=
  (str "v3", (None,5), ex_lrules, [OResp [] [(base, (None,3))]; OResp [] [(base + 1, (None,5))]], [(1, (None,0))])%N.

Example C15_session_example :
  settings_in_domain [Some (40000000, 1)%Z] = true
  /\ serve_session ex_lrules [0; 0]%N (initial_limiters [Some (40000000, 1)%Z], []) [ex_lq 100; ex_lq 200]
     = [ ([(((None,0),(None,3)), [(1, (None,0))]); (((None,3),(None,5)), [(100, (None,3))])], RSuccess [(101, (None,5))]);
         ([(((None,0),(None,3)), [(1, (None,0))]); (((None,3),(None,5)), [(200, (None,3))])], RSuccess [(201, (None,5))]) ]%N
  /\ (let b0 := create_rate_limiter (Some (40000000, 1)%Z) in
      let '(b1, g1) := rate_limit_wait b0 0 in
      let '(b2, g2) := rate_limit_wait b1 0 in
      let '(b3, g3) := rate_limit_wait b2 0 in
      let '(_, g4) := rate_limit_wait b3 0 in
      [g1; g2; g3; g4] = [Some 0; Some 40000000; Some 80000000; Some 120000000]%Z)
  /\ runnable (Some (40000000, -1)%Z) = false
  /\ admits (create_rate_limiter (Some (40000000, -1)%Z)) = false
  /\ (let '(t, a, _) := serve_lim ex_lrules [0; 0]%N (initial_limiters [Some (40000000, -1)%Z], [])
                                  (str "v3") (None,5)%N ex_lrules (snd (fst (ex_lq 100))) [(1, (None,0))]%N in
      t = [] /\ a = RFailure (str "hook task prop error")
      /\ P_handler (None,5)%N ex_lrules (snd (fst (ex_lq 100))) [(1, (None,0))]%N t a = false).
Proof. repeat split; vm_compute; reflexivity. Qed.

(* ---- conversion bindings with further binding parameters: `group`, `includeSnapshotsFrom`; hooks that have
        `kubernetes` / `schedule` bindings beside them (C15_BindModel: configuration loading, links,
        HandleEvent, UpdateSnapshots, MapV1 statement by statement; C15_BindSpec.P_params) ----

   What the hook of a step READS ($BINDING_CONTEXT_PATH) is part of the observation: a delivery is
   (hook number, rendered binding context). *)

(* MapV1: a conversion context is rendered as the conversion review - type "Conversion", the
   rule's fromVersion / toVersion, the review - whatever group it carries, whatever snapshots it
   includes or holds; it never has a groupName *)
Theorem C15_conversion_context_is_review : forall bc, bc_btype bc = BConversion ->
  r_type (map_v1 bc) = RtConversion /\ r_versions (map_v1 bc) = Some (bc_versions bc)
  /\ r_review (map_v1 bc) = bc_review bc /\ r_group (map_v1 bc) = None /\ r_binding (map_v1 bc) = bc_binding bc.
Proof. exact conversion_context_is_review. Qed.
Print Assumptions C15_conversion_context_is_review.

(* the statement that follows in MapV1 is not idle: the same group on a schedule / kubernetes context
   gives "type": "Group" and no review - so the theorem above depends on the ORDER of the statements *)
Theorem C15_grouped_context_is_group : forall bc g, bc_group bc = Some g ->
  bc_btype bc = BSchedule \/ bc_btype bc = BOnKubernetesEvent ->
  r_type (map_v1 bc) = RtGroup /\ r_group (map_v1 bc) = Some g /\ r_review (map_v1 bc) = None.
Proof. exact grouped_context_is_group. Qed.
Print Assumptions C15_grouped_context_is_group.

(* for every configuration of hooks, every link (binding with any parameters) and every object list:
   the hook reads the conversion request of the link's rule carrying exactly these objects *)
Theorem C15_step_hook_receives_request : forall hooks l objs,
  conversion_request (hook_receives hooks l objs) = Some (l_rule l, objs).
Proof. exact step_hook_receives_request. Qed.
Print Assumptions C15_step_hook_receives_request.

(* BINDING_CONVERSION.md "snapshots as defined by includeSnapshotsFrom or group": the field is there
   exactly when the binding includes something, a group brings in its kubernetes bindings, the
   names listed are kept *)
Theorem C15_snapshots_field_iff : forall hooks l objs,
  r_snapshots (hook_receives hooks l objs) = None <-> l_include l = [].
Proof. exact snapshots_field_iff. Qed.
Print Assumptions C15_snapshots_field_iff.

Theorem C15_group_includes_its_snapshots : forall cfg cb g k,
  cb_group cb = Some g -> In (k, Some g) (h_kube cfg) -> In k (loaded_include cfg cb).
Proof. exact group_includes_its_snapshots. Qed.
Print Assumptions C15_group_includes_its_snapshots.

Theorem C15_include_kept : forall cfg cb k, In k (cb_include cb) -> In k (loaded_include cfg cb).
Proof. exact include_kept. Qed.
Print Assumptions C15_include_kept.

(* the chain, for ALL hook configurations (any group / includeSnapshotsFrom on any binding, in any
   position of the chain; any other bindings; any assignment of rules to hooks and bindings), all
   chains of declared rules, all outcome scripts, all requests: every executed hook read the
   conversion request of its step - [requests] turns the deliveries into the (rule, objects) trace -,
   each was a hook that declared the step's rule, and runs and answer are those of [serve], about
   which the theorems above speak *)
Theorem C15_params_is_serve : forall crd hooks dtext desired chain outs req,
  forallb (declared (hooks_rules hooks)) chain = true ->
  exists t', serve_params crd hooks dtext desired chain outs req = (t', snd (serve dtext desired chain outs req))
             /\ requests t' = Some (fst (serve dtext desired chain outs req))
             /\ forallb (run_by_declarer hooks) t' = true.
Proof. exact params_is_serve. Qed.
Print Assumptions C15_params_is_serve.

Theorem C15_params_meets_spec : forall crd hooks dtext desired chain outs req t r,
  forallb (declared (hooks_rules hooks)) chain = true ->
  serve_params crd hooks dtext desired chain outs req = (t, r) ->
  P_params hooks desired chain outs req t r = true.
Proof. exact params_meets_spec. Qed.
Print Assumptions C15_params_meets_spec.

(* binding parameters, other bindings, which hook owns which rule: no influence on what the hooks are
   asked to convert nor on the answer *)
Theorem C15_params_irrelevant : forall crd crd' hooks hooks' dtext desired chain outs req,
  forallb (declared (hooks_rules hooks)) chain = true -> forallb (declared (hooks_rules hooks')) chain = true ->
  requests (fst (serve_params crd hooks dtext desired chain outs req))
  = requests (fst (serve_params crd' hooks' dtext desired chain outs req))
  /\ snd (serve_params crd hooks dtext desired chain outs req) = snd (serve_params crd' hooks' dtext desired chain outs req).
Proof. exact params_irrelevant. Qed.
Print Assumptions C15_params_irrelevant.

(* a rule no hook has a link for (never a declared rule): the handler's own error, nothing is run *)
Theorem C15_no_link_fails : forall crd hooks dtext desired r rest outs req,
  extract req <> [] -> link_for (all_links hooks) r = None ->
  serve_params crd hooks dtext desired (r :: rest) outs req = ([], RFailure (no_hook_text crd)).
Proof. exact no_link_fails. Qed.
Print Assumptions C15_no_link_fails.

(* non-vacuity: two hooks, stable.example.com/v1 -> v2 (hook 0, binding 0) and stable.example.com/v2 ->
   stable.example.com/v3 (hook 1, binding 100, `group: 1`, `includeSnapshotsFrom: [1]`; hook 1 has the
   kubernetes bindings 0 (group 1) and 1 (no group) and a schedule binding of group 1): the chain is made of
   declared rules, the second hook reads type Conversion with the FIRST hook's output and the snapshots
   of bindings 1 and 0, the answer is Success.  And the Spec is not idle: had the second hook read a
   "Group" context instead, P_params would reject the observation. *)
Definition ex_hooks : list hookcfg :=
  [ mkHook [] [] [mkCB 0 None [] [((Some 1, 0), (None, 3))]];
    mkHook [(0, Some 1); (1, None)] [(0, Some 1)] [mkCB 100 (Some 1) [1] [((Some 1, 3), (Some 1, 5))]] ]%N.
Definition ex_pchain : list rule := [((Some 1, 0), (None, 3)); ((Some 1, 3), (Some 1, 5))]%N.
Definition ex_pouts : list outcome := [OResp [] [(100, (None, 3))]; OResp [] [(200, (Some 1, 5))]]%N.

Example C15_params_example :
  forallb (declared (hooks_rules ex_hooks)) ex_pchain = true
  /\ serve_params (str "crontabs.stable.example.com") ex_hooks (str "stable.example.com/v3") (Some 1, 5)%N
                  ex_pchain ex_pouts [(1, (Some 1, 0))]%N
     = ([ (0, mkR 0 RtConversion None None (Some ((Some 1, 0), (None, 3))) (Some [(1, (Some 1, 0))]));
          (1, mkR 100 RtConversion (Some [1; 0]) None (Some ((Some 1, 3), (Some 1, 5))) (Some [(100, (None, 3))])) ]%N,
        RSuccess [(200, (Some 1, 5))]%N)
  /\ P_params ex_hooks (Some 1, 5)%N ex_pchain ex_pouts [(1, (Some 1, 0))]%N
              [ (0, mkR 0 RtConversion None None (Some ((Some 1, 0), (None, 3))) (Some [(1, (Some 1, 0))]));
                (1, mkR 100 RtGroup (Some [1; 0]) (Some 1) None None) ]%N
              (RSuccess [(200, (Some 1, 5))]%N) = false
  /\ link_for (all_links ex_hooks) ((None, 3), (None, 5))%N = None.
Proof. repeat split; vm_compute; reflexivity. Qed.


(* ---- hook outputs as encoded: one decoding per element ---- *)

(* the handler's test after every step ("all objects already are at desiredAPIVersion") is true exactly
   when the list is not empty and EVERY element is an object whose apiVersion is the desired string -
   whatever stands before or after an element without one *)
Theorem C15_enc_done_iff_every_element : forall desired objs,
  is_done_e desired objs = true <-> objs <> [] /\ forall o, In o objs -> at_desired desired o = true.
Proof. exact done_iff_every_element. Qed.
Print Assumptions C15_enc_done_iff_every_element.

(* the full statement of part 2 over encoded outputs, for ALL chains, outcome scripts and requests *)
Theorem C15_enc_meets_spec : forall dtext desired chain outs req t r,
  serve_e dtext desired chain outs req = (t, r) -> P_enc desired chain outs req t r = true.
Proof. exact serve_e_meets_spec. Qed.
Print Assumptions C15_enc_meets_spec.

(* Success: as many elements as requested, every one at the desired version *)
Theorem C15_enc_success_every_element : forall dtext desired chain outs req t objs,
  serve_e dtext desired chain outs req = (t, ERSuccess objs) ->
  length objs = length req /\ forall o, In o objs -> at_desired desired o = true.
Proof. exact success_every_element. Qed.
Print Assumptions C15_enc_success_every_element.

(* a step's output that holds an element not at the desired version (no apiVersion IS not at the desired
   version) never ends the chain early: if that step was the last one invoked it was the last rule of
   the chain and the answer is Failed ... *)
Theorem C15_enc_unversioned_not_cut : forall dtext desired chain outs req t r k objs o,
  serve_e dtext desired chain outs req = (t, r) -> k < length t ->
  nth k outs EExitFail = EResp [] objs -> In o objs -> at_desired desired o = false ->
  length t = S k -> length chain = S k /\ exists message, r = ERFailure message.
Proof. exact unversioned_element_not_cut. Qed.
Print Assumptions C15_enc_unversioned_not_cut.

(* ... and if the chain has a further rule, that rule's hook is invoked *)
Theorem C15_enc_unversioned_next_step : forall dtext desired chain outs req t r k objs o,
  serve_e dtext desired chain outs req = (t, r) -> k < length t ->
  nth k outs EExitFail = EResp [] objs -> In o objs -> at_desired desired o = false ->
  S k < length chain -> S k < length t.
Proof. exact unversioned_element_next_step. Qed.
Print Assumptions C15_enc_unversioned_next_step.

(* non-vacuity: chain v1 -> v3 -> v5, desired v5; step 1 answers [object at v5; object WITHOUT apiVersion]:
   the hypotheses of the two theorems above are met with k = 0, the second hook runs on exactly that
   output and the answer is its output.  One step whose output is [object at v5; null]: Failed.  And the
   Spec is not idle: Success after step 1 alone is rejected. *)
Definition ex_echain : list rule := [((None, 0), (None, 3)); ((None, 3), (None, 5))]%N.
Definition ex_eout1 : list eobj := [EObj 100 (AStr (SVer (None, 5))); EObj 101 AMissing]%N.
Definition ex_eout2 : list eobj := [EObj 200 (AStr (SVer (None, 5))); EObj 201 (AStr (SVer (None, 5)))]%N.
Definition ex_ereq : list eobj := [wf (1, (None, 0)); wf (2, (None, 0))]%N.
Example C15_enc_example :
  serve_e (str "v3") (None, 5)%N ex_echain [EResp [] ex_eout1; EResp [] ex_eout2] ex_ereq
  = ([(((None, 0), (None, 3)), ex_ereq); (((None, 3), (None, 5)), ex_eout1)]%N, ERSuccess ex_eout2)
  /\ In (EObj 101 AMissing)%N ex_eout1 /\ at_desired (None, 5)%N (EObj 101 AMissing)%N = false
  /\ 1 < length ex_echain
  /\ serve_e (str "v3") (None, 5)%N [((None, 3), (None, 5))]%N [EResp [] [EObj 100 (AStr (SVer (None, 5))); ENull]%N]
             [wf (1, (None, 3)); wf (2, (None, 3))]%N
     = ([(((None, 3), (None, 5)), [wf (1, (None, 3)); wf (2, (None, 3))])]%N,
        ERFailure (str "Conversion to v3 was not successuful"))
  /\ P_enc (None, 5)%N ex_echain [EResp [] ex_eout1; EResp [] ex_eout2] ex_ereq
           [(((None, 0), (None, 3)), ex_ereq)]%N (ERSuccess ex_eout1) = false.
Proof. repeat split; try (vm_compute; reflexivity). now right; left. Qed.

(* ---- several CRDs served by one operator (C15_MultiModel: ChainStorage.Chains per CRD name, the links of the
        conversion bindings per CRD name; C15_MultiSpec: a request is judged against the rules declared for ITS
        CRD).  All configurations (any number of CRDs, any declared rules, coinciding version names or not),
        all sessions (any interleaving of requests for any CRDs, known to the operator or not). ---- *)

(* the answers given to the requests for CRD x, in any session on one operator, are the answers that the Chain
   of x alone (its declared rules, its initial cache - the single-CRD model of the sections above) gives to
   those requests alone: what other CRDs declare and what was asked for them plays no part *)
Theorem C15_multi_is_single : forall decls reqs x,
  answers_for x reqs (find_session (build decls) reqs) =
  find_shared (declared_for decls x) (base_cache (declared_for decls x)) (queries_for x reqs).
Proof. exact multi_is_single. Qed.
Print Assumptions C15_multi_is_single.

(* ... and they are the answers of a fresh operator that was configured with the declarations for x only and
   was asked the requests for x only *)
Theorem C15_multi_is_alone : forall decls reqs x,
  answers_for x reqs (find_session (build decls) reqs) = find_session (build (only x decls)) (only x reqs).
Proof. exact multi_is_alone. Qed.
Print Assumptions C15_multi_is_alone.

(* every request of every session is answered with a valid chain of rules declared for its own CRD when one
   exists, and fails otherwise.  Domain as above, per CRD: CRD x has one group, g x. *)
Theorem C15_multi_session_meets_spec : forall g decls, (forall x, rules_dom (g x) (declared_for decls x)) ->
  forall reqs, (forall x q, In (x, q) reqs -> dom (g x) (r_from q) /\ dom (g x) (r_to q)) ->
  all_P_multi decls reqs (find_session (build decls) reqs) = true.
Proof. exact multi_session_meets_spec. Qed.
Print Assumptions C15_multi_session_meets_spec.

(* the same from any state of the operator that earlier requests can have left behind *)
Theorem C15_multi_meets_spec : forall g decls, (forall x, rules_dom (g x) (declared_for decls x)) ->
  forall reqs, (forall x q, In (x, q) reqs -> dom (g x) (r_from q) /\ dom (g x) (r_to q)) ->
  forall st, st_inv g decls st -> all_P_multi decls reqs (find_session st reqs) = true.
Proof. exact multi_meets_spec. Qed.
Print Assumptions C15_multi_meets_spec.

(* the chains the operator finds consist of rules that have a hook FOR THE REQUEST'S CRD ... *)
Theorem C15_multi_chain_linked : forall g decls st x q p, (forall x, rules_dom (g x) (declared_for decls x)) ->
  dom (g x) (r_from q) -> st_inv g decls st -> snd (find_m st x q) = Some p ->
  forallb (has_link (declared_for decls x)) p = true.
Proof. exact multi_chain_linked. Qed.
Print Assumptions C15_multi_chain_linked.

(* ... such a chain is served exactly as the single-CRD model says, whatever the CRD is called and whatever
   else is declared, so every clause of P_handler holds ... *)
Theorem C15_serve_m_linked : forall crd rules dtext desired chain outs req, forallb (has_link rules) chain = true ->
  serve_m crd rules dtext desired chain outs req = serve dtext desired chain outs req.
Proof. exact serve_m_linked. Qed.
Print Assumptions C15_serve_m_linked.

Theorem C15_serve_m_meets_spec : forall crd rules dtext desired chain outs req t r,
  forallb (has_link rules) chain = true ->
  serve_m crd rules dtext desired chain outs req = (t, r) -> P_handler desired chain outs req t r = true.
Proof. exact serve_m_meets_spec. Qed.
Print Assumptions C15_serve_m_meets_spec.

(* ... whereas a chain that starts with a rule not declared for the request's CRD (another CRD's rule) runs no
   hook and is answered with a Failure *)
Theorem C15_serve_m_no_link : forall crd rules dtext desired r rest outs req, has_link rules r = false -> extract req <> [] ->
  serve_m crd rules dtext desired (r :: rest) outs req = ([], RFailure (no_hook_text_m crd)).
Proof. exact serve_m_no_link. Qed.
Print Assumptions C15_serve_m_no_link.

(* non-vacuity: three CRDs whose version names coincide (short 4 = v1alpha1, 2 = v1beta1, 0 = v1; group 1) and whose
   graphs differ: crontabs v1alpha1 -> v1beta1 -> v1, backups v1alpha1 -> v1 directly, reports only v1 -> v1alpha1;
   the same pair asked for each, back and forth, and for a CRD the operator does not know *)
Definition ex_decls : list (N * rule) :=
  [(0, ((Some 1, 4), (Some 1, 2))); (1, ((None, 4), (None, 0))); (0, ((None, 2), (None, 0))); (2, ((None, 0), (None, 4)))]%N.
Definition ex_pair : rule := ((Some 1, 4), (Some 1, 0))%N.
Definition ex_mreqs : list (N * rule) := [(0, ex_pair); (1, ex_pair); (2, ex_pair); (7, ex_pair); (1, ex_pair); (0, ex_pair)]%N.
Example C15_multi_hyp_met :
  (forall x, rules_dom 1%N (declared_for ex_decls x)) /\
  (forall x q, In (x, q) ex_mreqs -> dom 1%N (r_from q) /\ dom 1%N (r_to q)) /\
  map (option_map (@length rule)) (find_session (build ex_decls) ex_mreqs) = [Some 2; Some 1; None; None; Some 1; Some 2]%nat /\
  forallb (fun p => in_domain (declared_for ex_decls (fst p)) (fst (snd p)) (snd (snd p))) ex_mreqs = true.
Proof.
  split; [|split; [|split; vm_compute; reflexivity]].
  - intros x r Hr. unfold declared_for in Hr. apply in_map_iff in Hr. destruct Hr as (d & <- & Hd).
    apply filter_In in Hd. destruct Hd as [Hd _].
    repeat (destruct Hd as [<- | Hd]; [split; cbv; auto|]). destruct Hd.
  - intros x q Hq. repeat (destruct Hq as [Hq | Hq]; [injection Hq as <- <-; split; cbv; auto|]). destruct Hq.
Qed.
