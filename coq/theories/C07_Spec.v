(* C07_Spec.v — property C07 as a decidable predicate over what can be observed of one
   call: the queue layout given, what the function returned, the queue afterwards.
   Written from the property text with ordinary list vocabulary (take/drop-while, runs);
   it never mentions the model's functions (only the data types of C07_Model).

   Text: "When the head task of a queue is executed, the tasks immediately following it
   for the same hook are merged into it: the hook receives the concatenation, in queue
   order, of all their binding contexts, exactly those tasks disappear from the queue,
   and every other task keeps its place.  The only contexts left out are grouped ones
   immediately followed by a context of the same group (the last of each run survives);
   tasks of other hooks or of another task type are never merged in." *)
From Verif Require Import Common C07_Model.

(* ---- equality tests ---- *)
Definition ctx_eqb (a b : ctx) : bool := N.eqb (c_tag a) (c_tag b) && N.eqb (c_group a) (c_group b).
Definition ctxs_eqb : list ctx -> list ctx -> bool := list_eqb ctx_eqb.
Definition ns_eqb : list N -> list N -> bool := list_eqb N.eqb.

(* ---- "the tasks immediately following it for the same hook (and of the same type)" ---- *)
Fixpoint take_while {A} (f : A -> bool) (l : list A) : list A :=
  match l with
  | [] => []
  | x :: r => if f x then x :: take_while f r else []
  end.
Fixpoint drop_while {A} (f : A -> bool) (l : list A) : list A :=
  match l with
  | [] => []
  | x :: r => if f x then drop_while f r else l
  end.

(* [x] is a task of the same hook and task type as the head [h] *)
Definition same_kind (h x : task) : bool :=
  t_meta x && N.eqb (t_hook x) (t_hook h) && N.eqb (t_ty x) (t_ty h).
(* with a caller-supplied stricter rule [stopfn] (nil in shell-operator itself) *)
Definition mergeable (stopfn : task -> bool) (h x : task) : bool :=
  same_kind h x && negb (stopfn x).

(* the maximal block of tasks immediately following the head that are merged,
   and what is left of the rest of the queue *)
Definition block (stopfn : task -> bool) (h : task) (rest : list task) : list task :=
  take_while (mergeable stopfn h) rest.
Definition after_block (stopfn : task -> bool) (h : task) (rest : list task) : list task :=
  drop_while (mergeable stopfn h) rest.

(* ---- "the last of each run survives" ---- *)
(* maximal runs of adjacent contexts with equal group *)
Fixpoint runs (l : list ctx) : list (list ctx) :=
  match l with
  | [] => []
  | c :: r =>
      match runs r with
      | (d :: run) :: rs =>
          if N.eqb (c_group d) (c_group c) then (c :: d :: run) :: rs
          else [c] :: (d :: run) :: rs
      | _ => [[c]]
      end
  end.
(* last element of the non-empty list c :: run *)
Fixpoint last_of (c : ctx) (run : list ctx) : ctx :=
  match run with
  | [] => c
  | d :: r => last_of d r
  end.
(* of a run without group everything survives, of a grouped run its last context *)
Definition survivors (run : list ctx) : list ctx :=
  match run with
  | [] => []
  | c :: r => if N.eqb (c_group c) 0 then run else [last_of c r]
  end.
Definition spec_compact (l : list ctx) : list ctx := flat_map survivors (runs l).

(* ---- "the only contexts left out are grouped ones immediately followed by a context of
   the same group": [d] is [l] with some contexts left out, each of which is grouped and
   immediately followed in [l] by a context of the same group ---- *)
Definition may_leave_out (c : ctx) (following : list ctx) : bool :=
  negb (N.eqb (c_group c) 0)
  && match following with
     | nxt :: _ => N.eqb (c_group nxt) (c_group c)
     | [] => false
     end.
Fixpoint left_out_ok (l d : list ctx) : bool :=
  match l with
  | [] => match d with [] => true | _ :: _ => false end
  | c :: r =>
      match d with
      | c' :: d' => ctx_eqb c c' && left_out_ok r d'
      | [] => false
      end
      || (may_leave_out c r && left_out_ok r d)
  end.

(* ---- well-formedness of an input (types [input], [obs] are in C07_Model) ---- *)
Fixpoint nodupb (l : list N) : bool :=
  match l with
  | [] => true
  | x :: r => negb (mem_N x r) && nodupb r
  end.

(* the situation the property speaks about: the executed task is a hook task (has
   metadata) standing at the head of its queue, and task ids are unique (they are
   uuids) *)
Definition wf (i : input) : bool :=
  match i_q i with
  | h :: _ => N.eqb (t_id h) (t_id (i_t i))
  | [] => false
  end
  && t_meta (i_t i)
  && nodupb (map t_id (i_q i ++ i_app i)).

(* what the hook is run with (operator.go:575-581): the result if there is one, the
   task's own contexts / monitor ids otherwise *)
Definition obs_ctxs (t : task) (o : obs) : list ctx :=
  match o_res o with Some (c, _) => c | None => t_ctxs t end.
Definition obs_mids (t : task) (o : obs) : list N :=
  match o_res o with
  | Some (_, (_ :: _) as m) => m
  | _ => t_mids t
  end.

Definition is_nil {A} (l : list A) : bool := match l with [] => true | _ :: _ => false end.

(* The predicate.  Outside [wf] nothing is claimed.
   - contexts: what is delivered is the concatenation C of the contexts of the head and
     of the block, with nothing left out except contexts that may be left out; and as
     soon as something was merged, exactly the last of every grouped run survives.
     (When nothing follows the head the text does not force the head's own contexts to
     be re-compacted: both readings are accepted.)
   - queue: head, then the rest without the block, then the concurrently appended tasks.
   - monitor ids: concatenation in the same order. *)
Definition P (i : input) (o : obs) : bool :=
  if wf i then
    let t := i_t i in
    let rest := tl (i_q i) in
    let b := block (stop_of (i_stop i)) t rest in
    let C := t_ctxs t ++ flat_map t_ctxs b in
    left_out_ok C (obs_ctxs t o)
    && (is_nil b || ctxs_eqb (obs_ctxs t o) (spec_compact C))
    && ns_eqb (o_queue o)
              (map t_id (firstn 1 (i_q i) ++ after_block (stop_of (i_stop i)) t rest ++ i_app i))
    && ns_eqb (obs_mids t o) (t_mids t ++ flat_map t_mids b)
  else true.
