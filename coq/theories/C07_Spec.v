(* C07_Spec.v — property C07 as a decidable predicate over what can be observed of one
   call: the queue layout given, what the function returned, the queue afterwards.
   Written from the property text with ordinary list vocabulary (take/drop-while, runs);
   it never mentions the model's functions (only the data types of C07_Model).

   Text: "When the head task of a queue is executed, the tasks immediately following it
   for the same hook are merged into it: the hook receives the concatenation, in queue
   order, of all their binding contexts, exactly those tasks disappear from the queue,
   and every other task keeps its place.  The only contexts left out are grouped ones
   immediately followed by a context of the same group (the last of each run survives);
   tasks of other hooks or of another task type are never merged in." *)
From Verif Require Import Common C07_Model.

(* ---- equality tests ---- *)
Definition ctx_eqb (a b : ctx) : bool := N.eqb (c_tag a) (c_tag b) && N.eqb (c_group a) (c_group b).
Definition ctxs_eqb : list ctx -> list ctx -> bool := list_eqb ctx_eqb.
Definition ns_eqb : list N -> list N -> bool := list_eqb N.eqb.

(* ---- "the tasks immediately following it for the same hook (and of the same type)" ---- *)
Fixpoint take_while {A} (f : A -> bool) (l : list A) : list A :=
  match l with
  | [] => []
  | x :: r => if f x then x :: take_while f r else []
  end.
Fixpoint drop_while {A} (f : A -> bool) (l : list A) : list A :=
  match l with
  | [] => []
  | x :: r => if f x then drop_while f r else l
  end.

(* [x] is a task of the same hook and task type as the head [h] *)
Definition same_kind (h x : task) : bool :=
  t_meta x && N.eqb (t_hook x) (t_hook h) && N.eqb (t_ty x) (t_ty h).
(* with a caller-supplied stricter rule [stopfn] (nil in shell-operator itself) *)
Definition mergeable (stopfn : task -> bool) (h x : task) : bool :=
  same_kind h x && negb (stopfn x).

(* the maximal block of tasks immediately following the head that are merged,
   and what is left of the rest of the queue *)
Definition block (stopfn : task -> bool) (h : task) (rest : list task) : list task :=
  take_while (mergeable stopfn h) rest.
Definition after_block (stopfn : task -> bool) (h : task) (rest : list task) : list task :=
  drop_while (mergeable stopfn h) rest.

(* ---- "the last of each run survives" ---- *)
(* maximal runs of adjacent contexts with equal group *)
Fixpoint runs (l : list ctx) : list (list ctx) :=
  match l with
  | [] => []
  | c :: r =>
      match runs r with
      | (d :: run) :: rs =>
          if N.eqb (c_group d) (c_group c) then (c :: d :: run) :: rs
          else [c] :: (d :: run) :: rs
      | _ => [[c]]
      end
  end.
(* last element of the non-empty list c :: run *)
Fixpoint last_of (c : ctx) (run : list ctx) : ctx :=
  match run with
  | [] => c
  | d :: r => last_of d r
  end.
(* of a run without group everything survives, of a grouped run its last context *)
Definition survivors (run : list ctx) : list ctx :=
  match run with
  | [] => []
  | c :: r => if N.eqb (c_group c) 0 then run else [last_of c r]
  end.
Definition spec_compact (l : list ctx) : list ctx := flat_map survivors (runs l).

(* ---- "the only contexts left out are grouped ones immediately followed by a context of
   the same group": [d] is [l] with some contexts left out, each of which is grouped and
   immediately followed in [l] by a context of the same group ---- *)
Definition may_leave_out (c : ctx) (following : list ctx) : bool :=
  negb (N.eqb (c_group c) 0)
  && match following with
     | nxt :: _ => N.eqb (c_group nxt) (c_group c)
     | [] => false
     end.
Fixpoint left_out_ok (l d : list ctx) : bool :=
  match l with
  | [] => match d with [] => true | _ :: _ => false end
  | c :: r =>
      match d with
      | c' :: d' => ctx_eqb c c' && left_out_ok r d'
      | [] => false
      end
      || (may_leave_out c r && left_out_ok r d)
  end.

(* ---- well-formedness of an input (types [input], [obs] are in C07_Model) ---- *)
Fixpoint nodupb (l : list N) : bool :=
  match l with
  | [] => true
  | x :: r => negb (mem_N x r) && nodupb r
  end.

(* the situation the property speaks about: the executed task is a hook task (has
   metadata) standing at the head of its queue, and task ids are unique (they are
   uuids) *)
Definition wf (i : input) : bool :=
  match i_q i with
  | h :: _ => N.eqb (t_id h) (t_id (i_t i))
  | [] => false
  end
  && t_meta (i_t i)
  && nodupb (map t_id (i_q i ++ i_app i)).

(* what the hook is run with (operator.go:575-581): the result if there is one, the
   task's own contexts / monitor ids otherwise *)
Definition obs_ctxs (t : task) (o : obs) : list ctx :=
  match o_res o with Some (c, _) => c | None => t_ctxs t end.
Definition obs_mids (t : task) (o : obs) : list N :=
  match o_res o with
  | Some (_, (_ :: _) as m) => m
  | _ => t_mids t
  end.

Definition is_nil {A} (l : list A) : bool := match l with [] => true | _ :: _ => false end.

(* The predicate.  Outside [wf] nothing is claimed.
   - contexts: what is delivered is the concatenation C of the contexts of the head and
     of the block, with nothing left out except contexts that may be left out; and as
     soon as something was merged, exactly the last of every grouped run survives.
     (When nothing follows the head the text does not force the head's own contexts to
     be re-compacted: both readings are accepted.)
   - queue: head, then the rest without the block, then the concurrently appended tasks.
   - monitor ids: concatenation in the same order. *)
Definition P (i : input) (o : obs) : bool :=
  if wf i then
    let t := i_t i in
    let rest := tl (i_q i) in
    let b := block (stop_of (i_stop i)) t rest in
    let C := t_ctxs t ++ flat_map t_ctxs b in
    left_out_ok C (obs_ctxs t o)
    && (is_nil b || ctxs_eqb (obs_ctxs t o) (spec_compact C))
    && ns_eqb (o_queue o)
              (map t_id (firstn 1 (i_q i) ++ after_block (stop_of (i_stop i)) t rest ++ i_app i))
    && ns_eqb (obs_mids t o) (t_mids t ++ flat_map t_mids b)
  else true.

(* ====================================================================== part 2: the queue set
   The property's premise is "when the HEAD TASK OF A QUEUE is executed": the queue is the
   one the task's queue name points to.  Read for a whole set of named queues:
   - the executed task is the head of the queue its name points to: the text applies to that
     queue ([P] above), and "every other task keeps its place" holds in particular for every
     task of every OTHER queue: a run in queue A never touches queue B;
   - the executed task is in NO queue (its name - the empty name of the webhook handlers'
     tasks, or any name no queue of the set has - points nowhere, and no queue holds it): no
     head task of a queue is executed, so nothing is merged (the run gets the task's own
     contexts) and EVERY queue of the set stays exactly as it is;
   - anything else (the task sits in the queue but not at its head, sits in another queue than
     the one it names, or sits in a queue while naming none, like the bootstrap tasks) cannot
     arise from the operator's workers; only "queues the task's name does not point to are not
     touched" is claimed there.
   Tasks arriving concurrently are appended to their queues and never lost. *)

(* the queue / the id list a name points to (names are unique in a set) *)
Definition named {A} (n : N) (l : list (N * A)) : option A :=
  option_map snd (find (fun p => N.eqb (fst p) n) l).
Definition queue_named (n : N) (qs : qset) : option (list task) := named n qs.
(* the tasks that arrived for queue [n], in arrival order *)
Definition arrived (n : N) (app : list (N * task)) : list task :=
  map snd (filter (fun p => N.eqb (fst p) n) app).
Definition all_ids (qs : qset) : list N := flat_map (fun p => map t_id (snd p)) qs.
Definition is_none {A} (o : option A) : bool := match o with None => true | Some _ => false end.

(* a queue set: distinct non-empty names; task ids are unique (uuids) over all queues and arrivals *)
Definition wf_set (i : sinput) : bool :=
  nodupb (map fst (s_qs i)) && negb (mem_N 0 (map fst (s_qs i)))
  && nodupb (all_ids (s_qs i) ++ map (fun p => t_id (snd p)) (s_app i)).

(* queue [n] holds exactly what it held, followed by its arrivals *)
Definition untouched (i : sinput) (o : sobs) (n : N) : bool :=
  match queue_named n (s_qs i), named n (so_queues o) with
  | Some q, Some ids => ns_eqb ids (map t_id (q ++ arrived n (s_app i)))
  | _, _ => false
  end.

Definition P_set (i : sinput) (o : sobs) : bool :=
  if wf_set i then
    let t := s_t i in
    let names := map fst (s_qs i) in
    ns_eqb (map fst (so_queues o)) names                      (* the same queues *)
    && match queue_named (t_qn t) (s_qs i) with
       | None =>
           (* the name points to no queue *)
           if mem_N (t_id t) (all_ids (s_qs i)) then true     (* ... but the task sits in one: no claim *)
           else is_none (so_res o) && forallb (untouched i o) names
       | Some q =>
           forallb (fun n => N.eqb n (t_qn t) || untouched i o n) names
           && match named (t_qn t) (so_queues o) with
              | Some ids =>                                   (* [P] claims something only if t is q's head *)
                  P (mkIn t (s_stop i) q (arrived (t_qn t) (s_app i))) (mkObs (so_res o) ids)
              | None => false
              end
       end
  else true.

(* ====================================================================== part 3: sessions
   The same reading for the operator: steps are executions of the head of a queue by its
   worker and runs of tasks that are in no queue (webhook handlers).  Each step is judged
   against the queue set as it was observed BEFORE the step (full content: ids, hooks, types,
   stored contexts and monitor ids), so nothing of the model is needed to say what a step may
   do.  A head whose hook fails stays at the head and must keep, as its stored contexts,
   exactly what was delivered (they are delivered again by the retry); a head whose run
   succeeds is removed by the worker. *)
Definition task_eqb (a b : task) : bool :=
  N.eqb (t_id a) (t_id b) && N.eqb (t_hook a) (t_hook b) && N.eqb (t_ty a) (t_ty b)
  && Bool.eqb (t_meta a) (t_meta b) && ctxs_eqb (t_ctxs a) (t_ctxs b)
  && ns_eqb (t_mids a) (t_mids b) && N.eqb (t_qn a) (t_qn b).
Definition tasks_eqb : list task -> list task -> bool := list_eqb task_eqb.

(* queue [n] is, task for task, what it was *)
Definition same_queue (before after : qset) (n : N) : bool :=
  match queue_named n before, queue_named n after with
  | Some a, Some b => tasks_eqb a b
  | _, _ => false
  end.

Definition wf_state (qs : qset) : bool :=
  nodupb (map fst qs) && negb (mem_N 0 (map fst qs)) && nodupb (all_ids qs)
  && forallb (fun p => forallb t_meta (snd p)) qs.

Definition nostop (_ : task) : bool := false.

Definition P_step (qs : qset) (st : ostep) (o : ostepobs) : bool :=
  if wf_state qs then
    let names := map fst qs in
    let after := st_state o in
    ns_eqb (map fst after) names
    && match st with
       | SHead qn ok =>
           match queue_named qn qs with
           | Some (t :: rest) =>
               (* a run in queue qn never touches a queue its task does not name *)
               forallb (fun n => N.eqb n qn || N.eqb n (t_qn t) || same_queue qs after n) names
               && (if N.eqb (t_ty t) 0 && N.eqb (t_qn t) qn then
                     (* the head task of the queue its name points to is executed *)
                     let b := block nostop t rest in
                     let C := t_ctxs t ++ flat_map t_ctxs b in
                     match st_runs o, queue_named qn after with
                     | [r], Some q' =>
                         N.eqb (ru_hook r) (t_hook t)
                         && left_out_ok C (ru_ctxs r)
                         && (is_nil b || ctxs_eqb (ru_ctxs r) (spec_compact C))
                         && tasks_eqb q'
                              ((if st_success o then []
                                else [mkTask (t_id t) (t_hook t) (t_ty t) true (ru_ctxs r)
                                             (t_mids t ++ flat_map t_mids b) (t_qn t)])
                               ++ after_block nostop t rest)
                     | _, _ => false
                     end
                   else true)
           | _ =>
               (* no such queue or nothing in it: nothing is executed, nothing changes *)
               is_nil (st_runs o) && forallb (same_queue qs after) names
           end
       | SLoose t ok =>
           if t_meta t && negb (mem_N (t_id t) (all_ids qs)) then
             forallb (fun n => N.eqb n (t_qn t) || same_queue qs after n) names
             && match queue_named (t_qn t) qs with
                | None =>
                    (* the task is in no queue: it is run with its own contexts, nothing merged
                       (and, by the line above, every queue is what it was) *)
                    match st_runs o with
                    | [r] => N.eqb (ru_hook r) (t_hook t) && ctxs_eqb (ru_ctxs r) (t_ctxs t)
                    | _ => false
                    end
                | Some _ => true
                end
           else true
       end
  else true.

(* a session: every step against the state observed after the previous one *)
Fixpoint P_session (qs : qset) (steps : list ostep) (obs : list ostepobs) : bool :=
  match steps, obs with
  | [], [] => true
  | st :: r, o :: ro => P_step qs st o && P_session (st_state o) r ro
  | _, _ => false
  end.
