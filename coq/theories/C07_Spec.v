(* C07_Spec.v — property C07 as a decidable predicate over what can be observed of one
   call: the queue layout given, what the function returned, the queue afterwards.
   Written from the property text with ordinary list vocabulary (take/drop-while, runs);
   it never mentions the model's functions (only the data types of C07_Model).

   Text: "When the head task of a queue is executed, the tasks immediately following it
   for the same hook are merged into it: the hook receives the concatenation, in queue
   order, of all their binding contexts, exactly those tasks disappear from the queue,
   and every other task keeps its place.  The only contexts left out are grouped ones
   immediately followed by a context of the same group (the last of each run survives);
   tasks of other hooks or of another task type are never merged in." *)
From Verif Require Import Common C07_Model.

(* ---- equality tests ---- *)
Definition ctx_eqb (a b : ctx) : bool :=
  N.eqb (c_tag a) (c_tag b) && N.eqb (c_group a) (c_group b) && Bool.eqb (c_sync a) (c_sync b).
Definition ctxs_eqb : list ctx -> list ctx -> bool := list_eqb ctx_eqb.
Definition ns_eqb : list N -> list N -> bool := list_eqb N.eqb.

(* ---- "the tasks immediately following it for the same hook (and of the same type)" ---- *)
Fixpoint take_while {A} (f : A -> bool) (l : list A) : list A :=
  match l with
  | [] => []
  | x :: r => if f x then x :: take_while f r else []
  end.
Fixpoint drop_while {A} (f : A -> bool) (l : list A) : list A :=
  match l with
  | [] => []
  | x :: r => if f x then drop_while f r else l
  end.

(* [x] is a task of the same hook and task type as the head [h] *)
Definition same_kind (h x : task) : bool :=
  t_meta x && N.eqb (t_hook x) (t_hook h) && N.eqb (t_ty x) (t_ty h).
(* with a caller-supplied stricter rule [stopfn] (nil in shell-operator itself) *)
Definition mergeable (stopfn : task -> bool) (h x : task) : bool :=
  same_kind h x && negb (stopfn x).

(* the maximal block of tasks immediately following the head that are merged,
   and what is left of the rest of the queue *)
Definition block (stopfn : task -> bool) (h : task) (rest : list task) : list task :=
  take_while (mergeable stopfn h) rest.
Definition after_block (stopfn : task -> bool) (h : task) (rest : list task) : list task :=
  drop_while (mergeable stopfn h) rest.

(* ---- "the last of each run survives" ---- *)
(* maximal runs of adjacent contexts with equal group *)
Fixpoint runs (l : list ctx) : list (list ctx) :=
  match l with
  | [] => []
  | c :: r =>
      match runs r with
      | (d :: run) :: rs =>
          if N.eqb (c_group d) (c_group c) then (c :: d :: run) :: rs
          else [c] :: (d :: run) :: rs
      | _ => [[c]]
      end
  end.
(* last element of the non-empty list c :: run *)
Fixpoint last_of (c : ctx) (run : list ctx) : ctx :=
  match run with
  | [] => c
  | d :: r => last_of d r
  end.
(* of a run without group everything survives, of a grouped run its last context *)
Definition survivors (run : list ctx) : list ctx :=
  match run with
  | [] => []
  | c :: r => if N.eqb (c_group c) 0 then run else [last_of c r]
  end.
Definition spec_compact (l : list ctx) : list ctx := flat_map survivors (runs l).

(* ---- "the only contexts left out are grouped ones immediately followed by a context of
   the same group": [d] is [l] with some contexts left out, each of which is grouped and
   immediately followed in [l] by a context of the same group ---- *)
Definition may_leave_out (c : ctx) (following : list ctx) : bool :=
  negb (N.eqb (c_group c) 0)
  && match following with
     | nxt :: _ => N.eqb (c_group nxt) (c_group c)
     | [] => false
     end.
Fixpoint left_out_ok (l d : list ctx) : bool :=
  match l with
  | [] => match d with [] => true | _ :: _ => false end
  | c :: r =>
      match d with
      | c' :: d' => ctx_eqb c c' && left_out_ok r d'
      | [] => false
      end
      || (may_leave_out c r && left_out_ok r d)
  end.

(* ---- well-formedness of an input (types [input], [obs] are in C07_Model) ---- *)
Fixpoint nodupb (l : list N) : bool :=
  match l with
  | [] => true
  | x :: r => negb (mem_N x r) && nodupb r
  end.

(* the situation the property speaks about: the executed task is a hook task (has
   metadata) standing at the head of its queue, and task ids are unique (they are
   uuids) *)
Definition wf (i : input) : bool :=
  match i_q i with
  | h :: _ => N.eqb (t_id h) (t_id (i_t i))
  | [] => false
  end
  && t_meta (i_t i)
  && nodupb (map t_id (i_q i ++ i_app i)).

(* what the hook is run with (operator.go:575-581): the result if there is one, the
   task's own contexts / monitor ids otherwise *)
Definition obs_ctxs (t : task) (o : obs) : list ctx :=
  match o_res o with Some (c, _) => c | None => t_ctxs t end.
Definition obs_mids (t : task) (o : obs) : list N :=
  match o_res o with
  | Some (_, (_ :: _) as m) => m
  | _ => t_mids t
  end.

Definition is_nil {A} (l : list A) : bool := match l with [] => true | _ :: _ => false end.

(* The predicate.  Outside [wf] nothing is claimed.
   - contexts: what is delivered is the concatenation C of the contexts of the head and
     of the block, with nothing left out except contexts that may be left out; and as
     soon as something was merged, exactly the last of every grouped run survives.
     (When nothing follows the head the text does not force the head's own contexts to
     be re-compacted: both readings are accepted.)
   - queue: head, then the rest without the block, then the concurrently appended tasks.
   - monitor ids: concatenation in the same order. *)
Definition P (i : input) (o : obs) : bool :=
  if wf i then
    let t := i_t i in
    let rest := tl (i_q i) in
    let b := block (stop_of (i_stop i)) t rest in
    let C := t_ctxs t ++ flat_map t_ctxs b in
    left_out_ok C (obs_ctxs t o)
    && (is_nil b || ctxs_eqb (obs_ctxs t o) (spec_compact C))
    && ns_eqb (o_queue o)
              (map t_id (firstn 1 (i_q i) ++ after_block (stop_of (i_stop i)) t rest ++ i_app i))
    && ns_eqb (obs_mids t o) (t_mids t ++ flat_map t_mids b)
  else true.

(* ====================================================================== part 2: the queue set
   The property's premise is "when the HEAD TASK OF A QUEUE is executed": the queue is the
   one the task's queue name points to.  Read for a whole set of named queues:
   - the executed task is the head of the queue its name points to: the text applies to that
     queue ([P] above), and "every other task keeps its place" holds in particular for every
     task of every OTHER queue: a run in queue A never touches queue B;
   - the executed task is in NO queue (its name - the empty name of the webhook handlers'
     tasks, or any name no queue of the set has - points nowhere, and no queue holds it): no
     head task of a queue is executed, so nothing is merged (the run gets the task's own
     contexts) and EVERY queue of the set stays exactly as it is;
   - anything else (the task sits in the queue but not at its head, sits in another queue than
     the one it names, or sits in a queue while naming none, like the bootstrap tasks) cannot
     arise from the operator's workers; only "queues the task's name does not point to are not
     touched" is claimed there.
   Tasks arriving concurrently are appended to their queues and never lost. *)

(* the queue / the id list a name points to (names are unique in a set) *)
Definition named {A} (n : N) (l : list (N * A)) : option A :=
  option_map snd (find (fun p => N.eqb (fst p) n) l).
Definition queue_named (n : N) (qs : qset) : option (list task) := named n qs.
(* the tasks that arrived for queue [n], in arrival order *)
Definition arrived (n : N) (app : list (N * task)) : list task :=
  map snd (filter (fun p => N.eqb (fst p) n) app).
Definition all_ids (qs : qset) : list N := flat_map (fun p => map t_id (snd p)) qs.
Definition is_none {A} (o : option A) : bool := match o with None => true | Some _ => false end.

(* a queue set: distinct non-empty names; task ids are unique (uuids) over all queues and arrivals *)
Definition wf_set (i : sinput) : bool :=
  nodupb (map fst (s_qs i)) && negb (mem_N 0 (map fst (s_qs i)))
  && nodupb (all_ids (s_qs i) ++ map (fun p => t_id (snd p)) (s_app i)).

(* queue [n] holds exactly what it held, followed by its arrivals *)
Definition untouched (i : sinput) (o : sobs) (n : N) : bool :=
  match queue_named n (s_qs i), named n (so_queues o) with
  | Some q, Some ids => ns_eqb ids (map t_id (q ++ arrived n (s_app i)))
  | _, _ => false
  end.

Definition P_set (i : sinput) (o : sobs) : bool :=
  if wf_set i then
    let t := s_t i in
    let names := map fst (s_qs i) in
    ns_eqb (map fst (so_queues o)) names                      (* the same queues *)
    && match queue_named (t_qn t) (s_qs i) with
       | None =>
           (* the name points to no queue *)
           if mem_N (t_id t) (all_ids (s_qs i)) then true     (* ... but the task sits in one: no claim *)
           else is_none (so_res o) && forallb (untouched i o) names
       | Some q =>
           forallb (fun n => N.eqb n (t_qn t) || untouched i o n) names
           && match named (t_qn t) (so_queues o) with
              | Some ids =>                                   (* [P] claims something only if t is q's head *)
                  P (mkIn t (s_stop i) q (arrived (t_qn t) (s_app i))) (mkObs (so_res o) ids)
              | None => false
              end
       end
  else true.

(* ====================================================================== part 3: sessions
   The same reading for the operator: steps are executions of the head of a queue by its
   worker and runs of tasks that are in no queue (webhook handlers).  Each step is judged
   against the queue set as it was observed BEFORE the step (full content: ids, hooks, types,
   stored contexts and monitor ids), so nothing of the model is needed to say what a step may
   do.  A head whose hook fails stays at the head and must keep, as its stored contexts,
   exactly what was delivered (they are delivered again by the retry); a head whose run
   succeeds is removed by the worker.

   "When the head task of a queue is EXECUTED ... are merged into it": merging is tied to an
   execution of the head.  Not every head is executed (HOOKS.md, kubernetes bindings): the
   Synchronization task of a binding with `executeHookOnSynchronization: false` is not, and hooks
   with a v0 config are never executed on Synchronization.  Such a head is done at once: there is
   no run, the head leaves the queue, NOTHING is merged into it - every other task of every queue
   keeps its place (and is executed in its turn, by the steps that follow).

   Which of the following tasks an executed head takes in, beyond "same hook, same task type":
   - the Synchronization of a binding without group is never combined (the property's anchor
     "no combine for ungrouped Synchronization"): it is run with its own contexts;
   - an executed Synchronization head stops in front of a Synchronization that is itself not to be
     executed (it must not reach the hook through a neighbour);
   - hooks with a v0 config predate combining (no groups, one context per run): the operator runs
     each of their tasks alone.  The text does not mention config versions; for v0 hooks both the
     plain reading (the block is merged) and "nothing is merged" are accepted - neither loses a
     context. *)
Definition task_eqb (a b : task) : bool :=
  N.eqb (t_id a) (t_id b) && N.eqb (t_hook a) (t_hook b) && N.eqb (t_ty a) (t_ty b)
  && Bool.eqb (t_meta a) (t_meta b) && ctxs_eqb (t_ctxs a) (t_ctxs b)
  && ns_eqb (t_mids a) (t_mids b) && N.eqb (t_qn a) (t_qn b)
  && Bool.eqb (t_kube a) (t_kube b) && N.eqb (t_group a) (t_group b) && Bool.eqb (t_exec a) (t_exec b)
  && Bool.eqb (t_af a) (t_af b).
Definition tasks_eqb : list task -> list task -> bool := list_eqb task_eqb.

(* queue [n] is, task for task, what it was *)
Definition same_queue (before after : qset) (n : N) : bool :=
  match queue_named n before, queue_named n after with
  | Some a, Some b => tasks_eqb a b
  | _, _ => false
  end.

(* a task of a kubernetes binding carries at least one binding context *)
Definition has_ctx (t : task) : bool := negb (t_kube t) || negb (is_nil (t_ctxs t)).

Definition wf_state (qs : qset) : bool :=
  nodupb (map fst qs) && negb (mem_N 0 (map fst qs)) && nodupb (all_ids qs)
  && forallb (fun p => forallb (fun t => t_meta t && has_ctx t) (snd p)) qs.

Definition nostop (_ : task) : bool := false.
Definition stop_all (_ : task) : bool := true.

(* the task is a Synchronization task: its (first) context is a kubernetes Synchronization *)
Definition synchronization (t : task) : bool :=
  match t_ctxs t with c :: _ => c_sync c | [] => false end.
(* a Synchronization that is not to be executed because its binding says so *)
Definition exempt (t : task) : bool := synchronization t && negb (t_exec t).
(* the head [t] is NOT executed; [v0]: its hook has a v0 config *)
Definition not_executed (v0 : bool) (t : task) : bool :=
  synchronization t && (v0 || negb (t_exec t)).
(* where the block behind an executed head [t] of a v1 hook ends, beyond hook and type *)
Definition stop_rule (t : task) : task -> bool :=
  if t_kube t && synchronization t && N.eqb (t_group t) 0 then stop_all
  else if synchronization t then exempt
  else nostop.

(* The failure policy of the tasks ([t_af], the `allowFailure` of their bindings): "the tasks immediately
   following it for the same hook are merged into it" - WHATEVER their bindings' allowFailure settings are.
   [same_kind], [block], [after_block], [stop_rule] never look at [t_af]: a hook whose bindings mix
   `allowFailure: true` with the default gets one run with all their contexts.  Every task that keeps its
   place keeps its policy ([task_eqb] compares it).  Which policy the merged head carries afterwards, and
   whether its failed run is forgiven, is another property's rule (C04: it allows failure only if every
   merged task does); here the head that stays after a failed run may carry any policy - the one it is
   observed with. *)
Definition stored_policy (q' : list task) : bool :=
  match q' with h :: _ => t_af h | [] => false end.

(* the head [t] of queue [qn] = [t :: rest] was executed and took in the block delimited by [sp] *)
Definition executed_with (sp : task -> bool) (t : task) (rest : list task) (qn : N) (o : ostepobs) : bool :=
  let b := block sp t rest in
  let C := t_ctxs t ++ flat_map t_ctxs b in
  match st_runs o, queue_named qn (st_state o) with
  | [r], Some q' =>
      N.eqb (ru_hook r) (t_hook t)
      && left_out_ok C (ru_ctxs r)
      && (is_nil b || ctxs_eqb (ru_ctxs r) (spec_compact C))
      && tasks_eqb q'
           ((if st_success o then []
             else [mkTaskK (t_id t) (t_hook t) (t_ty t) true (ru_ctxs r)
                           (t_mids t ++ flat_map t_mids b) (t_qn t) (t_kube t) (t_group t) (t_exec t)
                           (stored_policy q')])
            ++ after_block sp t rest)
  | _, _ => false
  end.

(* [v0s]: the hooks with a v0 config *)
Definition P_step (v0s : list N) (qs : qset) (st : ostep) (o : ostepobs) : bool :=
  if wf_state qs then
    let names := map fst qs in
    let after := st_state o in
    ns_eqb (map fst after) names
    && match st with
       | SHead qn ok =>
           match queue_named qn qs with
           | Some (t :: rest) =>
               (* a run in queue qn never touches a queue its task does not name *)
               forallb (fun n => N.eqb n qn || N.eqb n (t_qn t) || same_queue qs after n) names
               && (if N.eqb (t_ty t) 0 && N.eqb (t_qn t) qn then
                     let v0 := mem_N (t_hook t) v0s in
                     if not_executed v0 t then
                       (* the head is not executed: no run, it is done, it leaves, nothing is merged -
                          the queue is exactly the tasks that stood behind it (the other queues: above) *)
                       is_nil (st_runs o) && st_success o
                       && match queue_named qn after with
                          | Some q' => tasks_eqb q' rest
                          | None => false
                          end
                     else if v0 then
                       executed_with stop_all t rest qn o || executed_with nostop t rest qn o
                     else
                       (* the head task of the queue its name points to is executed *)
                       executed_with (stop_rule t) t rest qn o
                   else true)
           | _ =>
               (* no such queue or nothing in it: nothing is executed, nothing changes *)
               is_nil (st_runs o) && forallb (same_queue qs after) names
           end
       | SLoose t ok =>
           if t_meta t && has_ctx t && negb (mem_N (t_id t) (all_ids qs)) then
             forallb (fun n => N.eqb n (t_qn t) || same_queue qs after n) names
             && match queue_named (t_qn t) qs with
                | None =>
                    (* the task is in no queue: it is run with its own contexts (unless it is not to
                       be executed at all), nothing merged (and, by the line above, every queue is
                       what it was) *)
                    if not_executed (mem_N (t_hook t) v0s) t then is_nil (st_runs o)
                    else
                      match st_runs o with
                      | [r] => N.eqb (ru_hook r) (t_hook t) && ctxs_eqb (ru_ctxs r) (t_ctxs t)
                      | _ => false
                      end
                | Some _ => true
                end
           else true
       end
  else true.

(* a session: every step against the state observed after the previous one *)
Fixpoint P_session (v0s : list N) (qs : qset) (steps : list ostep) (obs : list ostepobs) : bool :=
  match steps, obs with
  | [], [] => true
  | st :: r, o :: ro => P_step v0s qs st o && P_session v0s (st_state o) r ro
  | _, _ => false
  end.
