(* C11_QProofs.v — proofs about the queues the tasks of a firing are moved into (C11_QModel /
   C11_QSpec): after any sequence of operations every queue holds exactly the tasks of the
   bindings that name it, firing after firing, and nothing else. *)
From Coq Require Import Permutation.
From Verif Require Import Common C11_Model C11_Spec C11_Proofs C11_Hm C11_HmSpec C11_HmProofs
     C11_IdProofs C11_StartSpec C11_StartProofs C11_QModel C11_QSpec.

(* ------------------------------------------------------------------ lists *)

Lemma firstn_len_app {A} (a b : list A) : firstn (length a) (a ++ b) = a.
Proof. induction a as [|x a IH]; [reflexivity|]. cbn. now rewrite IH. Qed.

Lemma skipn_len_app {A} (a b : list A) : skipn (length a) (a ++ b) = b.
Proof. induction a as [|x a IH]; [reflexivity|]. exact IH. Qed.

Lemma NoDup_snoc {A} (l : list A) x : NoDup l -> ~ In x l -> NoDup (l ++ [x]).
Proof.
  induction l as [|y l IH]; intros Hn Hx; cbn.
  - constructor; [intros [] | constructor].
  - inversion Hn as [|? ? Hy Hn']; subst. constructor.
    + intros H. apply in_app_or in H as [H|[H|[]]]; [contradiction|]. subst. apply Hx. now left.
    + apply IH; [exact Hn'|]. intros H. apply Hx. now right.
Qed.

Lemma in_queue_app q a b : in_queue q (a ++ b) = in_queue q a ++ in_queue q b.
Proof. apply filter_app. Qed.

Lemma in_queue_nil q : in_queue q [] = [].
Proof. reflexivity. Qed.

Lemma is_tperm_refl l : is_tperm l l = true.
Proof. apply is_tperm_complete, Permutation_refl. Qed.

Lemma stask_list_eqb_refl l : list_eqb stask_eqb l l = true.
Proof. induction l as [|x l IH]; [reflexivity|]. cbn [list_eqb]. now rewrite stask_eqb_refl, IH. Qed.

(* ------------------------------------------------------------------ moving tasks into queues *)

Lemma q_has_In q m : q_has q m = true <-> In q (map fst m).
Proof.
  unfold q_has. rewrite existsb_exists. split.
  - intros [p [Hp E]]. apply N.eqb_eq in E. subst q. now apply in_map.
  - intros H. apply in_map_iff in H as [p [E Hp]]. exists p. split; [exact Hp|]. now apply N.eqb_eq.
Qed.

Lemma q_add_last_keys t m : map fst (q_add_last t m) = map fst m.
Proof.
  induction m as [|[q ts] r IH]; [reflexivity|]. cbn [q_add_last].
  destruct (N.eqb q (st_queue t)); cbn [map fst]; [reflexivity | now rewrite IH].
Qed.

Definition extend (ts : list stask) (p : N * list stask) : N * list stask :=
  (fst p, snd p ++ in_queue (fst p) ts).

Lemma extend_keys ts m : map fst (map (extend ts) m) = map fst m.
Proof. rewrite map_map. apply map_ext. intros p. reflexivity. Qed.

Lemma extend_nil m : map (extend []) m = m.
Proof.
  rewrite <- (map_id m) at 2. apply map_ext. intros [q ts]. unfold extend. cbn [fst snd in_queue filter].
  now rewrite app_nil_r.
Qed.

(* with distinct queue names: the task is appended to the queue it names, every other queue
   stays as it is *)
Lemma q_add_last_closed t m : NoDup (map fst m) -> q_add_last t m = map (extend [t]) m.
Proof.
  induction m as [|[q ts] r IH]; intros Hn; [reflexivity|].
  cbn [map fst] in Hn. inversion Hn as [|? ? Hnot Hn']; subst.
  cbn [q_add_last map]. unfold extend at 1. cbn [fst snd in_queue filter].
  destruct (N.eqb q (st_queue t)) eqn:E.
  - f_equal. rewrite <- (map_id r) at 1. apply map_ext_in. intros [q' ts'] Hin.
    unfold extend. cbn [fst snd in_queue filter].
    destruct (N.eqb q' (st_queue t)) eqn:E'; [|now rewrite app_nil_r].
    apply N.eqb_eq in E, E'. subst q q'. exfalso. apply Hnot.
    apply in_map_iff. exists (st_queue t, ts'). split; [reflexivity | exact Hin].
  - rewrite app_nil_r. f_equal. now apply IH.
Qed.

Lemma q_place_keys ts : forall m, map fst (q_place ts m) = map fst m.
Proof.
  induction ts as [|t ts IH]; intros m; [reflexivity|]. unfold q_place. cbn [fold_left].
  fold (q_place ts (q_add_last t m)). now rewrite IH, q_add_last_keys.
Qed.

Lemma q_place_closed ts : forall m, NoDup (map fst m) -> q_place ts m = map (extend ts) m.
Proof.
  induction ts as [|t ts IH]; intros m Hn.
  - now rewrite extend_nil.
  - unfold q_place. cbn [fold_left]. fold (q_place ts (q_add_last t m)).
    rewrite IH by now rewrite q_add_last_keys.
    rewrite (q_add_last_closed t m Hn), map_map. apply map_ext. intros [q old].
    unfold extend. cbn [fst snd]. rewrite <- app_assoc. f_equal.
    change (t :: ts) with ([t] ++ ts). now rewrite in_queue_app.
Qed.

Lemma q_place_app a b m : q_place (a ++ b) m = q_place b (q_place a m).
Proof. unfold q_place. apply fold_left_app. Qed.

(* string after string is the same as all the tasks in the order they were made *)
Lemma q_handle_place hooks ls cs : forall m, q_handle hooks ls cs m = q_place (hm_tasks hooks ls cs) m.
Proof.
  induction cs as [|c cs IH]; intros m; [reflexivity|].
  unfold q_handle. cbn [fold_left]. fold (q_handle hooks ls cs (q_place (hm_handle c hooks ls) m)).
  rewrite IH. unfold hm_tasks. cbn [flat_map]. now rewrite q_place_app.
Qed.

Lemma q_handle_keys hooks ls cs m : map fst (q_handle hooks ls cs m) = map fst m.
Proof. now rewrite q_handle_place, q_place_keys. Qed.

Lemma q_handle_closed hooks ls cs m : NoDup (map fst m) ->
  q_handle hooks ls cs m = map (extend (hm_tasks hooks ls cs)) m.
Proof. intros Hn. rewrite q_handle_place. now apply q_place_closed. Qed.

(* ------------------------------------------------------------------ the queues that exist *)

(* distinct names; every binding's queue and "main" among them; all empty; no other *)
Definition keys_ok (hooks : list (list binding)) (m : queues) : Prop :=
  NoDup (map fst m) /\ forall b, In b (concat hooks) -> In (b_queue b) (map fst m).

Lemma q_new_keys q m : NoDup (map fst m) ->
  NoDup (map fst (q_new q m)) /\ In q (map fst (q_new q m))
  /\ (forall x, In x (map fst m) -> In x (map fst (q_new q m)))
  /\ (forall x, In x (map fst (q_new q m)) -> x = q \/ In x (map fst m))
  /\ (forall p, In p (q_new q m) -> In p m \/ snd p = []).
Proof.
  intros Hn. unfold q_new. destruct (q_has q m) eqn:E.
  - apply q_has_In in E. repeat split; auto.
  - assert (Hq : ~ In q (map fst m)) by (intros H; apply q_has_In in H; congruence).
    rewrite map_app. cbn [map fst]. repeat split.
    + now apply NoDup_snoc.
    + apply in_or_app. right. now left.
    + intros x Hx. apply in_or_app. now left.
    + intros x Hx. apply in_app_or in Hx as [Hx|[<-|[]]]; auto.
    + intros p Hp. apply in_app_or in Hp as [Hp|[<-|[]]]; auto.
Qed.

Lemma q_create_fold bs : forall m, NoDup (map fst m) ->
  let m' := fold_left (fun m b => q_new (b_queue b) m) bs m in
  NoDup (map fst m')
  /\ (forall x, In x (map fst m) -> In x (map fst m'))
  /\ (forall b, In b bs -> In (b_queue b) (map fst m'))
  /\ (forall x, In x (map fst m') -> In x (map fst m) \/ In x (map b_queue bs))
  /\ (forall p, In p m' -> In p m \/ snd p = []).
Proof.
  induction bs as [|b bs IH]; intros m Hn; cbn zeta; cbn [fold_left].
  - repeat split; auto. intros b [].
  - destruct (q_new_keys (b_queue b) m Hn) as (N1 & N2 & N3 & N4 & N5).
    destruct (IH _ N1) as (I1 & I2 & I3 & I4 & I5). cbn zeta in *. repeat split.
    + exact I1.
    + intros x Hx. apply I2, N3, Hx.
    + intros b' [<-|Hb]; [apply I2, N2 | apply I3, Hb].
    + intros x Hx. cbn [map]. destruct (I4 x Hx) as [H|H]; [|right; now right].
      destruct (N4 x H) as [->|H']; [right; now left | now left].
    + intros p Hp. destruct (I5 p Hp) as [H|H]; [apply N5, H | now right].
Qed.

Lemma q_create_ok hooks : keys_ok hooks (q_create hooks).
Proof.
  unfold q_create, keys_ok.
  assert (Hn : NoDup (map fst [(main_q, @nil stask)])) by (cbn; constructor; [intros [] | constructor]).
  destruct (q_create_fold (concat hooks) _ Hn) as (I1 & _ & I3 & _). cbn zeta in *. split; assumption.
Qed.

Lemma q_create_main hooks : In main_q (map fst (q_create hooks)).
Proof.
  unfold q_create.
  assert (Hn : NoDup (map fst [(main_q, @nil stask)])) by (cbn; constructor; [intros [] | constructor]).
  destruct (q_create_fold (concat hooks) _ Hn) as (_ & I2 & _). apply I2. now left.
Qed.

Lemma q_create_only hooks q : In q (map fst (q_create hooks)) -> q = main_q \/ In q (map b_queue (concat hooks)).
Proof.
  unfold q_create.
  assert (Hn : NoDup (map fst [(main_q, @nil stask)])) by (cbn; constructor; [intros [] | constructor]).
  destruct (q_create_fold (concat hooks) _ Hn) as (_ & _ & _ & I4 & _). intros H.
  destruct (I4 q H) as [[<-|[]]|H']; auto.
Qed.

Lemma q_create_empty hooks p : In p (q_create hooks) -> snd p = [].
Proof.
  unfold q_create.
  assert (Hn : NoDup (map fst [(main_q, @nil stask)])) by (cbn; constructor; [intros [] | constructor]).
  destruct (q_create_fold (concat hooks) _ Hn) as (_ & _ & _ & _ & I5). intros H.
  destruct (I5 p H) as [[<-|[]]|H']; auto.
Qed.

(* ------------------------------------------------------------------ one operation, judged *)

Lemma segs_ok_flat q (f : ct -> list stask) cs :
  segs_ok (in_queue q (flat_map f cs)) (map (fun c => in_queue q (f c)) cs) = true.
Proof.
  induction cs as [|c cs IH]; [reflexivity|]. cbn [flat_map map segs_ok].
  rewrite in_queue_app, firstn_len_app, skipn_len_app, is_tperm_refl. exact IH.
Qed.

Lemma check_queue_extend hooks en cs p :
  check_queue hooks en cs p (extend (expected_tasks hooks en cs) p) = true.
Proof.
  destruct p as [q old]. unfold check_queue, extend. cbn [fst snd].
  rewrite N.eqb_refl, firstn_len_app, skipn_len_app, stask_list_eqb_refl. cbn [andb].
  unfold expected_tasks. apply segs_ok_flat.
Qed.

Lemma forallb2_extend hooks en cs m :
  forallb2 (check_queue hooks en cs) m (map (extend (expected_tasks hooks en cs)) m) = true.
Proof.
  induction m as [|p m IH]; [reflexivity|]. cbn [map forallb2]. now rewrite check_queue_extend, IH.
Qed.

Lemma NoDup_nodupb l : NoDup l -> nodupb l = true.
Proof.
  induction l as [|x l IH]; intros H; [reflexivity|]. inversion H; subst. cbn [nodupb].
  rewrite (IH H3), andb_true_r. destruct (mem_N x l) eqn:M; [|reflexivity].
  apply mem_N_In in M. contradiction.
Qed.

(* the queue a task of a firing names is the queue of one of the hooks' bindings *)
Lemma expected_tasks_queue hooks en cs t :
  In t (expected_tasks hooks en cs) -> exists b, In b (concat hooks) /\ st_queue t = b_queue b.
Proof.
  unfold expected_tasks. intros H. apply in_flat_map in H as [c [_ H]].
  apply expected_from_inv in H as (h & b & -> & _ & Hb & _). exists b. split; [|reflexivity].
  apply in_concat. exists (nth h hooks []). split; [|exact Hb].
  destruct (nth_in_or_default h hooks []) as [H|H]; [exact H|]. rewrite H in Hb. contradiction.
Qed.

Lemma check_queues_extend hooks en cs m : keys_ok hooks m ->
  check_queues hooks en cs m (map (extend (expected_tasks hooks en cs)) m) = true.
Proof.
  intros [Hn Hk]. unfold check_queues. rewrite extend_keys, (NoDup_nodupb _ Hn), forallb2_extend.
  cbn [andb]. rewrite andb_true_r. apply forallb_forall. intros t Ht.
  apply mem_N_In. destruct (expected_tasks_queue _ _ _ _ Ht) as (b & Hb & ->). now apply Hk.
Qed.

(* the firings an operation hands to the consumer, while the consumer is never behind *)
Lemma step_fired i s o : s_ch s = ch_empty ->
  match o with
  | OStart _ | OStop => True
  | _ => hm_fired o (snd (snd (sys_step i s o)))
         = fired_by o (observe i (fst (sys_step i s o)) (snd (sys_step i s o)))
         /\ s_ch (fst (sys_step i s o)) = ch_empty
  end.
Proof.
  intros E. destruct o as [c id|c id|h|h|c|n| |ns| | |]; cbn [sys_step]; try exact I.
  - split; [reflexivity | exact E].
  - split; [reflexivity | exact E].
  - destruct (enable _ _ _) as [m s']. split; [reflexivity | exact E].
  - destruct (disable _ _) as [m s']. split; [reflexivity | exact E].
  - split; [reflexivity | exact E].
  - rewrite E. unfold fired_by. rewrite o_cron_observe.
    destruct (nth_error (cron (s_sm s)) (N.to_nat n)) as [[e c]|] eqn:En; cbn [ch_drain_all ch_drain_with ch_pending ch_empty buf parked app length ch_drain fst snd hm_fired with_ch s_sm s_ch].
    + rewrite En. split; reflexivity.
    + rewrite En. split; [reflexivity | exact E].
  - rewrite E. split; reflexivity.
  - rewrite E. split; reflexivity.
  - split; [reflexivity | exact E].
Qed.

Lemma run_q_length i : forall ops s m, length (run_q_from i s m ops) = length ops.
Proof.
  induction ops as [|o ops IH]; intros s m; [reflexivity|]. cbn [run_q_from].
  destruct (sys_step i s o) as [s' f]. cbn [length]. now rewrite IH.
Qed.

Lemma Q_from_holds i : ids_distinct (i_hooks i) = true ->
  forall ops s st m, Rel i s st -> s_ch s = ch_empty -> keys_ok (i_hooks i) m ->
  Q_from i st m ops (run_q_from i s m ops) = true.
Proof.
  intros Hd. induction ops as [|o ops IH]; intros s st m HR HE HK; [reflexivity|].
  cbn [run_q_from]. pose proof (step_rel i s st o HR) as HR'. pose proof (step_fired i s o HE) as HF.
  destruct (sys_step i s o) as [s' f] eqn:Es. cbn [fst snd] in HR', HF.
  cbn [Q_from q_queues q_hobs h_obs]. pose proof HR' as [_ HL'].
  assert (HS : forall cs, hm_fired o (snd f) = cs ->
             s_ch s' = ch_empty ->
             check_queues (i_hooks i) (snd (spec_step (i_hooks i) st o)) cs m
               (q_handle (i_hooks i) (s_links s') (hm_fired o (snd f)) m)
             && Q_from i (spec_step (i_hooks i) st o)
                  (q_handle (i_hooks i) (s_links s') (hm_fired o (snd f)) m) ops
                  (run_q_from i s' (q_handle (i_hooks i) (s_links s') (hm_fired o (snd f)) m) ops) = true).
  { intros cs <- HE'. destruct HK as [Hn Hk].
    rewrite (q_handle_closed _ _ _ _ Hn), (hm_tasks_expected _ _ _ _ Hd HL').
    rewrite check_queues_extend by (split; assumption). cbn [andb].
    apply IH; [exact HR' | exact HE'|]. split; [now rewrite extend_keys|].
    intros b Hb. rewrite extend_keys. now apply Hk. }
  destruct o as [c id|c id|h|h|c|n| |ns| | |];
    try (apply (HS _ (proj1 HF) (proj2 HF))).
  - now rewrite run_q_length, Nat.eqb_refl.
  - now rewrite run_q_length, Nat.eqb_refl.
Qed.

Lemma map_q_hobs_run i : forall ops s m, map q_hobs (run_q_from i s m ops) = run_hm_from i s ops.
Proof.
  induction ops as [|o ops IH]; intros s m; [reflexivity|]. cbn [run_q_from run_hm_from].
  destruct (sys_step i s o) as [s' f]. cbn [map q_hobs]. now rewrite IH.
Qed.

Lemma Q_holds i : ids_distinct (i_hooks i) = true -> Q i (run_q i) = true.
Proof.
  intros Hd. unfold Q, run_q. destruct (i_ops i) as [|o ops] eqn:Eo; [reflexivity|].
  pose proof (Q_from_holds i Hd (o :: ops) (sys_init i) (spec_init (i_hooks i)) (q_create (i_hooks i))
                (rel_init i) eq_refl (q_create_ok _)) as H.
  cbn [run_q_from] in *. destruct (sys_step i (sys_init i) o) as [s' f].
  replace (blank (q_queues _)) with (q_create (i_hooks i)); [exact H|].
  cbn [q_queues]. unfold blank. rewrite q_handle_place.
  rewrite (q_place_closed _ _ (proj1 (q_create_ok _))), map_map.
  rewrite <- (map_id (q_create (i_hooks i))) at 1. apply map_ext_in. intros p Hp.
  unfold extend. cbn [fst]. rewrite <- (q_create_empty _ _ Hp). now destruct p.
Qed.

(* the predicate of the queues class holds of the model on EVERY input *)
Lemma P_q_holds i : P_q (load_input i) (run_qop i) = true.
Proof.
  unfold P_q, run_qop, run_q. rewrite map_q_hobs_run.
  change (run_hm_from (load_input i) (sys_init (load_input i)) (i_ops (load_input i))) with (run_op i).
  rewrite P_op_start_holds. cbn [andb].
  assert (Hd : ids_distinct (i_hooks (load_input i)) = true)
    by (apply ids_within; cbn [load_input i_hooks]; apply load_one_id_each).
  rewrite Hd. cbn [negb orb]. now apply Q_holds.
Qed.

(* ------------------------------------------------------------------ the statement in words *)

(* the queues after the operations [ops] *)
Fixpoint queues_after (i : input) (s : sys) (m : queues) (ops : list op) : queues :=
  match ops with
  | [] => m
  | o :: r =>
      let '(s', f) := sys_step i s o in
      queues_after i s' (q_handle (i_hooks i) (s_links s') (hm_fired o (snd f)) m) r
  end.

(* the tasks of all firings handled during [ops], firing after firing: for each one the tasks
   of the bindings with that crontab of the hooks enabled AT THAT MOMENT ([expected_tasks]) *)
Fixpoint fired_tasks (i : input) (s : sys) (st : spec_state) (ops : list op) : list stask :=
  match ops with
  | [] => []
  | o :: r =>
      let '(s', f) := sys_step i s o in
      let st' := spec_step (i_hooks i) st o in
      expected_tasks (i_hooks i) (snd st') (hm_fired o (snd f)) ++ fired_tasks i s' st' r
  end.

Lemma last_default_irrelevant {A} (l : list A) x d d' : last (x :: l) d = last (x :: l) d'.
Proof. revert x. induction l as [|y l IH]; intros x; [reflexivity|]. cbn [last] in *. apply IH. Qed.

(* what is observed after the last operation is [queues_after] *)
Lemma run_q_last i : forall ops s m,
  last (map q_queues (run_q_from i s m ops)) m = queues_after i s m ops.
Proof.
  induction ops as [|o ops IH]; intros s m; [reflexivity|]. cbn [run_q_from queues_after].
  destruct (sys_step i s o) as [s' f]. cbn [map q_queues]. rewrite <- IH.
  destruct (map q_queues (run_q_from i s' _ ops)) as [|y l] eqn:E; [reflexivity|].
  cbn [last]. apply last_default_irrelevant.
Qed.

Lemma queues_after_closed i : ids_distinct (i_hooks i) = true ->
  forall ops s st m, Rel i s st -> NoDup (map fst m) ->
  queues_after i s m ops = map (extend (fired_tasks i s st ops)) m.
Proof.
  intros Hd. induction ops as [|o ops IH]; intros s st m HR Hn; cbn [queues_after fired_tasks].
  - now rewrite extend_nil.
  - pose proof (step_rel i s st o HR) as HR'. destruct (sys_step i s o) as [s' f]. cbn [fst] in HR'.
    pose proof HR' as [_ HL'].
    rewrite (IH s' (spec_step (i_hooks i) st o)) by (try assumption; now rewrite q_handle_keys).
    rewrite (q_handle_closed _ _ _ _ Hn), (hm_tasks_expected _ _ _ _ Hd HL'), map_map.
    apply map_ext. intros [q old]. unfold extend. cbn [fst snd].
    now rewrite <- app_assoc, in_queue_app.
Qed.

Lemma q_lookup_map_extend ts q : forall m,
  q_lookup q (map (extend ts) m) = option_map (fun old => old ++ in_queue q ts) (q_lookup q m).
Proof.
  induction m as [|[q' old] m IH]; [reflexivity|]. cbn [map q_lookup extend fst snd].
  destruct (N.eqb q' q) eqn:E; [|exact IH]. apply N.eqb_eq in E. now subst.
Qed.

Lemma q_lookup_some q : forall m, In q (map fst m) -> exists ts, q_lookup q m = Some ts /\ In (q, ts) m.
Proof.
  induction m as [|[q' old] m IH]; intros H; [contradiction|]. cbn [q_lookup].
  destruct (N.eqb q' q) eqn:E.
  - apply N.eqb_eq in E. subst. exists old. split; [reflexivity | now left].
  - destruct H as [H|H]; [cbn in H; subst; rewrite N.eqb_refl in E; discriminate|].
    destruct (IH H) as (ts & E1 & E2). exists ts. split; [exact E1 | now right].
Qed.

Lemma q_lookup_none q : forall m, ~ In q (map fst m) -> q_lookup q m = None.
Proof.
  induction m as [|[q' old] m IH]; intros H; [reflexivity|]. cbn [q_lookup].
  destruct (N.eqb q' q) eqn:E.
  - apply N.eqb_eq in E. subst. exfalso. apply H. now left.
  - apply IH. intros H'. apply H. now right.
Qed.

(* After ANY sequence of operations, for EVERY configuration of hooks, bindings, crontabs and
   queues: the queue named q - "main" or the queue of some binding - holds exactly the tasks,
   among those of all firings handled so far, of the bindings whose queue is q, in the order of
   the firings, and nothing else; there is no other queue. *)
Lemma queue_contents i ops q : ids_distinct (i_hooks i) = true ->
  q_lookup q (queues_after i (sys_init i) (q_create (i_hooks i)) ops)
  = if mem_N q (main_q :: map b_queue (concat (i_hooks i)))
    then Some (in_queue q (fired_tasks i (sys_init i) (spec_init (i_hooks i)) ops))
    else None.
Proof.
  intros Hd.
  rewrite (queues_after_closed i Hd ops _ _ _ (rel_init i) (proj1 (q_create_ok _))), q_lookup_map_extend.
  destruct (mem_N q (main_q :: map b_queue (concat (i_hooks i)))) eqn:M.
  - apply mem_N_In in M.
    assert (Hin : In q (map fst (q_create (i_hooks i)))).
    { destruct M as [<-|M]; [apply q_create_main|].
      apply in_map_iff in M as [b [<- Hb]]. now apply (proj2 (q_create_ok _)). }
    destruct (q_lookup_some q _ Hin) as (ts & -> & Hp). cbn [option_map].
    pose proof (q_create_empty _ _ Hp) as E. cbn [snd] in E. now subst ts.
  - rewrite q_lookup_none; [reflexivity|]. intros H. apply q_create_only in H.
    assert (X : In q (main_q :: map b_queue (concat (i_hooks i)))) by (destruct H as [->|H]; [now left | now right]).
    apply mem_N_In in X. congruence.
Qed.

(* every task found in a queue names that queue, and is the task of a binding of an enabled
   hook with the crontab that fired: no task ever sits in a queue its binding does not name *)
Lemma queue_holds_only_its_own i ops q ts t : ids_distinct (i_hooks i) = true ->
  q_lookup q (queues_after i (sys_init i) (q_create (i_hooks i)) ops) = Some ts ->
  In t ts ->
  st_queue t = q /\ exists b, In b (concat (i_hooks i)) /\ b_queue b = q.
Proof.
  intros Hd E Ht. rewrite (queue_contents i ops q Hd) in E.
  destruct (mem_N q _); [|discriminate]. inversion E; subst ts. clear E.
  unfold in_queue in Ht. apply filter_In in Ht as [Ht Eq]. apply N.eqb_eq in Eq. split; [now symmetry|].
  assert (G : forall ops s st, In t (fired_tasks i s st ops) -> exists b, In b (concat (i_hooks i)) /\ st_queue t = b_queue b).
  { clear Ht. induction ops0 as [|o r IH]; intros s st H; [contradiction|]. cbn [fired_tasks] in H.
    destruct (sys_step i s o) as [s' f]. apply in_app_or in H as [H|H].
    - exact (expected_tasks_queue _ _ _ _ H).
    - exact (IH _ _ H). }
  destruct (G _ _ _ Ht) as (b & Hb & Eb). exists b. split; [exact Hb | congruence].
Qed.
