(* C01_OpSpec.v — the operator-level sentence of C01 over the operator harness' observations
   (Op_Corr): "no Event of a binding is handed to the hook before that binding's
   Synchronization has completed successfully".  A binding's Events can reach the hook only
   once its monitor is unlocked; so
   (1) a monitor becomes unlocked only by the successful end (exit 0, or a failure the task
       allows) of the execution of a main-queue task that covers it — its Synchronization —
       or because its binding is exempt from Synchronization (executeHookOnSynchronization
       false, v0 hook);
   (2) every Event context, queued or shown to a hook, belongs to an unlocked monitor. *)
From Verif Require Import Common Op_Model Op_Corr Op_Spec.
Open Scope N_scope.

Definition main_head (o : sobs) : option task :=
  match find_q 0 (so_queues o) with
  | Some m => match qo_items m with t :: _ => Some t | [] => None end
  | None => None
  end.

Definition main_running (o : sobs) : bool :=
  match find_q 0 (so_queues o) with Some m => qo_running m | None => false end.

Definition unlock_legal (cfg : config) (a : action) (prev cur : sobs) : bool :=
  forallb (fun b => mem_N b (so_unlocked prev)
                    || sync_exempt cfg b
                    || match a with
                       | Finish q ok =>
                           N.eqb q 0 && main_running prev
                           && match main_head prev with
                              | Some t => (ok || t_allow t) && mem_N b (t_mids t)
                              | None => false
                              end
                       | FinishWait q =>
                           N.eqb q 0 && main_running prev
                           && match main_head prev with
                              | Some t => t_allow t && mem_N b (t_mids t)
                              | None => false
                              end
                       | _ => false
                       end) (so_unlocked cur).

Definition events_only_unlocked (cfg : config) (cur : sobs) : bool :=
  forallb (fun q => forallb (fun t => forallb (fun c => match c_kind c with
                                                         | KEvent => mem_N (c_binding c) (so_unlocked cur)
                                                         | _ => true
                                                         end) (t_ctxs t)) (qo_items q)) (so_queues cur)
  && forallb (fun e => forallb (fun hc => match hc with (b, k, _, _) =>
                                            if N.eqb k K_Event then mem_N b (so_unlocked cur) else true end)
                               (eo_ctxs e)) (so_execs cur).

(* (3) ... and once that execution has ended successfully the monitors it covers ARE unlocked:
   from then on the binding's changes reach the hook (found violated on the unchanged tree
   for a Synchronization retried after being combined with a group mate's Event: repaired,
   b4b7f41) *)
Definition unlock_complete (stopped : bool) (a : action) (prev cur : sobs) : bool :=
  match a with
  | Finish q ok =>
      if N.eqb q 0 && main_running prev && negb stopped then
        match main_head prev with
        | Some t => if ok || t_allow t then forallb (fun b => mem_N b (so_unlocked cur)) (t_mids t) else true
        | None => true
        end
      else true
  | FinishWait q =>
      if N.eqb q 0 && main_running prev && negb stopped then
        match main_head prev with
        | Some t => if t_allow t then forallb (fun b => mem_N b (so_unlocked cur)) (t_mids t) else true
        | None => true
        end
      else true
  | _ => true
  end.

(* (4) "every later change to a matching object ... reaches the hook as an Event binding context":
   an event an UNLOCKED monitor emits is queued - after the step some task of some queue carries an
   Event context of that binding for that very event (events are numbered by the harness); it
   cannot be dropped because a run of the same hook or group is queued or running already *)
Definition has_event (o : sobs) (b obj : N) : bool :=
  existsb (fun q => existsb (fun t => existsb (fun c => match c_kind c with
                                                         | KEvent => N.eqb (c_binding c) b && N.eqb (c_obj c) obj
                                                         | _ => false
                                                         end) (t_ctxs t)) (qo_items q)) (so_queues o).
Definition event_queued (cfg : config) (stopped : bool) (a : action) (prev cur : sobs) : bool :=
  match a with
  | KubeEv m obj =>
      if mem_N m (so_unlocked prev) && negb stopped
      then forallb (fun hb => if N.eqb (kb_mon (snd hb)) m then has_event cur (kb_name (snd hb)) obj else true)
                   (kube_bindings cfg)
      else true
  | _ => true
  end.

Definition step_ok (cfg : config) (stopped : bool) (a : action) (prev cur : sobs) : bool :=
  negb (so_bad cur) && unlock_legal cfg a prev cur && events_only_unlocked cfg cur
  && unlock_complete stopped a prev cur && event_queued cfg stopped a prev cur.

Fixpoint steps_ok (cfg : config) (stopped : bool) (prev : sobs) (acts : list action) (obs : list sobs) : bool :=
  match acts, obs with
  | [], [] => true
  | a :: acts', cur :: obs' =>
      step_ok cfg stopped a prev cur
      && steps_ok cfg (stopped || match a with Stop => true | _ => false end) cur acts' obs'
  | _, _ => false
  end.

Definition P_op (c : Op_Corr.case) : bool := steps_ok (c_cfg c) false empty_obs (c_acts c) (c_obs c).
