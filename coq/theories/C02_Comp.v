(* C02_Comp.v — a SECOND binding beside the namespace.labelSelector binding of C02_Model section 3:
   the same kind, its namespaces named statically (namespace.nameSelector.matchNames), typically
   of another hook, in the same operator process.  When kind, namespace and selectors coincide
   its resource informers share the first binding's client-go shared informers (factory.go).
   What it shows at the read points of the history must be the objects of ITS namespaces,
   whatever the first binding's namespaces - and with them its informers - do meanwhile.

   monitor.go CreateInformers puts the informers of a static namespace list into
   ResourceInformers, one per (namespace, name) by the same CreateInformersForNamespace; Start
   starts them, nothing ever cancels them, Snapshot() unions their caches.  This is the informer
   set of section 3 over a VIRTUAL namespace list in which exactly the named namespaces carry the
   label and never change: the companion's snapshots are, by definition here, those of the
   dynamic model run on the history without its namespace operations.  (A namespace named twice
   would get two informers; the generator never repeats one.)  No proofs here. *)
From Verif Require Import Common C02_Model.
Open Scope N_scope.

Record dcomp := mkDComp {
  dk_nss : list N;              (* namespace.nameSelector.matchNames *)
  dk_names : list N;            (* nameSelector.matchNames ([] = any name) *)
  dk_filter : bool; dk_keep : bool
}.

Definition not_ns_op (op : dop) : bool := match op with DNs _ _ | DNsDel _ => false | _ => true end.
Definition dvirt (S : list N) : list (N * bool) := map (fun n => (n, true)) S.

Definition comp_dyn_in (i : dyn_in) (k : dcomp) : dyn_in :=
  mkDynIn (dk_names k) (dn_initial i) (dvirt (dk_nss k)) None (filter not_ns_op (dn_ops i)) (dk_filter k) (dk_keep k).

(* what the companion shows at the read points *)
Definition comp_views (i : dyn_in) (k : dcomp) : list (list view) := dyn_views (comp_dyn_in i k).
