(* C11_Model.v — executable model of
     pkg/schedule_manager/schedule_manager.go            : scheduleManager Add / Remove
     pkg/hook/controller/schedule_bindings_controller.go : EnableScheduleBindings,
        DisableScheduleBindings, CanHandleEvent, HandleEvent
     pkg/shell-operator/operator.go:163-191              : task created per BindingExecutionInfo
   and of the only thing used of gopkg.in/robfig/cron.v2 while the scheduler is not
   running: AddFunc appends an entry with id ++nextID (or fails on an unparsable spec and
   returns id 0), Remove(id) drops the entries with that id, Entries() lists them; running
   an entry's job sends the crontab string captured by the closure of Add on ScheduleCh.

   A crontab is the Go string itself, byte for byte ([ct] = list of bytes): the manager's
   map Entries is keyed by it, the job's closure sends it, and the bindings controller
   compares a firing with the crontab of a link by [==].  Two spellings of one schedule
   ("* * * * *", "*  * * * *", " * * * * *", a tab between fields, ...) are therefore
   DIFFERENT crontabs everywhere in this model, as they are in the code.
   The firing path: a cron entry's job runs (OTick / OTickAll) -> the string it sends ->
   hook.Manager.HandleScheduleEvent (hook_manager.go:304-316): every hook whose controller
   says CanHandleEvent gets HandleEvent -> one task per BindingExecutionInfo.

   The channel between the two: sm.ScheduleCh = make(chan string, 1), ONE channel shared by
   all crontabs.  The cron library starts every due entry's job in a goroutine of its own
   (cron.go run(): go e.Job.Run()), the job is the closure of Add:
       func() { ...; sm.ScheduleCh <- newEntry.Crontab }
   a BLOCKING send.  The single consumer (ManagerEventsHandler.Start, it also serves the
   kubernetes events) may be busy when several jobs are started: the first send fills the
   buffer, every other job parks in its send until the consumer receives; nothing is dropped
   and nothing is sent twice ([chan], OStart / ODrain).  Which parked sender goes next is the
   Go runtime's choice: [ch_recv] takes it as a parameter, the executable model picks the
   oldest, what is received is compared as a multiset.
   sm.Stop() cancels the manager's context; only the goroutine of Start() looks at it (and
   stops the cron scheduler): the job closure does not - a job that is run after the
   context was cancelled sends all the same (OStop).
   No proofs here. *)
From Verif Require Import Common.

(* a crontab string; identity = equality of byte strings (Go map key, Go ==) *)
Definition ct := bytes.
Definition ct_eqb : ct -> ct -> bool := bytes_eqb.

(* ------------------------------------------------------------------ scheduleManager *)

(* ids are numbered by the harness, crontabs are the strings.  [valid c] = cron.Parse
   accepts the crontab string c. *)
(* sm.Entries : map[string]CronEntry{EntryID, Ids map[string]bool} as a partial function;
   the id set as a duplicate-free list (insertion order is not observable) *)
Record sm := mkSm {
  entries : ct -> option (N * list N);
  cron    : list (N * ct);            (* cron.entries: (EntryID, crontab string the job sends) *)
  next    : N                         (* cron.nextID *)
}.
Definition sm_init : sm := mkSm (fun _ => None) [] 0%N.

Definition upd {V} (k : ct) (v : V) (f : ct -> V) : ct -> V :=
  fun k' => if ct_eqb k' k then v else f k'.
Definition set_add (i : N) (ids : list N) : list N :=        (* Ids[id] = true *)
  if mem_N i ids then ids else ids ++ [i].
Definition set_del (i : N) (ids : list N) : list N :=        (* delete(Ids, id) *)
  filter (fun x => negb (N.eqb x i)) ids.

(* Add, lines 61-90 *)
Definition sm_add (valid : ct -> bool) (s : sm) (c : ct) (i : N) : sm :=
  match entries s c with                                     (* cronEntry, hasCronEntry := sm.Entries[crontab] *)
  | None =>
      (* entryId, _ := sm.cron.AddFunc(...): the error is dropped *)
      let '(eid, cron', next') :=
        if valid c then (N.succ (next s), cron s ++ [(N.succ (next s), c)], N.succ (next s))
        else (0%N, cron s, next s) in
      let e1 := upd c (Some (eid, [i])) (entries s) in       (* sm.Entries[crontab] = CronEntry{entryId, {id}} *)
      (* cronEntry is still the zero value: hasId is false, the id is inserted once more *)
      let e2 := match e1 c with
                | Some (eid', ids') => upd c (Some (eid', set_add i ids')) e1
                | None => e1
                end in
      mkSm e2 cron' next'
  | Some (eid, ids) =>
      if mem_N i ids then s                                  (* hasId *)
      else match entries s c with                            (* sm.Entries[crontab].Ids[id] = true *)
           | Some (eid', ids') => mkSm (upd c (Some (eid', set_add i ids')) (entries s)) (cron s) (next s)
           | None => s
           end
  end.

(* Remove, lines 92-116 *)
Definition sm_remove (s : sm) (c : ct) (i : N) : sm :=
  match entries s c with
  | None => s                                                (* nothing to remove *)
  | Some (eid, ids) =>
      if negb (mem_N i ids) then s                           (* nothing to remove *)
      else
        let ids' := set_del i ids in                         (* delete(sm.Entries[c].Ids, id) *)
        let e1 := upd c (Some (eid, ids')) (entries s) in
        match ids' with
        | [] =>                                              (* len(Ids) == 0 *)
            mkSm (upd c None e1)                             (* delete(sm.Entries, c) *)
                 (filter (fun e => negb (N.eqb (fst e) eid)) (cron s))   (* sm.cron.Remove(EntryID) *)
                 (next s)
        | _ :: _ => mkSm e1 (cron s) (next s)
        end
  end.

Inductive smop := Add (c : ct) (i : N) | Remove (c : ct) (i : N).
Definition sm_step (valid : ct -> bool) (s : sm) (o : smop) : sm :=
  match o with
  | Add c i => sm_add valid s c i
  | Remove c i => sm_remove s c i
  end.
Definition sm_run (valid : ct -> bool) (h : list smop) : sm := fold_left (sm_step valid) h sm_init.

(* "c has a cron entry": some registered cron entry sends c when it fires *)
Definition cron_count (c : ct) (s : sm) : nat :=
  length (filter (fun e => ct_eqb (snd e) c) (cron s)).

(* ------------------------------------------------------------------ ScheduleCh *)

(* make(chan string, 1) and the goroutines parked in [sm.ScheduleCh <- crontab]:
   [buf] = the buffer (oldest first), [parked] = what each parked job is sending *)
Record chan := mkCh { buf : list ct; parked : list ct }.
Definition ch_cap : nat := 1.
Definition ch_empty : chan := mkCh [] [].
(* everything sent and not yet received *)
Definition ch_pending (k : chan) : list ct := buf k ++ parked k.

(* one job goroutine reaches [sm.ScheduleCh <- c] while nobody is receiving: the value
   goes into the buffer if there is room (the job returns), otherwise the goroutine parks *)
Definition ch_send (k : chan) (c : ct) : chan :=
  if Nat.ltb (length (buf k)) ch_cap then mkCh (buf k ++ [c]) (parked k)
  else mkCh (buf k) (parked k ++ [c]).
(* the jobs [cs] are started together; they reach the send in the order of [cs] *)
Definition ch_start (cs : list ct) (k : chan) : chan := fold_left ch_send cs k.

(* the n-th element (the first one if n is beyond the end) and the others *)
Fixpoint extract {A} (n : nat) (l : list A) : option (A * list A) :=
  match l with
  | [] => None
  | x :: r => match n with
              | O => Some (x, r)
              | S n' => match extract n' r with
                        | Some (y, r') => Some (y, x :: r')
                        | None => Some (x, r)
                        end
              end
  end.

(* the consumer receives once: the oldest buffered value; the freed slot is taken by ONE
   parked sender (the [pick]-th: the runtime's choice), whose job then returns.  With an
   empty buffer a parked sender hands its value over directly. *)
Definition ch_recv (pick : nat) (k : chan) : option (ct * chan) :=
  match buf k with
  | c :: b => Some (c, match extract pick (parked k) with
                       | Some (s, r) => mkCh (b ++ [s]) r
                       | None => mkCh b []
                       end)
  | [] => match extract pick (parked k) with
          | Some (s, r) => Some (s, mkCh [] r)
          | None => None
          end
  end.
(* the consumer receives until nothing arrives any more *)
Fixpoint ch_drain (fuel : nat) (picks : nat -> nat) (k : chan) : list ct * chan :=
  match fuel with
  | O => ([], k)
  | S f => match ch_recv (picks f) k with
           | None => ([], k)
           | Some (c, k') => let '(r, k'') := ch_drain f picks k' in (c :: r, k'')
           end
  end.
Definition ch_drain_with (picks : nat -> nat) (k : chan) : list ct * chan :=
  ch_drain (length (ch_pending k)) picks k.
(* the executable model: the oldest parked sender goes first *)
Definition ch_drain_all (k : chan) : list ct * chan := ch_drain_with (fun _ => O) k.

(* ------------------------------------------------------------------ controller *)

(* htypes.ScheduleConfig *)
Record binding := mkB {
  b_id : N; b_crontab : ct; b_name : N; b_group : N; b_af : bool; b_snaps : list N; b_queue : N }.
(* ScheduleBindingToCrontabLink *)
Record link := mkLink {
  l_name : N; l_crontab : ct; l_snaps : list N; l_af : bool; l_queue : N; l_group : N }.
(* BindingExecutionInfo together with its single BindingContext
   (Binding, Metadata.BindingType = Schedule, Metadata.IncludeSnapshots, Metadata.Group) *)
Record info := mkInfo {
  i_name : N; i_group : N; i_af : bool; i_snaps : list N; i_queue : N;
  i_bc_name : N; i_bc_schedule : bool; i_bc_snaps : list N; i_bc_group : N }.

Definition link_of (b : binding) : link :=
  mkLink (b_name b) (b_crontab b) (b_snaps b) (b_af b) (b_queue b) (b_group b).
Definition info_of_link (l : link) : info :=
  mkInfo (l_name l) (l_group l) (l_af l) (l_snaps l) (l_queue l)
         (l_name l) true (l_snaps l) (l_group l).

(* ScheduleLinks : map[string]*link as an association list without duplicate keys; the
   order of the list stands for Go's unspecified map iteration order *)
Definition links := list (N * link).
Fixpoint map_set (k : N) (v : link) (m : links) : links :=
  match m with
  | [] => [(k, v)]
  | (k', x) :: r => if N.eqb k' k then (k', v) :: r else (k', x) :: map_set k v r
  end.
Definition map_del (k : N) (m : links) : links :=
  filter (fun p => negb (N.eqb (fst p) k)) m.

(* EnableScheduleBindings: for each config { links[id] = link; scheduleManager.Add(entry) } *)
Definition enable (valid : ct -> bool) (bs : list binding) (st : links * sm) : links * sm :=
  fold_left (fun st b => (map_set (b_id b) (link_of b) (fst st),
                          sm_add valid (snd st) (b_crontab b) (b_id b))) bs st.
(* DisableScheduleBindings: for each config { scheduleManager.Remove(entry); delete(links, id) } *)
Definition disable (bs : list binding) (st : links * sm) : links * sm :=
  fold_left (fun st b => (map_del (b_id b) (fst st),
                          sm_remove (snd st) (b_crontab b) (b_id b))) bs st.

(* CanHandleEvent / HandleEvent: link.Crontab == crontab, on the strings *)
Definition can_handle (c : ct) (m : links) : bool :=
  existsb (fun p => ct_eqb (l_crontab (snd p)) c) m.
Definition handle_event (c : ct) (m : links) : list info :=
  map (fun p => info_of_link (snd p)) (filter (fun p => ct_eqb (l_crontab (snd p)) c) m).

(* operator.go:171-183: the task made from one info for hook [h]:
   HookRun task, metadata {HookName, BindingType Schedule, BindingContext, AllowFailure,
   Binding, Group}, WithQueueName(info.QueueName) *)
Record stask := mkSTask {
  st_hook : N; st_queue : N; st_binding : N; st_group : N; st_af : bool;
  st_ctx_name : N; st_ctx_snaps : list N; st_ctx_group : N }.
Definition task_of_info (h : N) (x : info) : stask :=
  mkSTask h (i_queue x) (i_name x) (i_group x) (i_af x) (i_bc_name x) (i_bc_snaps x) (i_bc_group x).

(* ------------------------------------------------------------------ the whole: hooks sharing one manager *)

Inductive op :=
| OAdd (c : ct) (i : N)   (* scheduleManager.Add directly *)
| ORemove (c : ct) (i : N)(* scheduleManager.Remove directly *)
| OEnable (h : N)         (* hook h's controller: EnableScheduleBindings *)
| ODisable (h : N)        (* hook h's controller: DisableScheduleBindings *)
| OFire (c : ct)          (* the string c arrives as a firing: every controller is asked CanHandleEvent / HandleEvent *)
| OTick (n : N)           (* the n-th registered cron entry (from 0) fires: its job runs, what it sends is dispatched *)
| OTickAll                (* every registered cron entry fires once, in the cron library's order *)
| OStart (ns : list N)    (* the cron entries at the positions ns (repeats allowed, positions without an entry
                             ignored) fire at the same instant: their jobs are started together, each in its
                             own goroutine, while the consumer of Ch() is busy (nobody receives) *)
| ODrain                  (* the consumer catches up: it receives until nothing arrives any more and handles
                             every string it receives like hook.Manager.HandleScheduleEvent *)
| OStop                   (* sm.Stop(): the manager's context is cancelled *)
| OSmStart.               (* sm.Start() (schedule_manager.go:118-124): sm.cron.Start() - the cron library's runner of
                             THIS manager starts looking at the clock - and a goroutine that waits for the context.
                             Neither Entries nor the runner's entries nor its nextID are touched: whatever was
                             registered before (the operator starts the main queue, whose EnableScheduleBindings
                             tasks call Add, BEFORE ScheduleManager.Start()) is what the running scheduler fires,
                             under the entry ids Entries remembers; Add / Remove afterwards go to the same runner
                             (cron.go: through its add / remove channels instead of directly).  The running
                             runner keeps its entries sorted by next activation time; the harness lists them by
                             entry id, i.e. in the order of registration ([cron] here: C11_StartProofs.cron_ids_increase) *)

(* [i_hooks]: the schedule bindings of each hook (hook h = position h, from 0);
   [i_invalid]: the crontab strings cron.Parse rejects (oracle: the real parser, asked by the harness);
   [i_alphabet]: the crontab strings looked at in the observations *)
Record input := mkIn {
  i_hooks : list (list binding); i_invalid : list ct; i_alphabet : list ct; i_ops : list op }.

Definition mem_ct (c : ct) (l : list ct) : bool := existsb (ct_eqb c) l.
Definition valid_of (inv : list ct) (c : ct) : bool := negb (mem_ct c inv).

(* [s_ch]: the schedule channel; [s_stopped]: sm.ctx is cancelled *)
Record sys := mkSys { s_links : list links; s_sm : sm; s_ch : chan; s_stopped : bool }.

Fixpoint set_nth {A} (n : nat) (x : A) (l : list A) : list A :=
  match l, n with
  | [], _ => []
  | _ :: r, O => x :: r
  | y :: r, S n' => y :: set_nth n' x r
  end.

(* what is looked at after every operation *)
Record obs := mkObs {
  o_entries : list (ct * option (N * list N));  (* for c in alphabet: Entries[c] = (EntryID, ids) *)
  o_cron : list (N * ct);                       (* cron entries: (EntryID, crontab string sent) *)
  o_fire : list (bool * list info);             (* OFire / OTick / OTickAll / ODrain: per hook CanHandleEvent, HandleEvent *)
  o_recv : list ct;                             (* OTick / OTickAll / ODrain: the strings the consumer received (order: see ch_recv) *)
  o_chlen : N;                                  (* len(sm.ScheduleCh) *)
  o_parked : N                                  (* job goroutines parked in their send *)
}.

(* hook_manager.go:304-316 HandleScheduleEvent(crontab): for every hook,
   if CanHandleScheduleEvent(crontab) { HandleScheduleEvent(crontab, createTask) } *)
Definition dispatch_hook (c : ct) (m : links) : bool * list info :=
  (can_handle c m, if can_handle c m then handle_event c m else []).
Definition dispatch (c : ct) (ls : list links) : list (bool * list info) := map (dispatch_hook c) ls.
(* the strings [cs] arrive one after the other; per hook: was any of them handled, and
   all the execution infos in order of arrival *)
Definition tick_hook (cs : list ct) (m : links) : bool * list info :=
  (existsb (fun c => can_handle c m) cs,
   flat_map (fun c => snd (dispatch_hook c m)) cs).
Definition tick_all (cs : list ct) (ls : list links) : list (bool * list info) := map (tick_hook cs) ls.

(* what the cron entries at the positions [ns] send *)
Definition fired_strings (cr : list (N * ct)) (ns : list N) : list ct :=
  flat_map (fun n => match nth_error cr (N.to_nat n) with Some (_, c) => [c] | None => [] end) ns.

Definition with_ch (s : sys) (k : chan) : sys := mkSys (s_links s) (s_sm s) k (s_stopped s).

(* result of a step: the new state, the per-hook answers, the strings received.
   OTick / OTickAll: the consumer first catches up with whatever is still pending (nothing,
   unless an OStart came before without an ODrain), then one job at a time is run and what
   it sends is received at once. *)
Definition sys_step (i : input) (s : sys) (o : op) : sys * (list (bool * list info) * list ct) :=
  let valid := valid_of (i_invalid i) in
  match o with
  | OAdd c id => (mkSys (s_links s) (sm_add valid (s_sm s) c id) (s_ch s) (s_stopped s), ([], []))
  | ORemove c id => (mkSys (s_links s) (sm_remove (s_sm s) c id) (s_ch s) (s_stopped s), ([], []))
  | OEnable h =>
      let n := N.to_nat h in
      let '(m, s') := enable valid (nth n (i_hooks i) []) (nth n (s_links s) [], s_sm s) in
      (mkSys (set_nth n m (s_links s)) s' (s_ch s) (s_stopped s), ([], []))
  | ODisable h =>
      let n := N.to_nat h in
      let '(m, s') := disable (nth n (i_hooks i) []) (nth n (s_links s) [], s_sm s) in
      (mkSys (set_nth n m (s_links s)) s' (s_ch s) (s_stopped s), ([], []))
  | OFire c => (s, (map (fun m => (can_handle c m, handle_event c m)) (s_links s), []))
  | OTick n =>
      match nth_error (cron (s_sm s)) (N.to_nat n) with
      | Some (_, c) =>                                  (* the job sends c on ScheduleCh *)
          let '(r, k) := ch_drain_all (s_ch s) in
          (with_ch s k, (tick_all (r ++ [c]) (s_links s), r ++ [c]))
      | None => (s, ([], []))
      end
  | OTickAll =>
      let '(r, k) := ch_drain_all (s_ch s) in
      let cs := r ++ map snd (cron (s_sm s)) in
      (with_ch s k, (tick_all cs (s_links s), cs))
  | OStart ns =>                                        (* go e.Job.Run() for each of them; the job closure never looks at sm.ctx *)
      (with_ch s (ch_start (fired_strings (cron (s_sm s)) ns) (s_ch s)), ([], []))
  | ODrain =>
      let '(r, k) := ch_drain_all (s_ch s) in
      (with_ch s k, (tick_all r (s_links s), r))
  | OStop => (mkSys (s_links s) (s_sm s) (s_ch s) true, ([], []))
  | OSmStart => (s, ([], []))                           (* sm.cron.Start(): same runner, same entries, same ids *)
  end.

Definition observe (i : input) (s : sys) (f : list (bool * list info) * list ct) : obs :=
  mkObs (map (fun c => (c, entries (s_sm s) c)) (i_alphabet i)) (cron (s_sm s)) (fst f) (snd f)
        (N.of_nat (length (buf (s_ch s)))) (N.of_nat (length (parked (s_ch s)))).

Fixpoint run_from (i : input) (s : sys) (ops : list op) : list obs :=
  match ops with
  | [] => []
  | o :: r => let '(s', f) := sys_step i s o in observe i s' f :: run_from i s' r
  end.

Definition sys_init (i : input) : sys := mkSys (map (fun _ => []) (i_hooks i)) sm_init ch_empty false.
Definition run_model (i : input) : list obs := run_from i (sys_init i) (i_ops i).
