(* C11_Model.v — executable model of
     pkg/schedule_manager/schedule_manager.go            : scheduleManager Add / Remove
     pkg/hook/controller/schedule_bindings_controller.go : EnableScheduleBindings,
        DisableScheduleBindings, CanHandleEvent, HandleEvent
     pkg/shell-operator/operator.go:163-191              : task created per BindingExecutionInfo
   and of the only thing used of gopkg.in/robfig/cron.v2 while the scheduler is not
   running: AddFunc appends an entry with id ++nextID (or fails on an unparsable spec and
   returns id 0), Remove(id) drops the entries with that id, Entries() lists them; running
   an entry's job sends the crontab string captured by the closure of Add on ScheduleCh.

   A crontab is the Go string itself, byte for byte ([ct] = list of bytes): the manager's
   map Entries is keyed by it, the job's closure sends it, and the bindings controller
   compares a firing with the crontab of a link by [==].  Two spellings of one schedule
   ("* * * * *", "*  * * * *", " * * * * *", a tab between fields, ...) are therefore
   DIFFERENT crontabs everywhere in this model, as they are in the code.
   The firing path: a cron entry's job runs (OTick / OTickAll) -> the string it sends ->
   hook.Manager.HandleScheduleEvent (hook_manager.go:304-316): every hook whose controller
   says CanHandleEvent gets HandleEvent -> one task per BindingExecutionInfo.
   No proofs here. *)
From Verif Require Import Common.

(* a crontab string; identity = equality of byte strings (Go map key, Go ==) *)
Definition ct := bytes.
Definition ct_eqb : ct -> ct -> bool := bytes_eqb.

(* ------------------------------------------------------------------ scheduleManager *)

(* ids are numbered by the harness, crontabs are the strings.  [valid c] = cron.Parse
   accepts the crontab string c. *)
(* sm.Entries : map[string]CronEntry{EntryID, Ids map[string]bool} as a partial function;
   the id set as a duplicate-free list (insertion order is not observable) *)
Record sm := mkSm {
  entries : ct -> option (N * list N);
  cron    : list (N * ct);            (* cron.entries: (EntryID, crontab string the job sends) *)
  next    : N                         (* cron.nextID *)
}.
Definition sm_init : sm := mkSm (fun _ => None) [] 0%N.

Definition upd {V} (k : ct) (v : V) (f : ct -> V) : ct -> V :=
  fun k' => if ct_eqb k' k then v else f k'.
Definition set_add (i : N) (ids : list N) : list N :=        (* Ids[id] = true *)
  if mem_N i ids then ids else ids ++ [i].
Definition set_del (i : N) (ids : list N) : list N :=        (* delete(Ids, id) *)
  filter (fun x => negb (N.eqb x i)) ids.

(* Add, lines 61-90 *)
Definition sm_add (valid : ct -> bool) (s : sm) (c : ct) (i : N) : sm :=
  match entries s c with                                     (* cronEntry, hasCronEntry := sm.Entries[crontab] *)
  | None =>
      (* entryId, _ := sm.cron.AddFunc(...): the error is dropped *)
      let '(eid, cron', next') :=
        if valid c then (N.succ (next s), cron s ++ [(N.succ (next s), c)], N.succ (next s))
        else (0%N, cron s, next s) in
      let e1 := upd c (Some (eid, [i])) (entries s) in       (* sm.Entries[crontab] = CronEntry{entryId, {id}} *)
      (* cronEntry is still the zero value: hasId is false, the id is inserted once more *)
      let e2 := match e1 c with
                | Some (eid', ids') => upd c (Some (eid', set_add i ids')) e1
                | None => e1
                end in
      mkSm e2 cron' next'
  | Some (eid, ids) =>
      if mem_N i ids then s                                  (* hasId *)
      else match entries s c with                            (* sm.Entries[crontab].Ids[id] = true *)
           | Some (eid', ids') => mkSm (upd c (Some (eid', set_add i ids')) (entries s)) (cron s) (next s)
           | None => s
           end
  end.

(* Remove, lines 92-116 *)
Definition sm_remove (s : sm) (c : ct) (i : N) : sm :=
  match entries s c with
  | None => s                                                (* nothing to remove *)
  | Some (eid, ids) =>
      if negb (mem_N i ids) then s                           (* nothing to remove *)
      else
        let ids' := set_del i ids in                         (* delete(sm.Entries[c].Ids, id) *)
        let e1 := upd c (Some (eid, ids')) (entries s) in
        match ids' with
        | [] =>                                              (* len(Ids) == 0 *)
            mkSm (upd c None e1)                             (* delete(sm.Entries, c) *)
                 (filter (fun e => negb (N.eqb (fst e) eid)) (cron s))   (* sm.cron.Remove(EntryID) *)
                 (next s)
        | _ :: _ => mkSm e1 (cron s) (next s)
        end
  end.

Inductive smop := Add (c : ct) (i : N) | Remove (c : ct) (i : N).
Definition sm_step (valid : ct -> bool) (s : sm) (o : smop) : sm :=
  match o with
  | Add c i => sm_add valid s c i
  | Remove c i => sm_remove s c i
  end.
Definition sm_run (valid : ct -> bool) (h : list smop) : sm := fold_left (sm_step valid) h sm_init.

(* "c has a cron entry": some registered cron entry sends c when it fires *)
Definition cron_count (c : ct) (s : sm) : nat :=
  length (filter (fun e => ct_eqb (snd e) c) (cron s)).

(* ------------------------------------------------------------------ controller *)

(* htypes.ScheduleConfig *)
Record binding := mkB {
  b_id : N; b_crontab : ct; b_name : N; b_group : N; b_af : bool; b_snaps : list N; b_queue : N }.
(* ScheduleBindingToCrontabLink *)
Record link := mkLink {
  l_name : N; l_crontab : ct; l_snaps : list N; l_af : bool; l_queue : N; l_group : N }.
(* BindingExecutionInfo together with its single BindingContext
   (Binding, Metadata.BindingType = Schedule, Metadata.IncludeSnapshots, Metadata.Group) *)
Record info := mkInfo {
  i_name : N; i_group : N; i_af : bool; i_snaps : list N; i_queue : N;
  i_bc_name : N; i_bc_schedule : bool; i_bc_snaps : list N; i_bc_group : N }.

Definition link_of (b : binding) : link :=
  mkLink (b_name b) (b_crontab b) (b_snaps b) (b_af b) (b_queue b) (b_group b).
Definition info_of_link (l : link) : info :=
  mkInfo (l_name l) (l_group l) (l_af l) (l_snaps l) (l_queue l)
         (l_name l) true (l_snaps l) (l_group l).

(* ScheduleLinks : map[string]*link as an association list without duplicate keys; the
   order of the list stands for Go's unspecified map iteration order *)
Definition links := list (N * link).
Fixpoint map_set (k : N) (v : link) (m : links) : links :=
  match m with
  | [] => [(k, v)]
  | (k', x) :: r => if N.eqb k' k then (k', v) :: r else (k', x) :: map_set k v r
  end.
Definition map_del (k : N) (m : links) : links :=
  filter (fun p => negb (N.eqb (fst p) k)) m.

(* EnableScheduleBindings: for each config { links[id] = link; scheduleManager.Add(entry) } *)
Definition enable (valid : ct -> bool) (bs : list binding) (st : links * sm) : links * sm :=
  fold_left (fun st b => (map_set (b_id b) (link_of b) (fst st),
                          sm_add valid (snd st) (b_crontab b) (b_id b))) bs st.
(* DisableScheduleBindings: for each config { scheduleManager.Remove(entry); delete(links, id) } *)
Definition disable (bs : list binding) (st : links * sm) : links * sm :=
  fold_left (fun st b => (map_del (b_id b) (fst st),
                          sm_remove (snd st) (b_crontab b) (b_id b))) bs st.

(* CanHandleEvent / HandleEvent: link.Crontab == crontab, on the strings *)
Definition can_handle (c : ct) (m : links) : bool :=
  existsb (fun p => ct_eqb (l_crontab (snd p)) c) m.
Definition handle_event (c : ct) (m : links) : list info :=
  map (fun p => info_of_link (snd p)) (filter (fun p => ct_eqb (l_crontab (snd p)) c) m).

(* operator.go:171-183: the task made from one info for hook [h]:
   HookRun task, metadata {HookName, BindingType Schedule, BindingContext, AllowFailure,
   Binding, Group}, WithQueueName(info.QueueName) *)
Record stask := mkSTask {
  st_hook : N; st_queue : N; st_binding : N; st_group : N; st_af : bool;
  st_ctx_name : N; st_ctx_snaps : list N; st_ctx_group : N }.
Definition task_of_info (h : N) (x : info) : stask :=
  mkSTask h (i_queue x) (i_name x) (i_group x) (i_af x) (i_bc_name x) (i_bc_snaps x) (i_bc_group x).

(* ------------------------------------------------------------------ the whole: hooks sharing one manager *)

Inductive op :=
| OAdd (c : ct) (i : N)   (* scheduleManager.Add directly *)
| ORemove (c : ct) (i : N)(* scheduleManager.Remove directly *)
| OEnable (h : N)         (* hook h's controller: EnableScheduleBindings *)
| ODisable (h : N)        (* hook h's controller: DisableScheduleBindings *)
| OFire (c : ct)          (* the string c arrives as a firing: every controller is asked CanHandleEvent / HandleEvent *)
| OTick (n : N)           (* the n-th registered cron entry (from 0) fires: its job runs, what it sends is dispatched *)
| OTickAll.               (* every registered cron entry fires once, in the cron library's order *)

(* [i_hooks]: the schedule bindings of each hook (hook h = position h, from 0);
   [i_invalid]: the crontab strings cron.Parse rejects (oracle: the real parser, asked by the harness);
   [i_alphabet]: the crontab strings looked at in the observations *)
Record input := mkIn {
  i_hooks : list (list binding); i_invalid : list ct; i_alphabet : list ct; i_ops : list op }.

Definition mem_ct (c : ct) (l : list ct) : bool := existsb (ct_eqb c) l.
Definition valid_of (inv : list ct) (c : ct) : bool := negb (mem_ct c inv).

Record sys := mkSys { s_links : list links; s_sm : sm }.

Fixpoint set_nth {A} (n : nat) (x : A) (l : list A) : list A :=
  match l, n with
  | [], _ => []
  | _ :: r, O => x :: r
  | y :: r, S n' => y :: set_nth n' x r
  end.

(* what is looked at after every operation *)
Record obs := mkObs {
  o_entries : list (ct * option (N * list N));  (* for c in alphabet: Entries[c] = (EntryID, ids) *)
  o_cron : list (N * ct);                       (* cron entries: (EntryID, crontab string sent) *)
  o_fire : list (bool * list info)              (* OFire / OTick / OTickAll: per hook CanHandleEvent, HandleEvent *)
}.

(* hook_manager.go:304-316 HandleScheduleEvent(crontab): for every hook,
   if CanHandleScheduleEvent(crontab) { HandleScheduleEvent(crontab, createTask) } *)
Definition dispatch_hook (c : ct) (m : links) : bool * list info :=
  (can_handle c m, if can_handle c m then handle_event c m else []).
Definition dispatch (c : ct) (ls : list links) : list (bool * list info) := map (dispatch_hook c) ls.
(* the strings [cs] arrive one after the other; per hook: was any of them handled, and
   all the execution infos in order of arrival *)
Definition tick_hook (cs : list ct) (m : links) : bool * list info :=
  (existsb (fun c => can_handle c m) cs,
   flat_map (fun c => snd (dispatch_hook c m)) cs).
Definition tick_all (cs : list ct) (ls : list links) : list (bool * list info) := map (tick_hook cs) ls.

Definition sys_step (i : input) (s : sys) (o : op) : sys * list (bool * list info) :=
  let valid := valid_of (i_invalid i) in
  match o with
  | OAdd c id => (mkSys (s_links s) (sm_add valid (s_sm s) c id), [])
  | ORemove c id => (mkSys (s_links s) (sm_remove (s_sm s) c id), [])
  | OEnable h =>
      let n := N.to_nat h in
      let '(m, s') := enable valid (nth n (i_hooks i) []) (nth n (s_links s) [], s_sm s) in
      (mkSys (set_nth n m (s_links s)) s', [])
  | ODisable h =>
      let n := N.to_nat h in
      let '(m, s') := disable (nth n (i_hooks i) []) (nth n (s_links s) [], s_sm s) in
      (mkSys (set_nth n m (s_links s)) s', [])
  | OFire c => (s, map (fun m => (can_handle c m, handle_event c m)) (s_links s))
  | OTick n =>
      match nth_error (cron (s_sm s)) (N.to_nat n) with
      | Some (_, c) => (s, dispatch c (s_links s))      (* the job sends c on ScheduleCh *)
      | None => (s, [])
      end
  | OTickAll => (s, tick_all (map snd (cron (s_sm s))) (s_links s))
  end.

Definition observe (i : input) (s : sys) (f : list (bool * list info)) : obs :=
  mkObs (map (fun c => (c, entries (s_sm s) c)) (i_alphabet i)) (cron (s_sm s)) f.

Fixpoint run_from (i : input) (s : sys) (ops : list op) : list obs :=
  match ops with
  | [] => []
  | o :: r => let '(s', f) := sys_step i s o in observe i s' f :: run_from i s' r
  end.

Definition sys_init (i : input) : sys := mkSys (map (fun _ => []) (i_hooks i)) sm_init.
Definition run_model (i : input) : list obs := run_from i (sys_init i) (i_ops i).
