(* C16_Model.v — executable model of the hook-metrics path (NO proofs in this file):

     pkg/metric_storage/operation/operation.go  MetricOperationsFromReader (the add/set
                                                shortcuts), ValidateOperations
     pkg/metric_storage/metric_storage.go       SendBatch, applyGroupOperations, sendBatchV0,
                                                CounterAdd / GaugeSet / HistogramObserve
     pkg/metric_storage/vault/vault.go          GroupedVault: collectors by metric name
     pkg/metric/collector.go                    ConstCounterCollector / ConstGaugeCollector:
                                                series keyed by LABEL VALUES ONLY, group stored
                                                in the series; UpdateLabels; ExpireGroupMetrics
     pkg/utils/labels                           MergeLabels, LabelNames, LabelValues, IsSubset

   Identifiers are numbers: metric names, groups (0 = no group), label names (numbered in
   the order of their strings), label values (0 = ""), hooks.  Values are the hook's
   numbers times 8 (the harness uses multiples of 1/8), so no float is involved.

   The prometheus client is an oracle: CounterVec / GaugeVec / HistogramVec are modelled
   as tables from label values to a number (histograms: count, sum, cumulative bucket
   counts); With(labels) works only for exactly the vector's label names. The model is
   claimed only on the domain described in C16_Spec (one kind per metric name, grouped
   xor ungrouped, one label-name set per ungrouped name) — outside it prometheus panics
   or refuses registration and the code swallows the operation. *)
From Verif Require Import Common.
Local Open Scope N_scope.

(* ---- what a hook writes ---- *)

Inductive action := ANone | ASet | AAdd | AObserve | AExpire | AOther.   (* "" set add observe expire <anything else> *)

Record op := mkOp {
  o_group : N;                     (* 0 = "" *)
  o_name : N;                      (* 0 = "" *)
  o_action : action;
  o_value : option Z;
  o_add : option Z;                (* deprecated shortcut fields of the file format *)
  o_set : option Z;
  o_buckets : option (list Z);
  o_labels : list (N * N)
}.

Definition action_eqb (a b : action) : bool :=
  match a, b with
  | ANone, ANone | ASet, ASet | AAdd, AAdd | AObserve, AObserve | AExpire, AExpire | AOther, AOther => true
  | _, _ => false
  end.

Definition is_some {A} (o : option A) : bool := match o with Some _ => true | None => false end.

(* MetricOperationsFromReader: "shortcut transforms" *)
Definition shortcut (o : op) : op :=
  let o1 := match o_set o, o_add o with
            | Some v, None => mkOp (o_group o) (o_name o) ASet (Some v) (o_add o) (o_set o) (o_buckets o) (o_labels o)
            | _, _ => o
            end in
  match o_add o, o_set o with
  | Some v, None => mkOp (o_group o1) (o_name o1) AAdd (Some v) (o_add o1) (o_set o1) (o_buckets o1) (o_labels o1)
  | _, _ => o1
  end.

(* ValidateMetricOperation: true = no error *)
Definition validate_op (o : op) : bool :=
  negb (action_eqb (o_action o) ANone)
  && (if N.eqb (o_group o) 0
      then action_eqb (o_action o) ASet || action_eqb (o_action o) AAdd || action_eqb (o_action o) AObserve
      else action_eqb (o_action o) AExpire || action_eqb (o_action o) ASet || action_eqb (o_action o) AAdd)
  && negb (N.eqb (o_name o) 0 && N.eqb (o_group o) 0)
  && negb (N.eqb (o_name o) 0 && negb (N.eqb (o_group o) 0) && negb (action_eqb (o_action o) AExpire))
  && negb (action_eqb (o_action o) ASet && negb (is_some (o_value o)))
  && negb (action_eqb (o_action o) AAdd && negb (is_some (o_value o)))
  && negb (action_eqb (o_action o) AObserve && negb (is_some (o_value o)))
  && negb (action_eqb (o_action o) AObserve && negb (is_some (o_buckets o)))
  && negb (is_some (o_set o) && is_some (o_add o)).

(* ---- labels (Go maps: one value per key; kept sorted by key) ---- *)

Notation labels := (list (N * N)) (only parsing).

Fixpoint set_label (k v : N) (l : labels) : labels :=
  match l with
  | [] => [(k, v)]
  | (k', v') :: r => if N.ltb k k' then (k, v) :: l
                     else if N.eqb k k' then (k, v) :: r
                     else (k', v') :: set_label k v r
  end.

(* MergeLabels(a, b): later maps override *)
Definition merge_labels (a b : labels) : labels :=
  fold_left (fun acc kv => set_label (fst kv) (snd kv) acc) (a ++ b) [].

Fixpoint get_label (k : N) (l : labels) : N :=          (* labels[k], "" when absent *)
  match l with
  | [] => 0
  | (k', v) :: r => if N.eqb k k' then v else get_label k r
  end.

Definition label_names (l : labels) : list N := map fst l.                   (* LabelNames: sorted keys *)
Definition label_values (l : labels) (names : list N) : list N := map (fun n => get_label n l) names.
Definition is_subset (a b : list N) : bool := forallb (fun x => mem_N x a) b. (* IsSubset(a, b): b within a *)

Fixpoint insert_name (x : N) (l : list N) : list N :=
  match l with
  | [] => [x]
  | y :: r => if N.ltb x y then x :: l else y :: insert_name x r
  end.
Definition sort_names (l : list N) : list N := fold_right insert_name [] l.

(* ---- tables keyed by label values (map[uint64(hash of label values)]...) ---- *)

Definition vals_eqb : list N -> list N -> bool := list_eqb N.eqb.

(* Go maps as association lists: lookup, and assignment m[k] = v (whatever was stored
   under k is gone, (k, v) is there; iteration order is immaterial) *)
Fixpoint aget {K V} (eqb : K -> K -> bool) (k : K) (l : list (K * V)) : option V :=
  match l with
  | [] => None
  | (k', v) :: r => if eqb k k' then Some v else aget eqb k r
  end.
Definition aset {K V} (eqb : K -> K -> bool) (k : K) (v : V) (l : list (K * V)) : list (K * V) :=
  (k, v) :: filter (fun kv => negb (eqb k (fst kv))) l.

Definition row_get {P} : list N -> list (list N * P) -> option P := aget vals_eqb.
Definition row_set {P} : list N -> P -> list (list N * P) -> list (list N * P) := aset vals_eqb.
Definition name_get {V} : N -> list (N * V) -> option V := aget N.eqb.
Definition name_set {V} : N -> V -> list (N * V) -> list (N * V) := aset N.eqb.

(* ---- grouped collectors ---- *)

Inductive kind := KCounter | KGauge | KHistogram.
Definition kind_eqb (a b : kind) : bool :=
  match a, b with KCounter, KCounter | KGauge, KGauge | KHistogram, KHistogram => true | _, _ => false end.

(* GroupedCounterMetric / GroupedGaugeMetric: value and group; LabelValues is the row key *)
Notation gmetric := (Z * N)%type (only parsing).

Record collector := mkColl {
  c_kind : kind;
  c_names : list N;                        (* labelNames, sorted *)
  c_rows : list (list N * gmetric)         (* collection *)
}.

(* UpdateLabels *)
Definition update_labels (c : collector) (names : list N) : collector :=
  let missing := filter (fun n => negb (mem_N n (c_names c))) names in
  match missing with
  | [] => c                                                     (* mustUpdate = false; names already sorted *)
  | _ =>
      let new_names := sort_names (c_names c ++ missing) in
      let old := c_names c in
      let rekey (row : list N * gmetric) :=
        if Nat.eqb (length (fst row)) (length new_names) then row
        else (map (fun n => if mem_N n old then get_label n (combine old (fst row)) else 0) new_names, snd row) in
      mkColl (c_kind c) new_names (map rekey (c_rows c))
  end.

Notation vault := (list (N * collector)) (only parsing).

(* GetOrCreate{Counter,Gauge}Collector: None = the error branch (collector of the other type) *)
Definition get_or_create (v : vault) (k : kind) (name : N) (names : list N) : vault * option collector :=
  match name_get name v with
  | None => let c := mkColl k names [] in (name_set name c v, Some c)
  | Some c =>
      let c' := if is_subset (c_names c) names then c else update_labels c names in
      let v' := name_set name c' v in
      if kind_eqb (c_kind c') k then (v', Some c') else (v', None)
  end.

(* ConstCounterCollector.Add (Value is a float64 since the repair of F5b) *)
Definition counter_add (v : vault) (group name : N) (value : Z) (l : labels) : vault :=
  match get_or_create v KCounter name (label_names l) with
  | (v', None) => v'
  | (v', Some c) =>
      let vals := label_values l (c_names c) in
      let m := match row_get vals (c_rows c) with
               | None => (value, group)
               | Some (x, g) => ((x + value)%Z, g)               (* the stored group is kept *)
               end in
      name_set name (mkColl (c_kind c) (c_names c) (row_set vals m (c_rows c))) v'
  end.

(* ConstGaugeCollector.Set *)
Definition gauge_set (v : vault) (group name : N) (value : Z) (l : labels) : vault :=
  match get_or_create v KGauge name (label_names l) with
  | (v', None) => v'
  | (v', Some c) =>
      let vals := label_values l (c_names c) in
      let m := match row_get vals (c_rows c) with
               | None => (value, group)
               | Some (_, g) => (value, g)                        (* the stored group is kept *)
               end in
      name_set name (mkColl (c_kind c) (c_names c) (row_set vals m (c_rows c))) v'
  end.

(* GroupedVault.ExpireGroupMetrics: every collector drops the series of the group *)
Definition expire_group (v : vault) (group : N) : vault :=
  map (fun nc => (fst nc, mkColl (c_kind (snd nc)) (c_names (snd nc))
                                 (filter (fun row => negb (N.eqb (snd (snd row)) group)) (c_rows (snd nc))))) v.

(* ---- ungrouped vectors (prometheus oracle) ---- *)

(* a series value as Gather shows it: number (histograms: sum) and, for histograms,
   count :: cumulative bucket counts *)
Notation sval := (Z * list N)%type (only parsing).

Record vec := mkVec {
  v_names : list N;                  (* label names fixed at registration *)
  v_buckets : list Z;                (* histograms only *)
  v_rows : list (list N * sval)
}.

Definition names_eqb : list N -> list N -> bool := list_eqb N.eqb.

(* m.Counter(metric, labels).With(labels).Add(value) etc.: get or register, then update
   the series; a label-name mismatch panics inside With and the operation is swallowed *)
Definition vec_update (vs : list (N * vec)) (name : N) (l : labels) (buckets : list Z)
           (f : list Z -> option sval -> sval) : list (N * vec) :=
  let vc := match name_get name vs with
            | Some vc => vc
            | None => mkVec (label_names l) buckets []
            end in
  if names_eqb (v_names vc) (label_names l)
  then let vals := label_values l (v_names vc) in
       name_set name (mkVec (v_names vc) (v_buckets vc)
                            (row_set vals (f (v_buckets vc) (row_get vals (v_rows vc))) (v_rows vc))) vs
  else name_set name vc vs.

Definition num_of (o : option sval) : Z := match o with Some (x, _) => x | None => 0%Z end.

(* histogram.Observe: count+1, sum+v, every bucket with v <= upper bound +1 *)
Definition hist_observe (v : Z) (buckets : list Z) (o : option sval) : sval :=
  let '(s, cs) := match o with Some x => x | None => (0%Z, 0 :: map (fun _ => 0) buckets) end in
  match cs with
  | [] => ((s + v)%Z, [])
  | cnt :: cums => ((s + v)%Z, (cnt + 1) :: map (fun bc => if Z.leb v (fst bc) then snd bc + 1 else snd bc) (combine buckets cums))
  end.

Record state := mkState {
  st_vault : vault;
  st_counters : list (N * vec);
  st_gauges : list (N * vec);
  st_histograms : list (N * vec)
}.

Definition init_state : state := mkState [] [] [] [].

(* ---- SendBatch ---- *)

Definition hook_label : N := 10.          (* the label name "hook" in the numbering of label names *)

(* applyGroupOperations, one operation (each branch ends in `continue` since the repair of F5c) *)
Definition apply_group_op (hook group : N) (v : vault) (o : op) : vault :=
  if action_eqb (o_action o) AExpire then expire_group v group
  else
    let l := merge_labels (o_labels o) [(hook_label, hook)] in
    match o_action o, o_value o with
    | AAdd, Some x => counter_add v group (o_name o) x l
    | _, _ =>
        match o_add o with
        | Some x => counter_add v group (o_name o) x l
        | None =>
            match o_action o, o_value o with
            | ASet, Some x => gauge_set v group (o_name o) x l
            | _, _ =>
                match o_set o with
                | Some x => gauge_set v group (o_name o) x l
                | None => v
                end
            end
        end
    end.

Definition apply_group_operations (hook : N) (v : vault) (group : N) (ops : list op) : vault :=
  fold_left (apply_group_op hook group) ops (expire_group v group).

(* sendBatchV0: None = "no operation in metric from module hook" *)
Definition send_v0_op (hook : N) (st : state) (o : op) : option state :=
  let l := merge_labels (o_labels o) [(hook_label, hook)] in
  match o_action o, o_value o, o_buckets o with
  | AAdd, Some x, _ =>
      Some (mkState (st_vault st)
                    (vec_update (st_counters st) (o_name o) l [] (fun _ old => ((num_of old + x)%Z, [])))
                    (st_gauges st) (st_histograms st))
  | ASet, Some x, _ =>
      Some (mkState (st_vault st) (st_counters st)
                    (vec_update (st_gauges st) (o_name o) l [] (fun _ _ => (x, [])))
                    (st_histograms st))
  | AObserve, Some x, Some b =>
      Some (mkState (st_vault st) (st_counters st) (st_gauges st)
                    (vec_update (st_histograms st) (o_name o) l b (fun bs old => hist_observe x bs old)))
  | _, _, _ => None
  end.

Fixpoint send_batch_v0 (hook : N) (st : state) (ops : list op) : state * bool :=
  match ops with
  | [] => (st, false)
  | o :: r => match send_v0_op hook st o with
              | Some st' => send_batch_v0 hook st' r
              | None => (st, true)
              end
  end.

(* the groups of a batch in order of first appearance (Go iterates a map: any order) *)
Fixpoint groups_of (ops : list op) (seen : list N) : list N :=
  match ops with
  | [] => []
  | o :: r => if N.eqb (o_group o) 0 || mem_N (o_group o) seen then groups_of r seen
              else o_group o :: groups_of r (o_group o :: seen)
  end.

Definition ops_of_group (g : N) (ops : list op) : list op := filter (fun o => N.eqb (o_group o) g) ops.

(* SendBatch with the groups taken in the order gs; the boolean is "returned an error".
   Go ranges over the map groupedOps: any order of the batch's groups can occur. *)
Definition send_batch_ordered (gs : list N) (st : state) (hook : N) (ops : list op) : state * bool :=
  if negb (forallb validate_op ops) then (st, true)
  else
    let v := fold_left (fun v g => apply_group_operations hook v g (ops_of_group g ops))
                       gs (st_vault st) in
    send_batch_v0 hook (mkState v (st_counters st) (st_gauges st) (st_histograms st)) (ops_of_group 0 ops).

(* the deterministic model used in the theorems: groups in order of first appearance *)
Definition send_batch (st : state) (hook : N) (ops : list op) : state * bool :=
  send_batch_ordered (groups_of ops []) st hook ops.

(* a hook run: the metrics file is parsed (shortcuts applied), then SendBatch *)
Definition hook_batch (st : state) (hook : N) (written : list op) : state * bool :=
  send_batch st hook (map shortcut written).

(* ---- Gather ---- *)

(* a collected series: kind (1 counter, 2 gauge, 3 histogram), name, labels with a
   non-empty value (sorted by label name), value *)
Notation series := (N * N * list (N * N) * (Z * list N))%type (only parsing).

Definition shown_labels (names vals : list N) : labels :=
  filter (fun kv => negb (N.eqb (snd kv) 0)) (combine names vals).

Definition kind_code (k : kind) : N := match k with KCounter => 1 | KGauge => 2 | KHistogram => 3 end.

Definition gather_collector (nc : N * collector) : list series :=
  map (fun row => (kind_code (c_kind (snd nc)), fst nc, shown_labels (c_names (snd nc)) (fst row), (fst (snd row), [])))
      (c_rows (snd nc)).

Definition gather_vec (k : kind) (nv : N * vec) : list series :=
  map (fun row => (kind_code k, fst nv, shown_labels (v_names (snd nv)) (fst row), snd row)) (v_rows (snd nv)).

Definition gather (st : state) : list series :=
  flat_map gather_collector (st_vault st)
  ++ flat_map (gather_vec KCounter) (st_counters st)
  ++ flat_map (gather_vec KGauge) (st_gauges st)
  ++ flat_map (gather_vec KHistogram) (st_histograms st).

(* a history: batches from several hooks; after each one, (error?, Gather) *)
Definition batch := (N * list op)%type.

Fixpoint run_from (st : state) (bs : list batch) : list (bool * list series) :=
  match bs with
  | [] => []
  | (hook, ops) :: r =>
      let '(st', err) := hook_batch st hook ops in
      (err, gather st') :: run_from st' r
  end.
Definition run (bs : list batch) : list (bool * list series) := run_from init_state bs.

(* ---- batches arriving at the same time ----
   SendBatch of concurrent executions is modelled as atomic steps taken in some order
   il of the round's batches (linearisation).  What is observed of a round: for every
   batch whether SendBatch failed (that does not depend on the state: validation comes
   first and a validated batch cannot fail, see C16_failure_is_state_independent), and
   Gather() once all of them have returned. *)
Definition run_final (bs : list batch) : state :=
  fold_left (fun st b => fst (hook_batch st (fst b) (snd b))) bs init_state.
Definition batch_fails (b : batch) : bool := snd (hook_batch init_state (fst b) (snd b)).
Definition conc_run (history round il : list batch) : list bool * list series :=
  (map batch_fails round, gather (run_final (history ++ il))).
(* the batches that follow the round, one after the other again *)
Definition after_run (history il after : list batch) : list (bool * list series) :=
  run_from (run_final (history ++ il)) after.
