(* C04_Delay.v — integer (nanosecond) transcription of
   pkg/utils/exponential_backoff/delay.go: CalculateDelayWithMax, and the theorem that the
   back-off delay is never shorter than the initial delay. No floats: 2^(n-1) seconds is
   exact in float64 for the five values used. *)
From Coq Require Import ZArith Lia List.
Import ListNotations.
Open Scope Z_scope.

Definition second : Z := 1000000000.
Definition ms : Z := 1000000.
(* ExponentialCalculationsCount = int(log 32 / log 2) = 5 (checked against the code by the harness) *)
Definition calc_count : Z := 5.

Definition trunc100ms (x : Z) : Z := (x / (100 * ms)) * (100 * ms).   (* Duration.Truncate for x >= 0 *)

Definition delay (initial max : Z) (retry : Z) (rnd : Z) : Z :=
  if retry =? 0 then initial
  else
    let d := if retry <=? calc_count then second * 2 ^ (retry - 1) else max in
    let x := trunc100ms (initial + d + rnd * ms) in
    if x >? max then max else x.

Lemma trunc_lower x : 0 <= x -> x - 100 * ms < trunc100ms x <= x.
Proof.
  intros H. unfold trunc100ms, ms.
  pose proof (Z.div_mod x (100 * 1000000) ltac:(lia)) as D.
  pose proof (Z.mod_pos_bound x (100 * 1000000) ltac:(lia)) as B. lia.
Qed.

(* Hypothesis forced by the proof: the maximum is at least the truncation unit (100 ms).
   With a smaller maximum and retry > 5 the code can return 0 (delay_small_max_refuted);
   the queue calls CalculateDelay, whose maximum is the constant 32 s. *)
Theorem delay_ge_initial initial max retry rnd :
  0 <= initial <= max -> 100 * ms <= max -> 0 <= retry -> 0 <= rnd < 1000 ->
  initial <= delay initial max retry rnd.
Proof.
  intros Hi Hmax Hr Hrnd. unfold delay.
  destruct (retry =? 0) eqn:E0; [lia|]. apply Z.eqb_neq in E0.
  set (d := if retry <=? calc_count then second * 2 ^ (retry - 1) else max).
  assert (Hd : second <= d \/ d = max).
  { unfold d. destruct (retry <=? calc_count); [left | right; reflexivity].
    assert (1 <= 2 ^ (retry - 1)) by (apply Z.pow_le_mono_r with (b := 0) (c := retry - 1); lia).
    unfold second in *. nia. }
  assert (Hx : 0 <= initial + d + rnd * ms) by (unfold ms, second in *; destruct Hd; nia).
  pose proof (trunc_lower _ Hx) as [T1 T2].
  destruct (trunc100ms (initial + d + rnd * ms) >? max) eqn:C; [lia|].
  rewrite Z.gtb_ltb in C. apply Z.ltb_ge in C.
  destruct Hd as [Hd|Hd]; unfold ms, second in *; [nia|].
  (* d = max: the truncated value exceeds max only if ..., otherwise it is >= initial *)
  subst d. rewrite Hd in *. nia.
Qed.

Example delay_small_max_refuted : delay (30 * ms) (50 * ms) 6 0 = 0.
Proof. vm_compute. reflexivity. Qed.

(* what the task queue uses: CalculateDelay = CalculateDelayWithMax with max = 32 s *)
Definition max_backoff : Z := 32 * second.
Corollary queue_delay_ge_initial initial retry rnd :
  0 <= initial <= max_backoff -> 0 <= retry -> 0 <= rnd < 1000 ->
  initial <= delay initial max_backoff retry rnd.
Proof. intros. apply delay_ge_initial; auto. unfold max_backoff, ms, second. lia. Qed.

(* the delay never exceeds the maximum either *)
Theorem delay_le_max initial max retry rnd :
  0 <= initial <= max -> initial <= delay initial max retry rnd <= max \/ retry = 0 -> 
  delay initial max retry rnd <= max.
Proof.
  intros Hi _. unfold delay. destruct (retry =? 0); [lia|].
  destruct (trunc100ms _ >? max) eqn:C; [lia|]. rewrite Z.gtb_ltb in C. apply Z.ltb_ge in C. exact C.
Qed.

(* first failure (failure count 0): exactly the initial delay *)
Theorem delay_first initial max rnd : delay initial max 0 rnd = initial.
Proof. reflexivity. Qed.

(* the values CalculateDelayWithMax may return for given arguments: one per random addend *)
Definition rnds : list Z := map Z.of_nat (seq 0 1000).
Definition possible (initial max retry r : Z) : bool :=
  existsb (fun rnd => delay initial max retry rnd =? r) rnds.
