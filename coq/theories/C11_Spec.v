(* C11_Spec.v — property C11 as a decidable predicate over what is observed after each
   operation: the cron entries registered (which crontab each one sends when it fires)
   and, when a crontab fires, what every hook's controller answers.  Written against an
   abstract set of registered (crontab, id) pairs; it never mentions the model's
   functions (only the data types of C11_Model).

   Text: "Each firing of a crontab produces exactly one task for every enabled schedule
   binding with that crontab - carrying that binding's name, group, allowFailure and
   snapshot list, placed in that binding's queue - and none for other bindings.  A crontab
   keeps firing while at least one binding is registered for it and stops when the last
   one is removed; registering the same crontab any number of times never produces
   duplicate firings."

   A crontab is the string written in the binding's configuration ([ct], bytes).  "A
   binding with that crontab" is a binding whose configured string is that string; the
   text does not identify different spellings, and this Spec does not either: what it
   demands end to end (check_round) is spelling-agnostic - however the crontab is written,
   an enabled binding whose crontab is registered gets exactly one task per round of
   firings.  Firings that coincide while the consumer of the schedule events is busy are
   firings like all others (check_burst). *)
From Verif Require Import Common C11_Model.

(* ---- the abstract registry: the set of (crontab, id) pairs added and not removed ---- *)
Definition pair_eqb (p q : ct * N) : bool := ct_eqb (fst p) (fst q) && N.eqb (snd p) (snd q).
Definition reg_add (p : ct * N) (l : list (ct * N)) : list (ct * N) :=
  if existsb (pair_eqb p) l then l else l ++ [p].
Definition reg_remove (p : ct * N) (l : list (ct * N)) : list (ct * N) :=
  filter (fun q => negb (pair_eqb q p)) l.
Definition reg_step (l : list (ct * N)) (o : smop) : list (ct * N) :=
  match o with
  | Add c i => reg_add (c, i) l
  | Remove c i => reg_remove (c, i) l
  end.
Definition registered (h : list smop) : list (ct * N) := fold_left reg_step h [].
(* some id is registered for crontab c *)
Definition has_binding (c : ct) (l : list (ct * N)) : bool := existsb (fun q => ct_eqb (fst q) c) l.

(* ---- what enabling / disabling a hook's schedule bindings means for the registry ---- *)
Definition induced (hooks : list (list binding)) (o : op) : list smop :=
  match o with
  | OAdd c i => [Add c i]
  | ORemove c i => [Remove c i]
  | OEnable h => map (fun b => Add (b_crontab b) (b_id b)) (nth (N.to_nat h) hooks [])
  | ODisable h => map (fun b => Remove (b_crontab b) (b_id b)) (nth (N.to_nat h) hooks [])
  | OFire _ | OTick _ | OTickAll | OStart _ | ODrain | OStop | OSmStart => []
  end.

(* ---- what a firing must produce ---- *)
(* the execution info carrying binding b's name, group, allowFailure, snapshot list and
   queue, with one schedule binding context of the same name / snapshots / group *)
Definition info_of_binding (b : binding) : info :=
  mkInfo (b_name b) (b_group b) (b_af b) (b_snaps b) (b_queue b)
         (b_name b) true (b_snaps b) (b_group b).
(* the task for hook h made from binding b: b's queue, name, group, allowFailure, and a
   binding context with b's name, snapshot list and group *)
Definition task_of_binding (h : N) (b : binding) : stask :=
  mkSTask h (b_queue b) (b_name b) (b_group b) (b_af b) (b_name b) (b_snaps b) (b_group b).
Definition expected_infos (bs : list binding) (enabled : bool) (c : ct) : list info :=
  if enabled then map info_of_binding (filter (fun b => ct_eqb (b_crontab b) c) bs) else [].
(* a round in which every crontab that is still firing fires once: one task for every
   enabled binding whose crontab fires, i.e. is parsable and has a registered id *)
Definition fires (valid : ct -> bool) (reg : list (ct * N)) (c : ct) : bool := valid c && has_binding c reg.
Definition expected_round (valid : ct -> bool) (reg : list (ct * N)) (bs : list binding) (enabled : bool) : list info :=
  if enabled then map info_of_binding (filter (fun b => fires valid reg (b_crontab b)) bs) else [].

Definition ns_eqb : list N -> list N -> bool := list_eqb N.eqb.
Definition info_eqb (a b : info) : bool :=
  N.eqb (i_name a) (i_name b) && N.eqb (i_group a) (i_group b) && Bool.eqb (i_af a) (i_af b)
  && ns_eqb (i_snaps a) (i_snaps b) && N.eqb (i_queue a) (i_queue b)
  && N.eqb (i_bc_name a) (i_bc_name b) && Bool.eqb (i_bc_schedule a) (i_bc_schedule b)
  && ns_eqb (i_bc_snaps a) (i_bc_snaps b) && N.eqb (i_bc_group a) (i_bc_group b).

(* multiset equality (the controller iterates a Go map: order is free) *)
Fixpoint remove_first (x : info) (l : list info) : option (list info) :=
  match l with
  | [] => None
  | y :: r => if info_eqb x y then Some r
              else match remove_first x r with Some r' => Some (y :: r') | None => None end
  end.
Fixpoint is_perm (a b : list info) : bool :=
  match a with
  | [] => match b with [] => true | _ :: _ => false end
  | x :: a' => match remove_first x b with Some b' => is_perm a' b' | None => false end
  end.

Fixpoint nodupb (l : list N) : bool :=
  match l with
  | [] => true
  | x :: r => negb (mem_N x r) && nodupb r
  end.

Definition is_nil {A} (l : list A) : bool := match l with [] => true | _ :: _ => false end.

(* one hook: its binding ids are distinct (they are uuids; otherwise nothing is claimed) *)
Definition check_answer (bs : list binding) (e : list info) (f : bool * list info) : bool :=
  if nodupb (map b_id bs) then Bool.eqb (fst f) (negb (is_nil e)) && is_perm (snd f) e else true.
Definition check_hook (c : ct) (bs : list binding) (enabled : bool) (f : bool * list info) : bool :=
  check_answer bs (expected_infos bs enabled c) f.
Fixpoint check_round (valid : ct -> bool) (reg : list (ct * N)) (hooks : list (list binding)) (en : list bool)
         (f : list (bool * list info)) : bool :=
  match hooks, en, f with
  | [], [], [] => true
  | bs :: hr, e :: er, x :: fr =>
      check_answer bs (expected_round valid reg bs e) x && check_round valid reg hr er fr
  | _, _, _ => false
  end.
Fixpoint check_fire (c : ct) (hooks : list (list binding)) (en : list bool)
         (f : list (bool * list info)) : bool :=
  match hooks, en, f with
  | [], [], [] => true
  | bs :: hr, e :: er, x :: fr => check_hook c bs e x && check_fire c hr er fr
  | _, _, _ => false
  end.

(* cron entries: a valid crontab has exactly one entry while some id is registered for
   it, none otherwise; an unparsable crontab never has one *)
Definition count_fires (c : ct) (cr : list (N * ct)) : nat :=
  length (filter (fun e => ct_eqb (snd e) c) cr).
Definition check_cron (valid : ct -> bool) (alphabet : list ct) (reg : list (ct * N)) (o : obs) : bool :=
  forallb (fun c => Nat.eqb (count_fires c (o_cron o))
                            (if valid c && has_binding c reg then 1 else 0)%nat) alphabet.

(* ---- the predicate, step by step along the operations ---- *)
(* spec state: registry and, per hook, whether its schedule bindings are enabled *)
Definition spec_state := (list (ct * N) * list bool)%type.
Definition spec_step (hooks : list (list binding)) (st : spec_state) (o : op) : spec_state :=
  (fold_left reg_step (induced hooks o) (fst st),
   match o with
   | OEnable h => set_nth (N.to_nat h) true (snd st)
   | ODisable h => set_nth (N.to_nat h) false (snd st)
   | _ => snd st
   end).
Definition spec_init (hooks : list (list binding)) : spec_state := ([], map (fun _ => false) hooks).

(* ---- firings that wait for the consumer ----
   "Each firing of a crontab produces exactly one task for every enabled schedule binding
   with that crontab ... and none for other bindings": also when several crontabs (or one
   crontab several times) fire at the same instant and the consumer of the schedule events
   is busy.  [cs] = the firings handled by one catching-up of the consumer, a crontab as
   often as it fired: hook by hook one task per firing and enabled binding with that
   crontab, nothing else.  (The text does not say which of two states counts when a hook's
   bindings are enabled or disabled between a firing and its handling: such a catching-up
   is not judged, see [dirty] below.) *)
Definition expected_burst (bs : list binding) (enabled : bool) (cs : list ct) : list info :=
  flat_map (expected_infos bs enabled) cs.
Fixpoint check_burst (cs : list ct) (hooks : list (list binding)) (en : list bool)
         (f : list (bool * list info)) : bool :=
  match hooks, en, f with
  | [], [], [] => true
  | bs :: hr, e :: er, x :: fr => check_answer bs (expected_burst bs e cs) x && check_burst cs hr er fr
  | _, _, _ => false
  end.
(* what the cron entries at the positions ns send when they fire, read off the observed
   cron entries (as for OTick) *)
Definition fired_of (cr : list (N * ct)) (ns : list N) : list ct :=
  flat_map (fun n => match nth_error cr (N.to_nat n) with Some (_, c) => [c] | None => [] end) ns.

(* [pend]: the firings (OStart) the consumer has not handled yet; [dirty]: some hook's
   bindings were enabled or disabled while firings were waiting; [stopped]: the schedule
   manager was stopped (OStop) - the text says nothing about firings during shutdown: what
   jobs that run after the context was cancelled produce is compared with the model only *)
Fixpoint P_from (i : input) (st : spec_state) (pend : list ct) (dirty stopped : bool) (ops : list op) (os : list obs) : bool :=
  match ops, os with
  | [], [] => true
  | o :: ops', ob :: os' =>
      let st' := spec_step (i_hooks i) st o in
      let judged (cs : list ct) := dirty || check_burst cs (i_hooks i) (snd st') (o_fire ob) in
      let stopped' := match o with OStop => true | _ => stopped end in
      (* which string a cron entry sends is learnt by running its job: not judged after OStop either *)
      (stopped' || check_cron (valid_of (i_invalid i)) (i_alphabet i) (fst st') ob)
      && match o with
         | OFire c => check_fire c (i_hooks i) (snd st') (o_fire ob)
         (* the n-th cron entry fires: a firing of the crontab it sends *)
         | OTick n => match nth_error (o_cron ob) (N.to_nat n) with
                      | Some (_, c) => stopped ||
                                       match pend with
                                       | [] => check_fire c (i_hooks i) (snd st') (o_fire ob)
                                       | _ :: _ => judged (pend ++ [c])
                                       end
                      | None => is_nil (o_fire ob)
                      end
         | OTickAll => stopped ||
                       match pend with
                       | [] => check_round (valid_of (i_invalid i)) (fst st') (i_hooks i) (snd st') (o_fire ob)
                       | _ :: _ => judged (pend ++ map snd (o_cron ob))
                       end
         | ODrain => stopped || judged pend
         | _ => true
         end
      && match o with
         | OTick n => match nth_error (o_cron ob) (N.to_nat n) with
                      | Some _ => P_from i st' [] false stopped ops' os'
                      | None => P_from i st' pend dirty stopped ops' os'
                      end
         | OTickAll | ODrain => P_from i st' [] false stopped ops' os'
         | OStart ns => P_from i st' (pend ++ fired_of (o_cron ob) ns) dirty stopped ops' os'
         | OEnable _ | ODisable _ => P_from i st' pend (dirty || negb (is_nil pend)) stopped ops' os'
         | OStop => P_from i st' pend dirty true ops' os'
         | _ => P_from i st' pend dirty stopped ops' os'
         end
  | _, _ => false
  end.
Definition P (i : input) (os : list obs) : bool := P_from i (spec_init (i_hooks i)) [] false false (i_ops i) os.
