(* C11_Properties.v — the property theorems of C11 and nothing else.

   [sm_run valid h] = the scheduleManager after the history [h] of Add/Remove calls on
   (crontab, id) pairs ([valid c] = cron.Parse accepts crontab c); [cron s] = the entries
   registered in the cron library, each with the crontab it sends when it fires;
   [registered h] = the abstract set of pairs added and not removed since
   (C11_registered_spec).  No hypothesis on histories: repeats, removals of unknown pairs
   and unparsable crontabs are all included. *)
From Coq Require Import Permutation.
From Verif Require Import Common C11_Model C11_Spec C11_Proofs.

(* the whole decidable predicate P of C11_Spec (cron entries after every operation of a
   system of hooks sharing one manager; per-hook answers to every firing) holds of the
   model on EVERY input *)
Theorem C11_P_holds : forall i, P i (run_model i) = true.
Proof. exact P_holds. Qed.
Print Assumptions C11_P_holds.

Theorem C11_registered_spec : forall h o p,
  In p (registered (h ++ [o])) <->
  match o with
  | Add c i => p = (c, i) \/ In p (registered h)
  | Remove c i => In p (registered h) /\ p <> (c, i)
  end.
Proof. exact registered_snoc. Qed.
Print Assumptions C11_registered_spec.

(* a crontab has a cron entry iff it is parsable and its set of registered ids is not
   empty; equivalently the number of its cron entries is 1 or 0 accordingly *)
Theorem C11_refcount : forall valid h c,
  ((exists e, In (e, c) (cron (sm_run valid h)))
   <-> (valid c = true /\ exists i, In (c, i) (registered h)))
  /\ cron_count c (sm_run valid h) = (if valid c && has_binding c (registered h) then 1 else 0)%nat.
Proof. exact refcount. Qed.
Print Assumptions C11_refcount.

(* never two cron entries for one crontab (and entry ids are distinct) *)
Theorem C11_single_entry : forall valid h c,
  (cron_count c (sm_run valid h) <= 1)%nat /\ NoDup (map fst (cron (sm_run valid h))).
Proof. exact single_entry. Qed.
Print Assumptions C11_single_entry.

(* the manager's map Entries is the registry *)
Theorem C11_entries_refine_registry : forall valid h c,
  match entries (sm_run valid h) c with
  | None => forall i, ~ In (c, i) (registered h)
  | Some (_, ids) => ids <> [] /\ NoDup ids /\ forall i, In i ids <-> In (c, i) (registered h)
  end.
Proof. exact entries_refine. Qed.
Print Assumptions C11_entries_refine_registry.

(* one hook's controller after any sequence [calls] of EnableScheduleBindings (true) /
   DisableScheduleBindings (false), whatever the shared manager's state [s0]: a firing of
   crontab c yields exactly one execution info - hence one task for hook h - per binding
   with crontab c if the bindings are enabled, carrying the binding's name, group,
   allowFailure, snapshot list and queue, and nothing otherwise.  Hypothesis: the ids of
   the hook's bindings are distinct (config.ScheduleID() draws uuids). *)
Theorem C11_fire_exactly_bindings : forall valid bs calls s0 c h,
  NoDup (map b_id bs) ->
  let m := fst (fold_left (ctl_step valid bs) calls ([], s0)) in
  let enabled := last calls false in
  let fired := filter (fun b => N.eqb (b_crontab b) c) bs in
  Permutation (handle_event c m) (if enabled then map info_of_binding fired else [])
  /\ can_handle c m = (if enabled then negb (is_nil fired) else false)
  /\ Permutation (map (task_of_info h) (handle_event c m))
       (if enabled
        then map (fun b => mkSTask h (b_queue b) (b_name b) (b_group b) (b_af b)
                                   (b_name b) (b_snaps b) (b_group b)) fired
        else []).
Proof. exact fire_exactly_bindings. Qed.
Print Assumptions C11_fire_exactly_bindings.

(* hooks sharing one manager: the manager's state is the manager run on the add/remove
   history induced by the operations (Enable h = Add of every binding of h, ...), so
   C11_refcount and C11_single_entry apply to it *)
Theorem C11_system_manager_is_induced : forall i ops s,
  s_sm (fold_left (fun s o => fst (sys_step i s o)) ops s)
  = fold_left (sm_step (valid_of (i_invalid i))) (flat_map (induced (i_hooks i)) ops) (s_sm s).
Proof. exact sys_sm_induced. Qed.
Print Assumptions C11_system_manager_is_induced.

(* non-vacuity.  Crontab 1 gets ids 7 and 8, 7 is removed twice, an unknown pair is
   removed, crontab 4 is unparsable: one cron entry (id 1) for crontab 1 while 8 is
   registered; after removing 8 and adding again a fresh entry (id 2).  A hook with two
   bindings on crontab 1 and one on crontab 2 (distinct ids) meets the hypothesis of
   C11_fire_exactly_bindings and a firing of crontab 1 yields two infos. *)
Definition ex_valid (c : N) : bool := negb (N.eqb c 4).
Definition ex_bs : list binding :=
  [ mkB 11 1 101 0 false [] 0; mkB 12 2 102 5 true [101] 3; mkB 13 1 103 5 false [101; 102] 0 ]%N.

Example C11_hyp_met :
  cron (sm_run ex_valid [Add 1 7; Add 1 8; Add 1 7; Remove 1 7; Remove 1 7; Remove 3 9; Add 4 7]%N) = [(1, 1)]%N
  /\ registered [Add 1 7; Add 1 8; Add 1 7; Remove 1 7; Remove 1 7; Remove 3 9; Add 4 7]%N = [(1, 8); (4, 7)]%N
  /\ cron (sm_run ex_valid [Add 1 7; Add 1 8; Remove 1 7; Remove 1 8; Add 1 8]%N) = [(2, 1)]%N
  /\ NoDup (map b_id ex_bs)
  /\ handle_event 1 (fst (fold_left (ctl_step ex_valid ex_bs) [true; false; true] ([], sm_init)))
     = [info_of_binding (mkB 11 1 101 0 false [] 0); info_of_binding (mkB 13 1 103 5 false [101; 102] 0)]%N.
Proof.
  repeat split; try (vm_compute; reflexivity).
  apply nodupb_NoDup. vm_compute. reflexivity.
Qed.
