(* C11_Properties.v — the property theorems of C11 and nothing else.

   A crontab ([ct]) is the crontab STRING, byte for byte, as written in the binding's
   configuration / passed to Add: that is the identity the manager's map, the cron job's
   closure and the bindings controller's comparison use.  Every theorem quantifies over
   all strings, so spellings that differ only in whitespace are covered as what they are
   for the code: different crontabs (C11_distinct_strings_fire_separately), each binding
   still getting exactly one task per round of firings (C11_round_one_task_per_binding).

   [sm_run valid h] = the scheduleManager after the history [h] of Add/Remove calls on
   (crontab, id) pairs ([valid c] = cron.Parse accepts crontab c); [cron s] = the entries
   registered in the cron library, each with the crontab it sends when it fires;
   [registered h] = the abstract set of pairs added and not removed since
   (C11_registered_spec).  No hypothesis on histories: repeats, removals of unknown pairs
   and unparsable crontabs are all included. *)
From Coq Require Import Permutation Sorted.
From Verif Require Import Common C11_Model C11_Spec C11_Proofs C11_Hm C11_HmSpec C11_HmProofs C11_IdProofs C11_StartSpec C11_StartProofs C11_QModel C11_QSpec C11_QProofs.

(* the whole decidable predicate P of C11_Spec (cron entries after every operation of a
   system of hooks sharing one manager; per-hook answers to every firing - a string
   handed to the controllers, one cron entry's job run, or a round in which every cron
   entry's job is run once) holds of the model on EVERY input *)
Theorem C11_P_holds : forall i, P i (run_model i) = true.
Proof. exact P_holds. Qed.
Print Assumptions C11_P_holds.

Theorem C11_registered_spec : forall h o p,
  In p (registered (h ++ [o])) <->
  match o with
  | Add c i => p = (c, i) \/ In p (registered h)
  | Remove c i => In p (registered h) /\ p <> (c, i)
  end.
Proof. exact registered_snoc. Qed.
Print Assumptions C11_registered_spec.

(* a crontab has a cron entry iff it is parsable and its set of registered ids is not
   empty; equivalently the number of its cron entries is 1 or 0 accordingly *)
Theorem C11_refcount : forall valid h c,
  ((exists e, In (e, c) (cron (sm_run valid h)))
   <-> (valid c = true /\ exists i, In (c, i) (registered h)))
  /\ cron_count c (sm_run valid h) = (if valid c && has_binding c (registered h) then 1 else 0)%nat.
Proof. exact refcount. Qed.
Print Assumptions C11_refcount.

(* never two cron entries for one crontab (and entry ids are distinct) *)
Theorem C11_single_entry : forall valid h c,
  (cron_count c (sm_run valid h) <= 1)%nat /\ NoDup (map fst (cron (sm_run valid h))).
Proof. exact single_entry. Qed.
Print Assumptions C11_single_entry.

(* the manager's map Entries is the registry *)
Theorem C11_entries_refine_registry : forall valid h c,
  match entries (sm_run valid h) c with
  | None => forall i, ~ In (c, i) (registered h)
  | Some (_, ids) => ids <> [] /\ NoDup ids /\ forall i, In i ids <-> In (c, i) (registered h)
  end.
Proof. exact entries_refine. Qed.
Print Assumptions C11_entries_refine_registry.

(* one hook's controller after any sequence [calls] of EnableScheduleBindings (true) /
   DisableScheduleBindings (false), whatever the shared manager's state [s0]: a firing of
   crontab c yields exactly one execution info - hence one task for hook h - per binding
   with crontab c if the bindings are enabled, carrying the binding's name, group,
   allowFailure, snapshot list and queue, and nothing otherwise.  Hypothesis: the ids of
   the hook's bindings are distinct (config.ScheduleID() draws uuids). *)
Theorem C11_fire_exactly_bindings : forall valid bs calls s0 c h,
  NoDup (map b_id bs) ->
  let m := fst (fold_left (ctl_step valid bs) calls ([], s0)) in
  let enabled := last calls false in
  let fired := filter (fun b => ct_eqb (b_crontab b) c) bs in
  Permutation (handle_event c m) (if enabled then map info_of_binding fired else [])
  /\ can_handle c m = (if enabled then negb (is_nil fired) else false)
  /\ Permutation (map (task_of_info h) (handle_event c m))
       (if enabled
        then map (fun b => mkSTask h (b_queue b) (b_name b) (b_group b) (b_af b)
                                   (b_name b) (b_snaps b) (b_group b)) fired
        else []).
Proof. exact fire_exactly_bindings. Qed.
Print Assumptions C11_fire_exactly_bindings.

(* hooks sharing one manager: the manager's state is the manager run on the add/remove
   history induced by the operations (Enable h = Add of every binding of h, ...), so
   C11_refcount and C11_single_entry apply to it *)
Theorem C11_system_manager_is_induced : forall i ops s,
  s_sm (fold_left (fun s o => fst (sys_step i s o)) ops s)
  = fold_left (sm_step (valid_of (i_invalid i))) (flat_map (induced (i_hooks i)) ops) (s_sm s).
Proof. exact sys_sm_induced. Qed.
Print Assumptions C11_system_manager_is_induced.

(* what a cron entry sends when it fires is the string it is filed under in Entries (so
   the registry, the cron library and the channel agree on the identity of a crontab) *)
Theorem C11_entry_sends_its_key : forall valid h e c,
  In (e, c) (cron (sm_run valid h)) ->
  valid c = true /\ exists ids, entries (sm_run valid h) c = Some (e, ids).
Proof. exact entry_sends_key. Qed.
Print Assumptions C11_entry_sends_its_key.

(* two different strings - in particular two spellings of one schedule - that are parsable
   and registered have two different cron entries, each sending its own string *)
Theorem C11_distinct_strings_fire_separately : forall valid h c c' i i',
  c <> c' -> valid c = true -> valid c' = true ->
  In (c, i) (registered h) -> In (c', i') (registered h) ->
  exists e e', e <> e' /\ In (e, c) (cron (sm_run valid h)) /\ In (e', c') (cron (sm_run valid h)).
Proof. exact distinct_strings_fire_separately. Qed.
Print Assumptions C11_distinct_strings_fire_separately.

(* end to end, for every configuration and after ANY sequence of operations (raw
   Add/Remove, Enable/Disable of any hook, firings): when every registered cron entry fires
   once - its job sends its string, hook.Manager.HandleScheduleEvent asks every hook - hook
   h gets exactly one task for each of its bindings that is enabled and whose crontab
   string is parsable and still has a registered id, carrying that binding's name, group,
   allowFailure, snapshot list and queue, and no other task; however the crontabs are
   spelled.  [st] = registry and enabled flags as the Spec tracks them. *)
Theorem C11_round_one_task_per_binding : forall i ops h,
  let s := fold_left (fun s o => fst (sys_step i s o)) ops (sys_init i) in
  let st := fold_left (spec_step (i_hooks i)) ops (spec_init (i_hooks i)) in
  let bs := nth h (i_hooks i) [] in
  NoDup (map b_id bs) ->
  Permutation
    (map (task_of_info (N.of_nat h)) (snd (tick_hook (map snd (cron (s_sm s))) (nth h (s_links s) []))))
    (if nth h (snd st) false
     then map (task_of_binding (N.of_nat h))
              (filter (fun b => fires (valid_of (i_invalid i)) (fst st) (b_crontab b)) bs)
     else []).
Proof. exact round_tasks. Qed.
Print Assumptions C11_round_one_task_per_binding.

(* ---- firings that coincide while the consumer of the schedule events is busy ----
   ScheduleCh is ONE channel of capacity 1 for all crontabs; the cron library starts every
   due job in its own goroutine; the job is a blocking send. *)

(* the channel loses nothing and repeats nothing.  [k]: any channel state (buffer, parked
   senders); the jobs sending the strings [cs] - different crontabs, one crontab several
   times - are started together and reach their send in ANY order [cs'] while nobody
   receives; then the consumer receives until nothing arrives, the runtime waking parked
   senders in ANY order [picks]: it receives exactly what was pending plus the string of
   every started job, each once, and no goroutine stays parked *)
Theorem C11_coinciding_firings_all_delivered : forall picks cs cs' k,
  Permutation cs cs' ->
  Permutation (fst (ch_drain_with picks (ch_start cs' k))) (ch_pending k ++ cs)
  /\ snd (ch_drain_with picks (ch_start cs' k)) = ch_empty.
Proof. exact concurrent_all_delivered. Qed.
Print Assumptions C11_coinciding_firings_all_delivered.

(* the sends block: in any reachable state, of the jobs started while nobody receives as
   many return as the buffer has room for (capacity 1), all the others stay parked in
   their send until the consumer receives *)
Theorem C11_sends_block : forall i ops cs,
  let k := s_ch (fold_left (fun s o => fst (sys_step i s o)) ops (sys_init i)) in
  length (buf (ch_start cs k)) = Nat.min ch_cap (length (buf k) + length cs)
  /\ (length (buf (ch_start cs k)) + length (parked (ch_start cs k)) = length (buf k) + length (parked k) + length cs)%nat.
Proof. exact sends_block. Qed.
Print Assumptions C11_sends_block.

(* end to end, after ANY sequence of operations (firings still waiting included): the jobs
   of the crontabs [cs] are started together, the consumer then catches up.  Hook h gets
   for EVERY firing - those that were waiting and those started now, a crontab as often as
   it fired - exactly one task for each of its enabled bindings with that crontab, carrying
   that binding's name, group, allowFailure, snapshot list and queue, and no other task;
   in whatever order the goroutines reach their send and are woken *)
Theorem C11_coinciding_firings_one_task_per_binding : forall i ops h cs cs' picks,
  let s := fold_left (fun s o => fst (sys_step i s o)) ops (sys_init i) in
  let st := fold_left (spec_step (i_hooks i)) ops (spec_init (i_hooks i)) in
  let bs := nth h (i_hooks i) [] in
  NoDup (map b_id bs) -> Permutation cs cs' ->
  let received := fst (ch_drain_with picks (ch_start cs' (s_ch s))) in
  Permutation received (ch_pending (s_ch s) ++ cs)
  /\ snd (ch_drain_with picks (ch_start cs' (s_ch s))) = ch_empty
  /\ Permutation
       (map (task_of_info (N.of_nat h)) (snd (tick_hook received (nth h (s_links s) []))))
       (if nth h (snd st) false
        then flat_map (fun c => map (task_of_binding (N.of_nat h)) (filter (fun b => ct_eqb (b_crontab b) c) bs))
                      (ch_pending (s_ch s) ++ cs)
        else []).
Proof. exact burst_tasks. Qed.
Print Assumptions C11_coinciding_firings_one_task_per_binding.

(* sm.Stop() cancels the manager's context and nothing in the modelled code looks at it
   (only the goroutine of Start() does, to stop the cron scheduler): whatever step comes
   after a Stop does what it would have done without it - in particular a job that is run
   after the context was cancelled still sends, and its firing is handled *)
Theorem C11_stop_is_not_looked_at : forall i s o b,
  let s2 := mkSys (s_links s) (s_sm s) (s_ch s) b in
  snd (sys_step i s2 o) = snd (sys_step i s o)
  /\ s_links (fst (sys_step i s2 o)) = s_links (fst (sys_step i s o))
  /\ s_sm (fst (sys_step i s2 o)) = s_sm (fst (sys_step i s o))
  /\ s_ch (fst (sys_step i s2 o)) = s_ch (fst (sys_step i s o)).
Proof. exact stop_is_not_looked_at. Qed.
Print Assumptions C11_stop_is_not_looked_at.

(* non-vacuity.  Crontab 1 gets ids 7 and 8, 7 is removed twice, an unknown pair is
   removed, crontab 4 is unparsable: one cron entry (id 1) for crontab 1 while 8 is
   registered; after removing 8 and adding again a fresh entry (id 2).  A hook with two
   bindings on crontab 1 and one on crontab 2 (distinct ids) meets the hypothesis of
   C11_fire_exactly_bindings and a firing of crontab 1 yields two infos. *)
(* "* * * * *", the same with two spaces after the first field, "*/5 * * * *",
   "0 * * * *", "not a crontab" *)
Definition c1 : ct := [42; 32; 42; 32; 42; 32; 42; 32; 42]%N.
Definition c1w : ct := [42; 32; 32; 42; 32; 42; 32; 42; 32; 42]%N.
Definition c2 : ct := [42; 47; 53; 32; 42; 32; 42; 32; 42; 32; 42]%N.
Definition c3 : ct := [48; 32; 42; 32; 42; 32; 42; 32; 42]%N.
Definition c4 : ct := [110; 111; 116; 32; 97; 32; 99; 114; 111; 110; 116; 97; 98]%N.
Definition ex_valid (c : ct) : bool := negb (ct_eqb c c4).
Definition ex_bs : list binding :=
  [ mkB 11 c1 101 0 false [] 0; mkB 12 c2 102 5 true [101] 3; mkB 13 c1 103 5 false [101; 102] 0 ]%N.
(* two hooks; the second spells the first one's crontab with a double space, and has a
   second binding spelled like the first hook's *)
Definition ex_in : input :=
  mkIn [ [mkB 11 c1 101 0 false [] 0]; [mkB 21 c1w 201 0 true [101] 2; mkB 22 c1 202 0 false [] 0] ]%N
       [c4] [c1; c1w] [OEnable 0; OEnable 1; ODisable 0]%N.

Example C11_hyp_met :
  cron (sm_run ex_valid [Add c1 7; Add c1 8; Add c1 7; Remove c1 7; Remove c1 7; Remove c3 9; Add c4 7]%N) = [(1%N, c1)]
  /\ registered [Add c1 7; Add c1 8; Add c1 7; Remove c1 7; Remove c1 7; Remove c3 9; Add c4 7]%N = [(c1, 8%N); (c4, 7%N)]
  /\ cron (sm_run ex_valid [Add c1 7; Add c1 8; Remove c1 7; Remove c1 8; Add c1 8]%N) = [(2%N, c1)]
  /\ NoDup (map b_id ex_bs)
  /\ handle_event c1 (fst (fold_left (ctl_step ex_valid ex_bs) [true; false; true] ([], sm_init)))
     = [info_of_binding (mkB 11 c1 101 0 false [] 0); info_of_binding (mkB 13 c1 103 5 false [101; 102] 0)]%N
  (* spellings: c1 <> c1w, both parsable, both registered: two cron entries, each sends its own string *)
  /\ c1 <> c1w
  /\ cron (sm_run ex_valid [Add c1 7; Add c1w 8]%N) = [(1%N, c1); (2%N, c1w)]
  (* after enabling both hooks and disabling the first, a round gives hook 1 one task per
     binding - the double-spaced one included - and hook 0 none *)
  /\ (let s := fold_left (fun s o => fst (sys_step ex_in s o)) (i_ops ex_in) (sys_init ex_in) in
      cron (s_sm s) = [(1%N, c1); (2%N, c1w)]
      /\ map (fun m => map (task_of_info 1) (snd (tick_hook (map snd (cron (s_sm s))) m))) (s_links s)
         = [ []; [task_of_binding 1 (mkB 22 c1 202 0 false [] 0); task_of_binding 1 (mkB 21 c1w 201 0 true [101] 2)] ]%N)
  /\ NoDup (map b_id (nth 1 (i_hooks ex_in) [])).
Proof.
  repeat split; try (vm_compute; reflexivity); try (apply nodupb_NoDup; vm_compute; reflexivity).
  discriminate.
Qed.

(* non-vacuity of the coinciding-firings theorems.  Two hooks on different crontabs (c1,
   c2), both enabled; the jobs of cron entry 0 (c1), entry 1 (c2) and entry 0 again are
   started together: one send fills the buffer, two goroutines park; the consumer then
   receives three strings and hook 0 gets two tasks (c1 fired twice), hook 1 one.  With the
   runtime waking the LAST parked sender first the strings arrive in another order, the
   tasks are the same. *)
Definition ex_burst : input :=
  mkIn [ [mkB 11 c1 101 0 false [] 0]; [mkB 21 c2 201 5 true [101] 2] ]%N
       [c4] [c1; c2] [OEnable 0; OEnable 1; OStart [0; 1; 0]; ODrain]%N.

Example C11_burst_hyp_met :
  ch_start [c1; c2; c1] ch_empty = mkCh [c1] [c2; c1]
  /\ ch_drain_all (mkCh [c1] [c2; c1]) = ([c1; c2; c1], ch_empty)
  /\ fst (ch_drain_with (fun _ => 5%nat) (mkCh [c1] [c2; c1])) = [c1; c1; c2]
  /\ Permutation [c1; c2; c1] [c2; c1; c1]
  /\ NoDup (map b_id (nth 0 (i_hooks ex_burst) [])) /\ NoDup (map b_id (nth 1 (i_hooks ex_burst) []))
  /\ map (fun o => (o_chlen o, o_parked o, o_recv o)) (run_model ex_burst)
     = [ (0, 0, []); (0, 0, []); (1, 2, []); (0, 0, [c1; c2; c1]) ]%N
  /\ map (fun x => map (task_of_info 0) (snd x)) (o_fire (last (run_model ex_burst) (mkObs [] [] [] [] 0 0)))
     = [ [task_of_binding 0 (mkB 11 c1 101 0 false [] 0); task_of_binding 0 (mkB 11 c1 101 0 false [] 0)];
         [task_of_info 0 (info_of_binding (mkB 21 c2 201 5 true [101] 2))] ]%N.
Proof.
  repeat split; try (vm_compute; reflexivity); try (apply nodupb_NoDup; vm_compute; reflexivity).
  apply perm_swap.
Qed.

(* ---- the operator-level path: hooks enabled and disabled at different moments, interleaved
   with firings (C11_Hm, C11_HmSpec) ----
   [run_hm i]: the run of C11_Model's system with, after every operation, the TASKS the
   operator's schedule event handler (operator.go:163-191) makes - through
   hook.Manager.HandleScheduleEvent (hook_manager.go:304-316) and the hooks' schedule bindings
   controllers - of every string the consumer of the schedule channel receives.
   OEnable h = hook h's EnableScheduleBindings task is handled; tick, enable hook A, tick,
   enable hook B, tick, disable hook A, tick ... are histories like all others.
   [ids_distinct]: within one hook the binding ids (uuids) are distinct. *)

(* the whole decidable predicate P_hm of C11_HmSpec - C11_Spec.P on the cron entries and the
   controllers' answers, and for every firing (OFire, OTick, OTickAll, a catching-up of the
   consumer) the multiset of tasks created = one task per binding with that crontab of the
   hooks enabled at that moment - holds of the model on EVERY input *)
Theorem C11_hm_P_holds : forall i, P_hm i (run_hm i) = true.
Proof. exact P_hm_holds. Qed.
Print Assumptions C11_hm_P_holds.

(* after ANY sequence of operations a firing of crontab c yields exactly the tasks of the
   bindings with crontab c of the hooks enabled NOW ([snd st] = the enabled flags as the
   Spec tracks them), hook by hook in the order of the hooks' paths *)
Theorem C11_hm_firing_yields_tasks_of_bindings_enabled_now : forall i ops c,
  let s := fold_left (fun s o => fst (sys_step i s o)) ops (sys_init i) in
  let st := fold_left (spec_step (i_hooks i)) ops (spec_init (i_hooks i)) in
  ids_distinct (i_hooks i) = true ->
  hm_handle c (i_hooks i) (s_links s) = expected_from 0 c (i_hooks i) (snd st).
Proof. exact hm_firing_now. Qed.
Print Assumptions C11_hm_firing_yields_tasks_of_bindings_enabled_now.

(* in words: t is among the tasks of a firing of c iff it is THE task of a binding b with
   crontab c of a hook h that is enabled at that moment - that binding's queue, name, group,
   allowFailure, snapshot list *)
Theorem C11_hm_task_iff_enabled_binding : forall i ops c t,
  let s := fold_left (fun s o => fst (sys_step i s o)) ops (sys_init i) in
  let st := fold_left (spec_step (i_hooks i)) ops (spec_init (i_hooks i)) in
  ids_distinct (i_hooks i) = true ->
  (In t (hm_handle c (i_hooks i) (s_links s))
   <-> exists h b, t = task_of_binding (N.of_nat h) b
                   /\ nth h (snd st) false = true /\ In b (nth h (i_hooks i) []) /\ b_crontab b = c).
Proof. exact hm_task_iff. Qed.
Print Assumptions C11_hm_task_iff_enabled_binding.

(* the hook manager remembers nothing about earlier firings: two histories after which the
   same hooks are enabled give the same tasks for every firing (a hook enabled after the
   first firing of a crontab it shares is served like one enabled before it) *)
Theorem C11_hm_history_independent : forall i ops1 ops2 c,
  let s1 := fold_left (fun s o => fst (sys_step i s o)) ops1 (sys_init i) in
  let s2 := fold_left (fun s o => fst (sys_step i s o)) ops2 (sys_init i) in
  ids_distinct (i_hooks i) = true ->
  snd (fold_left (spec_step (i_hooks i)) ops1 (spec_init (i_hooks i)))
  = snd (fold_left (spec_step (i_hooks i)) ops2 (spec_init (i_hooks i))) ->
  hm_handle c (i_hooks i) (s_links s1) = hm_handle c (i_hooks i) (s_links s2).
Proof. exact hm_history_independent. Qed.
Print Assumptions C11_hm_history_independent.

(* "keeps firing while at least one binding is registered": after any history, an enabled
   binding whose crontab is parsable and has a registered id has exactly one cron entry, and
   a round of firings yields its task - also when the hooks it shared the crontab with were
   disabled meanwhile *)
Theorem C11_hm_registered_binding_keeps_firing : forall i ops h b,
  let s := fold_left (fun s o => fst (sys_step i s o)) ops (sys_init i) in
  let st := fold_left (spec_step (i_hooks i)) ops (spec_init (i_hooks i)) in
  ids_distinct (i_hooks i) = true ->
  nth h (snd st) false = true -> In b (nth h (i_hooks i) []) ->
  fires (valid_of (i_invalid i)) (fst st) (b_crontab b) = true ->
  cron_count (b_crontab b) (s_sm s) = 1%nat
  /\ In (task_of_binding (N.of_nat h) b) (hm_tasks (i_hooks i) (s_links s) (map snd (cron (s_sm s)))).
Proof. exact hm_keeps_firing. Qed.
Print Assumptions C11_hm_registered_binding_keeps_firing.

(* the decision procedure used by P_hm accepts exactly the permutations *)
Theorem C11_hm_check_tasks_is_permutation : forall hooks en cs ts,
  check_tasks hooks en cs ts = true <-> Permutation ts (expected_tasks hooks en cs).
Proof. exact check_tasks_iff. Qed.
Print Assumptions C11_hm_check_tasks_is_permutation.

(* non-vacuity.  Hooks 0 and 1 share crontab c2 (hook 1's binding has its own queue), hook 2
   is on c3.  Hook 0 and hook 2 are enabled, c2 fires (one task, hook 0), hook 1 is enabled,
   c2 fires (two tasks), hook 0 is disabled - c2 is still registered for hook 1 and keeps its
   cron entry - c2 fires (one task, hook 1). *)
Definition ex_late : input :=
  mkIn [ [mkB 11 c2 101 0 false [] 0]; [mkB 21 c2 201 0 false [] 2]; [mkB 31 c3 301 0 false [] 0] ]%N
       [] [c2; c3] [OEnable 0; OEnable 2; OTick 0; OEnable 1; OTick 0; ODisable 0; OTick 0; OTickAll]%N.

Example C11_hm_hyp_met :
  ids_distinct (i_hooks ex_late) = true
  /\ map h_tasks (run_hm ex_late)
     = [ []; []; [task_of_binding 0 (mkB 11 c2 101 0 false [] 0)]; [];
         [task_of_binding 0 (mkB 11 c2 101 0 false [] 0); task_of_binding 1 (mkB 21 c2 201 0 false [] 2)]; [];
         [task_of_binding 1 (mkB 21 c2 201 0 false [] 2)];
         [task_of_binding 1 (mkB 21 c2 201 0 false [] 2); task_of_binding 2 (mkB 31 c3 301 0 false [] 0)] ]%N
  /\ map (fun o => o_cron (h_obs o)) (run_hm ex_late)
     = [ [(1, c2)]; [(1, c2); (2, c3)]; [(1, c2); (2, c3)]; [(1, c2); (2, c3)]; [(1, c2); (2, c3)];
         [(1, c2); (2, c3)]; [(1, c2); (2, c3)]; [(1, c2); (2, c3)] ]%N
  /\ (let ops := [OEnable 0; OEnable 2; OTick 0; OEnable 1; OTick 0; ODisable 0]%N in
      let st := fold_left (spec_step (i_hooks ex_late)) ops (spec_init (i_hooks ex_late)) in
      snd st = [false; true; true]
      /\ fires (valid_of (i_invalid ex_late)) (fst st) c2 = true
      /\ In (mkB 21 c2 201 0 false [] 2)%N (nth 1 (i_hooks ex_late) []))
  (* two histories with the same hooks enabled at the end *)
  /\ snd (fold_left (spec_step (i_hooks ex_late)) [OEnable 0; OTick 0; OEnable 1]%N (spec_init (i_hooks ex_late)))
     = snd (fold_left (spec_step (i_hooks ex_late)) [OEnable 1; OEnable 0]%N (spec_init (i_hooks ex_late))).
Proof.
  repeat split; try (vm_compute; reflexivity). vm_compute. now left.
Qed.

(* ---- the identity under which schedule bindings are registered (C11_Hm: hm_load, load_input,
   run_op; C11_HmSpec: B_from, P_op) ----
   The schedule manager counts the references to a crontab by the ids registered for it; the
   ids come from the hooks' configurations (pkg/hook/config: ConvertSchedule / ScheduleID).
   [hm_load hooks]: the hooks as loaded - every schedule binding of every hook with an id of
   its own; [load_input i] / [run_op i]: the case as the operator sees it and its run.
   Hooks may share binding names (unnamed bindings are all called "schedule"), positions in
   their schedule lists, crontabs, queues - anything. *)

(* the loader: one id per (hook, binding) - no two bindings of any hooks share one - and
   nothing else a binding is configured with is changed *)
Theorem C11_loaded_ids_one_per_hook_binding : forall hooks,
  NoDup (binding_ids (hm_load hooks))
  /\ map (map (set_id 0)) (hm_load hooks) = map (map (set_id 0)) hooks.
Proof. exact load_one_id_each_and_keeps. Qed.
Print Assumptions C11_loaded_ids_one_per_hook_binding.

(* the whole predicate P_op of the operator-level class - P_hm, and after every operation:
   a crontab has one cron entry iff it is parsable and some ENABLED (hook, binding) has it or an
   id registered for it by hand is still there, none otherwise - holds of the model on EVERY
   input: all configurations of hooks sharing names, positions, crontabs; all interleavings of
   enable / disable / add / remove / firings *)
Theorem C11_op_P_holds : forall i, P_op (load_input i) (run_op i) = true.
Proof. exact P_op_holds. Qed.
Print Assumptions C11_op_P_holds.

(* the same for any ids that are one per (hook, binding) *)
Theorem C11_op_P_holds_for_distinct_ids : forall i,
  NoDup (binding_ids (i_hooks i)) -> P_op i (run_hm i) = true.
Proof. exact P_op_holds_nodup. Qed.
Print Assumptions C11_op_P_holds_for_distinct_ids.

(* in words.  After ANY sequence of operations in which nobody adds or removes a binding's own
   (crontab, id) pair by hand ([no_meddling]; [en]: which hooks are enabled, [hand]: the pairs
   registered by hand): crontab c has a cron entry iff it is parsable and some enabled
   (hook, binding) has it (or an id registered by hand); and then exactly one *)
Theorem C11_entry_iff_some_enabled_hook_binding : forall i ops c,
  let s := fold_left (fun s o => fst (sys_step i s o)) ops (sys_init i) in
  let en := fold_left en_step ops (map (fun _ => false) (i_hooks i)) in
  let hand := fold_left hand_step ops [] in
  NoDup (binding_ids (i_hooks i)) -> no_meddling (i_hooks i) ops ->
  ((exists e, In (e, c) (cron (s_sm s)))
   <-> valid_of (i_invalid i) c = true
       /\ ((exists h b, nth h en false = true /\ In b (nth h (i_hooks i) []) /\ b_crontab b = c)
           \/ exists id, In (c, id) hand))
  /\ cron_count c (s_sm s)
     = (if valid_of (i_invalid i) c && (enabled_has c (i_hooks i) en || has_binding c hand) then 1 else 0)%nat.
Proof. exact entry_iff_enabled_binding. Qed.
Print Assumptions C11_entry_iff_some_enabled_hook_binding.

(* "keeps firing while at least one binding is registered": a binding of an enabled hook on a
   parsable crontab has its cron entry and gets its task in a round of firings, whichever hooks
   sharing that crontab - with bindings of the same name at the same position - were disabled
   meanwhile *)
Theorem C11_sharer_keeps_firing : forall i ops h b,
  let s := fold_left (fun s o => fst (sys_step i s o)) ops (sys_init i) in
  let en := fold_left en_step ops (map (fun _ => false) (i_hooks i)) in
  NoDup (binding_ids (i_hooks i)) -> no_meddling (i_hooks i) ops ->
  nth h en false = true -> In b (nth h (i_hooks i) []) ->
  valid_of (i_invalid i) (b_crontab b) = true ->
  cron_count (b_crontab b) (s_sm s) = 1%nat
  /\ In (task_of_binding (N.of_nat h) b) (hm_tasks (i_hooks i) (s_links s) (map snd (cron (s_sm s)))).
Proof. exact sharer_keeps_firing. Qed.
Print Assumptions C11_sharer_keeps_firing.

(* non-vacuity.  Three hooks as written in their configurations (the ids there are of no
   account: all 0).  Hooks 0 and 1 both have an UNNAMED FIRST binding on c2 (hook 1's in queue
   2); hook 2 has three unnamed bindings on c2, c3, c1 with different queue / allowFailure /
   group / snapshots.  Loaded, the six bindings have the ids 11..16.  Both sharers are enabled,
   hook 0 is disabled: c2 keeps its cron entry and its firing yields hook 1's task; hook 2 is
   enabled: a firing of c3 yields the task of ITS SECOND binding (queue 3, allowFailure, group
   5), not one made from a namesake; when hooks 1 and 2 are disabled too, c2 has no entry. *)
Definition ex_same : input :=
  mkIn [ [mkB 0 c2 0 0 false [] 0];
         [mkB 0 c2 0 0 false [] 2];
         [mkB 0 c2 0 0 false [] 1; mkB 0 c3 0 5 true [101] 3; mkB 0 c1 0 6 false [102] 0] ]%N
       [] [c1; c2; c3]
       [OEnable 0; OEnable 1; OTick 0; ODisable 0; OTick 0; OEnable 2; OFire c3; ODisable 1; ODisable 2; OTickAll]%N.

Example C11_op_hyp_met :
  loaded_ids ex_same = [[11]; [12]; [13; 14; 15]]%N
  /\ NoDup (binding_ids (i_hooks (load_input ex_same)))
  /\ no_meddling (i_hooks (load_input ex_same)) (i_ops ex_same)
  /\ map h_tasks (run_op ex_same)
     = [ []; [];
         [task_of_binding 0 (mkB 11 c2 0 0 false [] 0); task_of_binding 1 (mkB 12 c2 0 0 false [] 2)];
         []; [task_of_binding 1 (mkB 12 c2 0 0 false [] 2)];
         []; [task_of_binding 2 (mkB 14 c3 0 5 true [101] 3)];
         []; []; [] ]%N
  /\ map (fun o => o_cron (h_obs o)) (run_op ex_same)
     = [ [(1, c2)]; [(1, c2)]; [(1, c2)]; [(1, c2)]; [(1, c2)];
         [(1, c2); (2, c3); (3, c1)]; [(1, c2); (2, c3); (3, c1)]; [(1, c2); (2, c3); (3, c1)]; []; [] ]%N
  (* the hypotheses of C11_sharer_keeps_firing after [OEnable 0; OEnable 1; OTick 0; ODisable 0] *)
  /\ (let ops := [OEnable 0; OEnable 1; OTick 0; ODisable 0]%N in
      fold_left en_step ops (map (fun _ => false) (i_hooks (load_input ex_same))) = [false; true; false]
      /\ In (mkB 12 c2 0 0 false [] 2)%N (nth 1 (i_hooks (load_input ex_same)) [])
      /\ valid_of (i_invalid ex_same) c2 = true).
Proof.
  split; [vm_compute; reflexivity|]. split; [apply load_one_id_each|].
  split; [intros o Ho; vm_compute in Ho; repeat (destruct Ho as [<-|Ho]; [reflexivity|]); contradiction|].
  split; [vm_compute; reflexivity|]. split; [vm_compute; reflexivity|].
  split; [vm_compute; reflexivity|]. split; [vm_compute; now left | vm_compute; reflexivity].
Qed.

(* ---- where ScheduleManager.Start() falls in the history (C11_StartSpec, C11_StartProofs) ----
   [OSmStart] = sm.Start().  In the operator the main queue - whose EnableScheduleBindings tasks
   call Add - is started BEFORE ScheduleManager.Start(), and bindings are disabled and enabled
   again at any time.  [op] has OSmStart as one more operation, so EVERY theorem above that
   quantifies over [i] / [ops] (C11_P_holds, C11_round_one_task_per_binding, C11_hm_P_holds,
   C11_op_P_holds, C11_entry_iff_some_enabled_hook_binding, ...) speaks about all histories with
   Start() anywhere in them: crontabs added before Start, added and removed again before Start,
   several added in any order, the last binding of a crontab registered before Start removed
   after it, the crontab registered again. *)

(* the predicates of the two case classes with the tick clause - P resp. P_op, and: one tick of
   the runner while nothing is waiting delivers every parsable crontab with a registered id
   exactly once and no other string - hold of the model on EVERY input *)
Theorem C11_start_P_holds : forall i, P_start i (run_model i) = true.
Proof. exact P_start_holds. Qed.
Print Assumptions C11_start_P_holds.

Theorem C11_start_op_P_holds : forall i, P_op_start (load_input i) (run_op i) = true.
Proof. exact P_op_start_holds. Qed.
Print Assumptions C11_start_op_P_holds.

(* in words: after ANY history [pre ++ OSmStart :: post] the set of firing crontabs is exactly
   the set of parsable crontabs with a registered id ([fires], on the registry the Spec tracks),
   each delivered once per tick; entry ids are distinct; and state and registry are those of
   the same history without the Start() *)
Theorem C11_start_anywhere_fires_exactly_registered : forall i pre post c,
  let ops := pre ++ OSmStart :: post in
  let s := run_ops i ops (sys_init i) in
  let st := fold_left (spec_step (i_hooks i)) ops (spec_init (i_hooks i)) in
  count_recv c (map snd (cron (s_sm s))) = (if fires (valid_of (i_invalid i)) (fst st) c then 1 else 0)%nat
  /\ NoDup (map fst (cron (s_sm s)))
  /\ s = run_ops i (pre ++ post) (sys_init i)
  /\ st = fold_left (spec_step (i_hooks i)) (pre ++ post) (spec_init (i_hooks i)).
Proof. exact start_anywhere. Qed.
Print Assumptions C11_start_anywhere_fires_exactly_registered.

(* "stops when the last one is removed" / "keeps firing" at any moment of any history (Start()
   anywhere or nowhere): a crontab without a registered id has no entry in the runner; a
   parsable one with a registered id has exactly one *)
Theorem C11_stops_with_last_binding_and_restarts : forall i ops c,
  let s := run_ops i ops (sys_init i) in
  let reg := fst (fold_left (spec_step (i_hooks i)) ops (spec_init (i_hooks i))) in
  (has_binding c reg = false -> forall e, ~ In (e, c) (cron (s_sm s)))
  /\ (valid_of (i_invalid i) c = true -> has_binding c reg = true ->
      exists e, In (e, c) (cron (s_sm s)) /\ cron_count c (s_sm s) = 1%nat).
Proof. exact stops_and_restarts. Qed.
Print Assumptions C11_stops_with_last_binding_and_restarts.

(* the entries of the runner, in the order of registration, have strictly increasing ids after
   ANY history: listing a running runner's entries by id (it keeps them sorted by next
   activation time) is listing them in the order of registration *)
Theorem C11_cron_ids_increase : forall i ops,
  StronglySorted N.lt (map fst (cron (s_sm (run_ops i ops (sys_init i))))).
Proof. exact cron_ids_increase. Qed.
Print Assumptions C11_cron_ids_increase.

(* non-vacuity: the scenario of the operator's start-up.  Hook 0 enables and disables its
   binding (c1) before Start(), hook 1 enables its binding (c2) before Start(): c2's entry has
   id 2.  After Start() hook 1 disables: nothing fires; it enables again: one entry (id 3),
   one firing per tick, one task. *)
Definition ex_start : input :=
  mkIn [ [mkB 11 c1 101 0 false [] 0]; [mkB 21 c2 201 0 false [] 0] ]%N [] [c1; c2]
       [OEnable 0; ODisable 0; OEnable 1; OSmStart; OTickAll; ODisable 1; OTickAll; OEnable 1; OTickAll]%N.

Example C11_start_hyp_met :
  map o_cron (run_model ex_start)
  = [ [(1, c1)]; []; [(2, c2)]; [(2, c2)]; [(2, c2)]; []; []; [(3, c2)]; [(3, c2)] ]%N
  /\ map o_recv (run_model ex_start) = [ []; []; []; []; [c2]; []; []; []; [c2] ]
  /\ fst (fold_left (spec_step (i_hooks ex_start)) [OEnable 0; ODisable 0; OEnable 1; OSmStart; OTickAll; ODisable 1]%N
            (spec_init (i_hooks ex_start))) = []
  /\ has_binding c2 (fst (fold_left (spec_step (i_hooks ex_start)) (i_ops ex_start) (spec_init (i_hooks ex_start)))) = true
  /\ valid_of (i_invalid ex_start) c2 = true
  /\ P_start ex_start (run_model ex_start) = true.
Proof. repeat split; vm_compute; reflexivity. Qed.

(* ---- WHERE the tasks of a firing end up (C11_QModel, C11_QSpec, C11_QProofs) ----
   "... exactly one task for every enabled schedule binding with that crontab ... PLACED IN THAT
   BINDING'S QUEUE": a statement about the contents of the queues of the operator's TaskQueueSet
   after the events handler (ManagerEventsHandler.Start) has moved the tasks of the firing - for
   several enabled bindings, of one hook and of several, on the SAME crontab with DIFFERENT queue
   settings (main, named queues, two bindings sharing a named queue, one binding per queue), so
   that one firing makes one task per binding, each for another queue.
   [q_create hooks] = the queues bootstrapMainQueue and initAndStartHookQueues make; [q_handle] =
   the loop of the events handler (the queue is looked up for every task); [run_q] observes the
   contents of every queue after every operation. *)

(* the predicate of the queues class - everything P_op_start demands, and after every operation
   every queue holds what it held before followed, firing after firing, by exactly the tasks of
   the enabled bindings with the fired crontab whose queue it is (and every such binding's queue
   exists) - holds of the model on EVERY input: all configurations, all sequences of operations *)
Theorem C11_queues_P_holds : forall i, P_q (load_input i) (run_qop i) = true.
Proof. exact P_q_holds. Qed.
Print Assumptions C11_queues_P_holds.

(* the same for any case whose binding ids are distinct within each hook *)
Theorem C11_queues_Q_holds : forall i, ids_distinct (i_hooks i) = true -> Q i (run_q i) = true.
Proof. exact Q_holds. Qed.
Print Assumptions C11_queues_Q_holds.

(* in words: after ANY sequence of operations the queue named q - "main" or the queue of some
   binding, enabled or not - holds exactly those tasks of all firings handled so far
   ([fired_tasks]: per firing one task per binding with that crontab of the hooks enabled at that
   moment) whose binding names q, in the order of the firings, and nothing else; no other queue
   exists *)
Theorem C11_queue_holds_exactly_its_bindings_tasks : forall i ops q,
  ids_distinct (i_hooks i) = true ->
  q_lookup q (queues_after i (sys_init i) (q_create (i_hooks i)) ops)
  = if mem_N q (main_q :: map b_queue (concat (i_hooks i)))
    then Some (in_queue q (fired_tasks i (sys_init i) (spec_init (i_hooks i)) ops))
    else None.
Proof. exact queue_contents. Qed.
Print Assumptions C11_queue_holds_exactly_its_bindings_tasks.

(* no task ever sits in a queue it does not name, and the queue it sits in is the queue of one
   of the hooks' bindings *)
Theorem C11_no_task_in_a_foreign_queue : forall i ops q ts t,
  ids_distinct (i_hooks i) = true ->
  q_lookup q (queues_after i (sys_init i) (q_create (i_hooks i)) ops) = Some ts ->
  In t ts ->
  st_queue t = q /\ exists b, In b (concat (i_hooks i)) /\ b_queue b = q.
Proof. exact queue_holds_only_its_own. Qed.
Print Assumptions C11_no_task_in_a_foreign_queue.

(* [queues_after] is what the run observes after its last operation *)
Theorem C11_observed_queues_are_the_queues : forall i ops s m,
  last (map q_queues (run_q_from i s m ops)) m = queues_after i s m ops.
Proof. exact run_q_last. Qed.
Print Assumptions C11_observed_queues_are_the_queues.

(* moving the tasks of one firing: with distinct queue names each task is appended to the queue
   it names and to no other - whatever the other tasks of the same firing name *)
Theorem C11_each_task_of_a_firing_to_its_own_queue : forall ts m,
  NoDup (map fst m) ->
  q_place ts m = map (fun p => (fst p, snd p ++ in_queue (fst p) ts)) m.
Proof. exact q_place_closed. Qed.
Print Assumptions C11_each_task_of_a_firing_to_its_own_queue.

(* non-vacuity: hook 0 has a binding in "main" and one in queue 1, hook 1 one in queue 2, all on
   crontab c2.  One firing makes three tasks for three queues; after hook 0 is disabled a firing
   makes one.  The hypotheses are met, the queues hold what is said - and an observation in which
   the tasks of the first firing all sit in the queue of the first one is rejected by Q. *)
Definition ex_queues : input :=
  mkIn [ [mkB 11 c2 301 0 false [] 0; mkB 12 c2 302 0 false [] 1]; [mkB 13 c2 303 0 false [] 2] ]%N
       [] [c2] [OEnable 0; OEnable 1; OTick 0; ODisable 0; OTickAll]%N.
Definition ex_queues_bad : list qobs :=
  match run_q ex_queues with
  | a :: b :: c :: _ =>   (* the first three operations; the third observation altered *)
      [a; b; mkQobs (q_hobs c) [(0, h_tasks (q_hobs c)); (1, []); (2, [])]%N]
  | l => l
  end.

Example C11_queues_hyp_met :
  ids_distinct (i_hooks ex_queues) = true
  /\ NoDup (map fst (q_create (i_hooks ex_queues)))
  /\ map q_queues (run_q ex_queues)
     = (let t1 := task_of_binding 0 (mkB 11 c2 301 0 false [] 0) in
        let t2 := task_of_binding 0 (mkB 12 c2 302 0 false [] 1) in
        let t3 := task_of_binding 1 (mkB 13 c2 303 0 false [] 2) in
        [ [(0, []); (1, []); (2, [])]; [(0, []); (1, []); (2, [])];
          [(0, [t1]); (1, [t2]); (2, [t3])]; [(0, [t1]); (1, [t2]); (2, [t3])];
          [(0, [t1]); (1, [t2]); (2, [t3; t3])] ])%N
  /\ Q ex_queues (run_q ex_queues) = true
  /\ Q_from ex_queues (spec_init (i_hooks ex_queues)) (q_create (i_hooks ex_queues))
            [OEnable 0; OEnable 1; OTick 0]%N ex_queues_bad = false.
Proof.
  split; [vm_compute; reflexivity|]. split; [apply (proj1 (q_create_ok _))|].
  repeat split; vm_compute; reflexivity.
Qed.
