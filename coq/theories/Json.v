(* Json.v — one shared JSON value type for the models that handle JSON-shaped data
   (C09, C10, C13, C14).  Object members are an association list; the harness prints
   objects with keys sorted bytewise, and [json_eqb] compares structurally.
   Numbers: integers are [JNum z]; any other number is carried verbatim as [JFlt text]
   (never computed with, never compared as a float). *)
From Verif Require Import Common.

Inductive json :=
| JNull
| JBool (b : bool)
| JNum (z : Z)
| JFlt (text : bytes)
| JStr (s : bytes)
| JArr (l : list json)
| JObj (m : list (bytes * json)).

Fixpoint json_eqb (a b : json) {struct a} : bool :=
  match a, b with
  | JNull, JNull => true
  | JBool x, JBool y => Bool.eqb x y
  | JNum x, JNum y => Z.eqb x y
  | JFlt x, JFlt y => bytes_eqb x y
  | JStr x, JStr y => bytes_eqb x y
  | JArr x, JArr y =>
      (fix go (x y : list json) {struct x} : bool :=
         match x, y with
         | [], [] => true
         | u :: x', v :: y' => json_eqb u v && go x' y'
         | _, _ => false
         end) x y
  | JObj x, JObj y =>
      (fix go (x y : list (bytes * json)) {struct x} : bool :=
         match x, y with
         | [], [] => true
         | (k, u) :: x', (k', v) :: y' => bytes_eqb k k' && json_eqb u v && go x' y'
         | _, _ => false
         end) x y
  | _, _ => false
  end.

(* member lookup (first binding of the key) *)
Fixpoint assoc (k : bytes) (m : list (bytes * json)) : option json :=
  match m with
  | [] => None
  | (k', v) :: r => if bytes_eqb k k' then Some v else assoc k r
  end.

Definition jget (k : bytes) (j : json) : option json :=
  match j with JObj m => assoc k m | _ => None end.

Definition jkeys (j : json) : list bytes :=
  match j with JObj m => map fst m | _ => [] end.

(* insertion keeping keys sorted bytewise and unique (replaces an existing binding) *)
Fixpoint obj_set (k : bytes) (v : json) (m : list (bytes * json)) : list (bytes * json) :=
  match m with
  | [] => [(k, v)]
  | (k', v') :: r =>
      if bytes_eqb k k' then (k, v) :: r
      else if bytes_ltb k k' then (k, v) :: (k', v') :: r
      else (k', v') :: obj_set k v r
  end.

Fixpoint obj_del (k : bytes) (m : list (bytes * json)) : list (bytes * json) :=
  match m with
  | [] => []
  | (k', v') :: r => if bytes_eqb k k' then r else (k', v') :: obj_del k r
  end.

(* a stronger induction principle (the generated one ignores the nested lists) *)
Section json_ind2.
  Variable Pj : json -> Prop.
  Hypothesis Hnull : Pj JNull.
  Hypothesis Hbool : forall b, Pj (JBool b).
  Hypothesis Hnum : forall z, Pj (JNum z).
  Hypothesis Hflt : forall t, Pj (JFlt t).
  Hypothesis Hstr : forall s, Pj (JStr s).
  Hypothesis Harr : forall l, Forall Pj l -> Pj (JArr l).
  Hypothesis Hobj : forall m, Forall (fun kv => Pj (snd kv)) m -> Pj (JObj m).
  Fixpoint json_ind2 (j : json) : Pj j :=
    match j with
    | JNull => Hnull
    | JBool b => Hbool b
    | JNum z => Hnum z
    | JFlt t => Hflt t
    | JStr s => Hstr s
    | JArr l => Harr l ((fix go (l : list json) : Forall Pj l :=
                         match l with
                         | [] => @Forall_nil _ _
                         | x :: r => @Forall_cons _ _ x r (json_ind2 x) (go r)
                         end) l)
    | JObj m => Hobj m ((fix go (m : list (bytes * json)) : Forall (fun kv => Pj (snd kv)) m :=
                         match m with
                         | [] => @Forall_nil _ _
                         | kv :: r => @Forall_cons _ _ kv r (json_ind2 (snd kv)) (go r)
                         end) m)
    end.
End json_ind2.

Lemma bytes_eqb_refl b : bytes_eqb b b = true.
Proof. apply bytes_eqb_eq; reflexivity. Qed.

Lemma json_eqb_refl j : json_eqb j j = true.
Proof.
  induction j using json_ind2; simpl; auto using Bool.eqb_reflx, Z.eqb_refl, bytes_eqb_refl.
  - induction H as [|x l Hx _ IH]; [reflexivity|]. now rewrite Hx, IH.
  - induction H as [|[k v] m Hx _ IH]; [reflexivity|]. simpl in Hx. now rewrite bytes_eqb_refl, Hx, IH.
Qed.

Lemma json_eqb_eq a : forall c, json_eqb a c = true <-> a = c.
Proof.
  induction a as [| x | x | x | x | l H | m H] using json_ind2; intros c; destruct c; simpl; split; intros E;
    try discriminate; try reflexivity.
  - apply Bool.eqb_prop in E; now subst.
  - inversion E; apply Bool.eqb_reflx.
  - apply Z.eqb_eq in E; now subst.
  - inversion E; apply Z.eqb_refl.
  - apply bytes_eqb_eq in E; now subst.
  - inversion E; apply bytes_eqb_refl.
  - apply bytes_eqb_eq in E; now subst.
  - inversion E; apply bytes_eqb_refl.
  - f_equal. revert l0 E. induction H as [|x l Hx _ IH]; intros [|y l0] E; try discriminate; [reflexivity|].
    apply andb_true_iff in E as [E1 E2]. apply Hx in E1. apply IH in E2. now subst.
  - inversion E; subst. apply (json_eqb_refl (JArr l0)).
  - f_equal. revert m0 E. induction H as [|[k v] m Hx _ IH]; intros [|[k' v'] m0] E; try discriminate; [reflexivity|].
    apply andb_true_iff in E as [E12 E3]. apply andb_true_iff in E12 as [E1 E2].
    apply bytes_eqb_eq in E1. simpl in Hx. apply Hx in E2. apply IH in E3. now subst.
  - inversion E; subst. apply (json_eqb_refl (JObj m0)).
Qed.
