(* C09_WinProofs.v — proofs about the window model (C09_WinModel) and its contract (C09_WinSpec). *)
From Coq Require Import Lia.
From Verif Require Import Common Json C09_Model C09_Spec C09_Proofs C09_CopyProofs C09_WinModel C09_WinSpec.

(* ====================================================================================
   Part 1.  A saved entry is built from ONE delivery and never touched again: every Event
   file - handed out by the unlock or at once - renders the KubeEvent of one delivery.
   ==================================================================================== *)

Definition saved_ok (b : binding) (d : saved) : Prop :=
  match d with (t, w, ev) => ev = event_of b t w end.

Definition from_delivery (all : list wop) (d : saved) : Prop :=
  match d with (t, w, _) => In (WDeliver t w) all end.

Lemma handle_event_of b c t w c' ev : handle b c t w = (c', Some ev) -> ev = event_of b t w.
Proof. intros H. destruct (handle_event b c t w c' ev H) as [_ ->]. reflexivity. Qed.

Lemma win_run_events v b all : forall ops st,
  (forall op, In op ops -> In op all) ->
  Forall (fun d => saved_ok b d /\ from_delivery all d) (ws_buf st) ->
  forall x, In x (win_run v b st ops) -> wf_sync x = false ->
  exists t o c n, In (WDeliver t o) all /\ x = event_file v b c n (t, o, event_of b t o).
Proof.
  induction ops as [|op r IH]; intros st Hsub Hbuf x Hin Hs; [destruct Hin|].
  cbn [win_run] in Hin. destruct (win_step v b st op) as [st' fs] eqn:Hstep.
  apply in_app_or in Hin.
  assert (Hkey : Forall (fun d => saved_ok b d /\ from_delivery all d) (ws_buf st')
                 /\ forall y, In y fs -> wf_sync y = false ->
                      exists t o c n, In (WDeliver t o) all /\ y = event_file v b c n (t, o, event_of b t o)).
  { destruct op as [t w| |]; cbn [win_step] in Hstep.
    - destruct (handle b (ws_cache st) t w) as [c' ev] eqn:Hh. destruct ev as [ev|].
      + pose proof (handle_event_of _ _ _ _ _ _ Hh) as Hev.
        destruct (ws_enabled st); inversion Hstep; subst st' fs; cbn [ws_buf].
        * split; [exact Hbuf|]. intros y [<-|[]] _. exists t, w, c', (N.succ (ws_step st)).
          split; [apply Hsub; now left|]. now subst ev.
        * split; [|intros y []]. apply Forall_app. split; [exact Hbuf|].
          constructor; [|constructor]. split; [exact Hev|]. simpl. apply Hsub. now left.
      + inversion Hstep; subst st' fs. split; [exact Hbuf|intros y []].
    - destruct (b_sync b); inversion Hstep; subst st' fs; cbn [ws_buf].
      + split; [destruct (ws_enabled st); [exact Hbuf|constructor]|].
        intros y [<-|[]] Hy. discriminate Hy.
      + split; [exact Hbuf|intros y []].
    - destruct (ws_enabled st); inversion Hstep; subst st' fs; cbn [ws_buf].
      + split; [exact Hbuf|intros y []].
      + split; [constructor|]. intros y Hy _. apply in_map_iff in Hy as [[[t o] ev] [<- Hd]].
        rewrite Forall_forall in Hbuf. destruct (Hbuf _ Hd) as [Hok Hfrom]. simpl in Hok, Hfrom. subst ev.
        exists t, o, (ws_cache st), (ws_step st). split; [exact Hfrom|reflexivity]. }
  destruct Hkey as [Hb' Hfs]. destruct Hin as [Hin|Hin]; [now apply Hfs|].
  apply (IH st'); auto. intros o Ho. apply Hsub. now right.
Qed.

(* for ALL delivery sequences: every Event file of a window is the rendering of the KubeEvent built from
   one delivery of the history - its event type, its object, the jq answer for THAT object *)
Lemma win_event_from_one_delivery w x :
  In x (run_win w) -> wf_sync x = false ->
  exists t o c n, In (WDeliver t o) (wn_ops w)
                  /\ x = event_file (wn_version w) (wn_bind w) c n (t, o, event_of (wn_bind w) t o).
Proof.
  intros Hin Hs. unfold run_win in Hin.
  destruct (win_run_events (wn_version w) (wn_bind w) (wn_ops w ++ [WUnlock]) (wn_ops w ++ [WUnlock])
                           (win_init (wn_bind w) (wn_initial w)) (fun _ H => H) (Forall_nil _) x Hin Hs)
    as [t [o [c [n [Hd Hx]]]]].
  exists t, o, c, n. split; [|exact Hx].
  apply in_app_or in Hd as [Hd|[Hd|[]]]; [exact Hd|discriminate Hd].
Qed.

(* the single element of that KubeEvent is what applyFilter yields for the delivered object: the object
   (when full objects are kept) paired with the jq result of the same object *)
Lemma event_of_pairs b t o :
  ke_type (event_of b t o) = KEvent /\ ke_wevs (event_of b t o) = [t]
  /\ ke_objs (event_of b t o) = [(w_id o, ofr_of_item (spec_item b o))].
Proof. repeat split. Qed.

(* ====================================================================================
   Part 2.  The files of the model satisfy the window contract, outside the trigger of F8.
   ==================================================================================== *)

Definition wgood (b : binding) (w : wobj) : Prop := wobj_wf b w = true /\ wobj_trigger b w = false.

Definition opgood (b : binding) (op : wop) : Prop :=
  match op with WDeliver _ w => wgood b w | _ => True end.

Definition win_wf (w : win) : bool :=
  let b := wn_bind w in
  flow_wf (mkFlow (wn_version w) b [] [])         (* includeSnapshotsFrom sorted; a v0 config keeps full objects *)
  && forallb (wobj_wf b) (wn_initial w)
  && forallb (fun op => match op with WDeliver _ x => wobj_wf b x | _ => true end) (wn_ops w).

Lemma wgood_good b v w : wgood b w -> wobj_good b v w.
Proof. intros [H1 H2]. split; [exact H1|intros _; exact H2]. Qed.

Lemma wgood_jq b w : b_jq b = true -> wgood b w -> exists m, w_outs w = [JObj m] /\ sorted_strict m = true.
Proof.
  intros Ej [Hwf Ht]. unfold wobj_trigger, wobj_wf, spec_item in *. rewrite Ej in *.
  destruct (item_trigger_false_inv _ _ _ Ht) as [m Hm]. exists m. split; [exact Hm|].
  rewrite Hm in Hwf. simpl in Hwf. now rewrite andb_true_r in Hwf.
Qed.

Lemma json_eqb_arr1 x y : json_eqb (JArr [x]) (JArr [y]) = json_eqb x y.
Proof.
  apply Bool.eq_true_iff_eq. rewrite !json_eqb_eq. split; [intros H; now inversion H|intros ->; reflexivity].
Qed.

(* "the checksums are equal" = "the watched part is unchanged" *)
Lemma sum_eq b w0 w :
  wgood b w0 -> wgood b w ->
  json_eqb (en_sum (entry_of b w0)) (en_sum (entry_of b w)) = json_eqb (watched b w0) (watched b w).
Proof.
  intros H0 H. unfold watched. destruct (b_jq b) eqn:Ej.
  - destruct (wgood_jq b w0 Ej H0) as [m0 [E0 S0]]. destruct (wgood_jq b w Ej H) as [m [E S]].
    unfold entry_of, apply_filter_go. rewrite Ej, E0, E, (glue_single _ S0), (glue_single _ S).
    rewrite json_eqb_arr1. destruct (b_keep b); reflexivity.
  - unfold entry_of, apply_filter_go. rewrite Ej. destruct (b_keep b); reflexivity.
Qed.

Lemma aget_in A k (m : list (bytes * A)) v : aget k m = Some v -> exists k', In (k', v) m.
Proof.
  unfold aget. destruct (find _ m) as [[k' v']|] eqn:E; [|discriminate]. intros H. inversion H; subst.
  apply find_some in E as [E _]. now exists k'.
Qed.

(* handleWatchEvent fires exactly for the deliveries that pass the change filter, and what it fires is
   the KubeEvent of that delivery *)
Lemma handle_passes b a t w :
  Forall (fun p => wgood b (snd p)) a -> wgood b w ->
  handle b (img b a) t w
  = (img b (alive_step a (t, w)), if passes b a t w then Some (event_of b t w) else None).
Proof.
  intros Ha Hw. rewrite (surjective_pairing (handle b (img b a) t w)), handle_cache. f_equal.
  unfold handle.
  change (if b_keep b then apply_filter_go (b_jq b) w else remove_full_object (apply_filter_go (b_jq b) w))
    with (entry_of b w).
  rewrite entry_of_id, entry_of_ofr. unfold img. rewrite aget_vmap.
  unfold passes, should_fire, event_of, jqf_of.
  destruct t; cbn [snd].
  - now rewrite andb_false_r.
  - destruct (aget (w_id w) a) as [w0|] eqn:Eg.
    + destruct (aget_in _ _ _ _ Eg) as [k' Hin]. rewrite Forall_forall in Ha. specialize (Ha _ Hin). simpl in Ha.
      rewrite (sum_eq b w0 w Ha Hw).
      destruct (json_eqb (watched b w0) (watched b w)); cbn [negb]; [now rewrite andb_false_r|].
      rewrite andb_true_r. reflexivity.
    + rewrite andb_true_r. reflexivity.
  - destruct (aget (w_id w) a) as [w0|] eqn:Eg.
    + destruct (aget_in _ _ _ _ Eg) as [k' Hin]. rewrite Forall_forall in Ha. specialize (Ha _ Hin). simpl in Ha.
      rewrite (sum_eq b w0 w Ha Hw).
      destruct (json_eqb (watched b w0) (watched b w)); cbn [negb]; [now rewrite andb_false_r|].
      rewrite andb_true_r. reflexivity.
    + rewrite andb_true_r. reflexivity.
  - rewrite andb_true_r. reflexivity.
Qed.

Lemma passes_not_none b a t w : passes b a t w = true -> t <> WNone.
Proof. intros H ->. unfold passes in H. now rewrite andb_false_r in H. Qed.

(* ---- one file ---- *)

Lemma wf_incl v b : flow_wf (mkFlow v b [] []) = true -> canon_names (b_incl b) = b_incl b.
Proof.
  intros Hwf. apply canon_names_sorted. unfold flow_wf in Hwf. cbn [f_bind f_initial f_ops f_version] in Hwf.
  apply andb_true_iff in Hwf as [Hwf _]. apply andb_true_iff in Hwf as [Hwf _].
  now apply andb_true_iff in Hwf as [Hwf _].
Qed.

Lemma rejq_event_ok v b t o snaps :
  wgood b o ->
  rejq_ok (mkWfile false (event_rejq v b o)
                   (mkFobs 0 [] [] (render_list v [expected_ctx b KEvent t [o] snaps]))) = true.
Proof.
  intros Hw. unfold rejq_ok, event_rejq, shows_object_and_result. cbn [wf_rejq wf_file fo_out].
  destruct v; try reflexivity.
  destruct (b_jq b) eqn:Ej; [|reflexivity]. destruct (b_keep b) eqn:Ek; [|reflexivity].
  destruct (b_group b) as [|g0 gr] eqn:Eg; [|reflexivity]. cbn [andb is_nil].
  rewrite render_list_v1. cbn [map].
  destruct (wgood_jq b o Ej Hw) as [m [Em Sm]].
  set (c := expected_ctx b KEvent t [o] snaps).
  assert (He : is_event c = true) by (unfold is_event, c, expected_ctx; cbn; now rewrite Eg).
  assert (Ho : c_objects c = Stored (Some [JObj m]) true (w_obj o) :: []).
  { unfold c, expected_ctx, spec_item. cbn. now rewrite Ej, Ek, Em. }
  rewrite (object_iff_keep_event c _ _ _ _ He Ho), (filter_result_event c _ _ _ _ He Ho Sm), Em.
  cbn. apply (json_eqb_refl (JObj m)).
Qed.

Lemma wfile_event_ok v b a n t o :
  flow_wf (mkFlow v b [] []) = true -> inv b v a -> wgood b o -> t <> WNone ->
  P_wfile v b (mkExp a n (Some (t, o))) (event_file v b (img b a) n (t, o, event_of b t o)) = true.
Proof.
  intros Hwf [Hc [Hk Hok]] Hw Ht.
  pose proof (wf_incl v b Hwf) as Hincl.
  destruct (snapshots_resolved b a (b_incl b) Hc Hk) as [snaps [Hr [Hn [Hf Hm]]]].
  assert (Hctx : map (update_snapshots b (img b a)) (convert_kube_event b (event_of b t o))
                 = [norm_ctx (expected_ctx b KEvent t [o] snaps)]).
  { unfold event_of, convert_kube_event, update_snapshots, norm_ctx, expected_ctx, include_from; simpl.
    rewrite bytes_eqb_refl, Hm. reflexivity. }
  pose proof (rejq_event_ok v b t o snaps Hw) as Hrejq.
  unfold P_wfile, event_file, file_of.
  cbn [wf_file wf_sync fo_step fo_ids fo_snaps fo_out ex_alive ex_step ex_event].
  rewrite Hctx, render_list_norm1. rewrite N.eqb_refl.
  unfold include_from. rewrite bytes_eqb_refl, Hincl.
  rewrite map_map. simpl. rewrite map_id, list_eqb_refl by apply bytes_eqb_refl. simpl.
  rewrite Hr. rewrite bytes_eqb_refl. simpl.
  destruct (expected_ctx_ok (mkFlow v b [] []) a KEvent t [o] snaps Hwf Hok) as [H1 H2].
  - right. constructor; [apply (wgood_good b v o Hw)|constructor].
  - exact Hf.
  - exact Hn.
  - right. split; [reflexivity|]. split; [exact Ht|now exists o].
  - cbn [f_bind f_version] in H1, H2. rewrite H1, H2. simpl.
    unfold rejq_ok in *. cbn [wf_rejq wf_file fo_out] in *. exact Hrejq.
Qed.

Lemma wfile_sync_ok v b a n :
  flow_wf (mkFlow v b [] []) = true -> inv b v a ->
  P_wfile v b (mkExp a n None) (mkWfile true None (file_of v b (img b a) n (mkKev KSync [] []))) = true.
Proof.
  intros Hwf [Hc [Hk Hok]].
  pose proof (wf_incl v b Hwf) as Hincl.
  destruct (snapshots_resolved b a (b_incl b) Hc Hk) as [snaps [Hr [Hn [Hf Hm]]]].
  destruct (snapshot_resolved b a (b_name b) Hc Hk) as [ws [Hw [Hwf' Hi]]].
  assert (Hctx : map (update_snapshots b (img b a)) (convert_kube_event b (mkKev KSync [] []))
                 = [norm_ctx (expected_ctx b KSync WNone ws snaps)]).
  { unfold convert_kube_event, update_snapshots, norm_ctx, expected_ctx, include_from; simpl.
    rewrite bytes_eqb_refl, Hm, Hi. reflexivity. }
  unfold P_wfile, file_of.
  cbn [wf_file wf_sync fo_step fo_ids fo_snaps fo_out ke_type ke_objs ke_wevs ex_alive ex_step ex_event].
  rewrite Hctx, render_list_norm1. rewrite N.eqb_refl.
  unfold include_from. rewrite bytes_eqb_refl, Hincl.
  rewrite map_map. simpl. rewrite map_id, list_eqb_refl by apply bytes_eqb_refl. simpl.
  rewrite Hr, Hw.
  destruct (expected_ctx_ok (mkFlow v b [] []) a KSync WNone ws snaps Hwf Hok) as [H1 H2].
  - left. exact Hwf'.
  - exact Hf.
  - exact Hn.
  - left. split; reflexivity.
  - cbn [f_bind f_version] in H1, H2. now rewrite H1, H2.
Qed.

(* ---- the simulation between the model's state and the specification's ---- *)

Definition entry_for (b : binding) (p : wevent * wobj) : saved := (fst p, snd p, event_of b (fst p) (snd p)).

Record sim (b : binding) (v : version) (st : wstate) (s : sst) : Prop := mkSim {
  sim_cache : ws_cache st = img b (ss_alive s);
  sim_buf : ws_buf st = map (entry_for b) (ss_pending s);
  sim_en : ws_enabled st = ss_unlocked s;
  sim_step : ws_step st = ss_step s;
  sim_inv : inv b v (ss_alive s);
  sim_good : Forall (fun p => wgood b (snd p)) (ss_alive s);
  sim_pend : Forall (fun p => wgood b (snd p) /\ fst p <> WNone) (ss_pending s) }.

Lemma good_step b a t w :
  Forall (fun p => wgood b (snd p)) a -> wgood b w -> Forall (fun p => wgood b (snd p)) (alive_step a (t, w)).
Proof.
  intros Ha Hw. unfold alive_step. simpl.
  destruct t; [exact Ha | now apply Forall_aset | now apply Forall_aset | now apply Forall_adel].
Qed.

Lemma forall2b_app A B (f : A -> B -> bool) l1 m1 l2 m2 :
  forall2b f l1 m1 = true -> forall2b f l2 m2 = true -> forall2b f (l1 ++ l2) (m1 ++ m2) = true.
Proof.
  revert m1. induction l1 as [|x l1 IH]; intros [|y m1] H1 H2; simpl in *; try discriminate; [exact H2|].
  apply andb_true_iff in H1 as [Hx H1]. rewrite Hx. simpl. now apply IH.
Qed.

Lemma flushed_ok v b a n pend :
  flow_wf (mkFlow v b [] []) = true -> inv b v a ->
  Forall (fun p => wgood b (snd p) /\ fst p <> WNone) pend ->
  forall2b (P_wfile v b) (map (fun d => mkExp a n (Some d)) pend)
           (map (event_file v b (img b a) n) (map (entry_for b) pend)) = true.
Proof.
  intros Hwf Hinv. induction 1 as [|[t o] pend [Hg Hn] _ IH]; [reflexivity|].
  cbn [map forall2b]. rewrite IH, andb_true_r. unfold entry_for. cbn [fst snd] in *.
  now apply wfile_event_ok.
Qed.

Lemma win_run_ok v b :
  flow_wf (mkFlow v b [] []) = true ->
  forall ops st s, sim b v st s -> Forall (opgood b) ops ->
    forall2b (P_wfile v b) (spec_run b s ops) (win_run v b st ops) = true.
Proof.
  intros Hwf. induction ops as [|op r IH]; intros st s Hsim Hops; [reflexivity|].
  inversion Hops as [|? ? Hop Hr]; subst.
  destruct Hsim as [Hc Hb He Hn Hinv Hg Hp].
  cbn [spec_run win_run].
  destruct op as [t w| |]; cbn [win_step spec_step].
  - simpl in Hop. rewrite Hc, (handle_passes b (ss_alive s) t w Hg Hop), He, Hn.
    set (a' := alive_step (ss_alive s) (t, w)).
    assert (Hinv' : inv b v a') by (apply inv_step; [exact Hinv|now apply wgood_good]).
    assert (Hg' : Forall (fun p => wgood b (snd p)) a') by (now apply good_step).
    destruct (passes b (ss_alive s) t w) eqn:Ep.
    + destruct (ss_unlocked s) eqn:Eu.
      * apply (forall2b_app _ _ _ [_] [_]).
        -- cbn [forall2b]. rewrite andb_true_r. apply wfile_event_ok; auto. now apply (passes_not_none b (ss_alive s) t w).
        -- apply IH; [|exact Hr]. constructor; cbn; auto.
      * cbn [app]. apply IH; [|exact Hr]. constructor; cbn; auto.
        -- rewrite Hb, map_app. reflexivity.
        -- apply Forall_app. split; [exact Hp|]. constructor; [|constructor]. cbn. split; [exact Hop|].
           now apply (passes_not_none b (ss_alive s) t w).
    + cbn [app]. apply IH; [|exact Hr]. constructor; cbn; auto.
  - destruct (b_sync b).
    + apply (forall2b_app _ _ _ [_] [_]).
      * cbn [forall2b]. rewrite andb_true_r, Hc, Hn. now apply wfile_sync_ok.
      * apply IH; [|exact Hr]. constructor; cbn; auto.
        -- rewrite He. destruct (ss_unlocked s); [exact Hb|reflexivity].
        -- destruct (ss_unlocked s); [exact Hp|constructor].
    + cbn [app]. apply IH; [|exact Hr]. constructor; auto.
  - rewrite He. destruct (ss_unlocked s) eqn:Eu.
    + cbn [app]. apply IH; [|exact Hr]. constructor; auto; congruence.
    + apply forall2b_app.
      * rewrite Hc, Hb, Hn. now apply flushed_ok.
      * apply IH; [|exact Hr]. constructor; cbn; auto.
Qed.

Lemma good_init b ws :
  Forall (wgood b) ws -> Forall (fun p => wgood b (snd p)) (alive_init ws).
Proof.
  unfold alive_init. intros H.
  assert (G : forall a, Forall (fun p => wgood b (snd p)) a ->
                        Forall (fun p => wgood b (snd p)) (fold_left (fun a w => aset (w_id w) w a) ws a)).
  { induction H as [|w ws Hw _ IH]; intros a Ha; simpl; [exact Ha|]. apply IH. now apply Forall_aset. }
  apply G. constructor.
Qed.

Lemma win_objs_good w :
  win_wf w = true -> T_win w = false ->
  Forall (wgood (wn_bind w)) (wn_initial w) /\ Forall (opgood (wn_bind w)) (wn_ops w).
Proof.
  unfold win_wf, T_win. intros Hwf Ht.
  apply andb_true_iff in Hwf as [Hwf Hops]. apply andb_true_iff in Hwf as [_ Hini].
  apply orb_false_iff in Ht as [T1 T2].
  rewrite forallb_forall in Hini, Hops.
  split; apply Forall_forall; intros x Hx.
  - split; [auto|]. destruct (wobj_trigger (wn_bind w) x) eqn:E; [|reflexivity].
    assert (existsb (wobj_trigger (wn_bind w)) (wn_initial w) = true) by (apply existsb_exists; eauto). congruence.
  - destruct x as [t o| |]; simpl; auto. split; [apply (Hops _ Hx)|].
    destruct (wobj_trigger (wn_bind w) o) eqn:E; [|reflexivity].
    assert (existsb (wop_trigger (wn_bind w)) (wn_ops w) = true) by (apply existsb_exists; exists (WDeliver t o); auto).
    congruence.
Qed.

(* every file the model produces for a well-formed window conforms - the right number of files, in the
   right order, each the documented context of its own delivery - outside the trigger of F8 *)
Lemma win_contract_partial w :
  win_wf w = true -> T_win w = false -> P_win w (Some (run_win w)) = true.
Proof.
  intros Hwf Ht. destruct (win_objs_good w Hwf Ht) as [Hini Hops].
  unfold P_win, expected_files, run_win, win_init.
  assert (Hf : flow_wf (mkFlow (wn_version w) (wn_bind w) [] []) = true).
  { unfold win_wf in Hwf. apply andb_true_iff in Hwf as [Hwf _]. now apply andb_true_iff in Hwf as [Hwf _]. }
  apply (win_run_ok _ _ Hf).
  - constructor; cbn; auto.
    + apply (load_existing_img (wn_bind w) (wn_initial w) []).
    + apply inv_init. apply Forall_forall. intros x Hx. rewrite Forall_forall in Hini. now apply wgood_good, Hini.
    + now apply good_init.
  - apply Forall_app. split; [exact Hops|]. constructor; [exact I|constructor].
Qed.

(* ---- the window as the correspondence evaluates it: every object through ApplyFilter's copy ---- *)

Lemma win_via_id w : win_canon w = true -> win_via w = w.
Proof.
  unfold win_canon, win_via. intros H. apply andb_true_iff in H as [Hi Ho].
  rewrite (map_id_on _ wobj_run wobj_canon _ wobj_run_id Hi).
  rewrite (map_id_on _ wop_run (fun op => match op with WDeliver _ x => wobj_canon x | _ => true end) (wn_ops w)).
  - now destruct w.
  - intros [t x| |] Hx; try reflexivity. cbn [wop_run]. now rewrite (wobj_run_id _ Hx).
  - exact Ho.
Qed.

Lemma win_contract_via_copy w :
  win_canon w = true -> win_wf w = true -> T_win w = false -> P_win w (Some (run_win (win_via w))) = true.
Proof. intros Hc. rewrite (win_via_id _ Hc). apply win_contract_partial. Qed.

(* the full statement is false of the faithful model on the trigger of F8: jqFilter .data.v (a number) -
   the stored projection is {} both times, the second modification is not handed out at all *)
Definition win_full_statement : Prop :=
  forall w, win_wf w = true -> P_win w (Some (run_win w)) = true.

(* ---- witnesses ---- *)
Module WitWin.
Import String.
Local Open Scope string_scope.
Local Open Scope Z_scope.

(* ConfigMap cm-1 whose .data is {"v": n} and whose spec is {"r": r}; jqFilter .data *)
Definition cmw (n r : Z) : wobj :=
  mkWobj (bs "default") (bs "cm-1") (bs "default/ConfigMap/cm-1")
         (JObj [(bs "data", JObj [(bs "v", JNum n)]); (bs "spec", JObj [(bs "r", JNum r)])])
         [JObj [(bs "v", JNum n)]].

Definition bind_data : binding :=
  mkBinding (bs "cms") true true [WAdded; WModified; WDeleted] [] [] true.

(* cm-1 exists; the Synchronization hook runs; cm-1 is modified three times in a row while the events are
   locked - the second time outside the part the filter selects -; the unlock *)
Definition example_win : win :=
  mkWin V1 bind_data [cmw 1 0] [WSync; WDeliver WModified (cmw 2 0); WDeliver WModified (cmw 2 1); WDeliver WModified (cmw 3 1)].

Definition item_of (n r : Z) : json :=
  JObj [(k_binding, JStr (bs "cms")); (k_filterResult, JObj [(bs "v", JNum n)]);
        (k_object, w_obj (cmw n r)); (k_type, JStr s_Event); (k_watchEvent, JStr s_Modified)].

Lemma example_win_ok :
  win_wf example_win = true /\ T_win example_win = false
  /\ map (fun x => (wf_sync x, fo_step (wf_file x))) (run_win example_win) = [(true, 0%N); (false, 3%N); (false, 3%N)]
  /\ map (fun x => fo_out (wf_file x)) (skipn 1 (run_win example_win))
     = [Some (JArr [item_of 2 0]); Some (JArr [item_of 3 1])].
Proof. vm_compute. repeat split. Qed.

(* the collapsed buffer - one Modified file whose object is the newest state and whose filterResult
   belongs to the first modification - is rejected *)
Definition collapsed_obs : list wfile :=
  match run_win example_win with
  | s :: _ =>
      [s; mkWfile false (Some [JObj [(bs "v", JNum 3)]])
                  (mkFobs 3 [bs "default/ConfigMap/cm-1"] []
                          (Some (JArr [JObj [(k_binding, JStr (bs "cms")); (k_filterResult, JObj [(bs "v", JNum 2)]);
                                             (k_object, w_obj (cmw 3 1)); (k_type, JStr s_Event);
                                             (k_watchEvent, JStr s_Modified)]])))]
  | [] => []
  end.

Lemma collapsed_rejected :
  List.length collapsed_obs = 2%nat /\ P_win example_win (Some collapsed_obs) = false
  /\ forallb rejq_ok collapsed_obs = false.
Proof. vm_compute. repeat split. Qed.

(* F8 in a window: jqFilter .data.v yields a number; the informer stores {} for every state, so no
   modification ever passes its checksum comparison *)
Definition cms (n : Z) : wobj :=
  mkWobj (bs "default") (bs "cm-1") (bs "default/ConfigMap/cm-1")
         (JObj [(bs "data", JObj [(bs "v", JNum n)])]) [JNum n].

Definition witness_win_F8 : win :=
  mkWin V1 bind_data [cms 1] [WDeliver WModified (cms 2)].

Lemma win_refuted :
  win_wf witness_win_F8 = true /\ T_win witness_win_F8 = true
  /\ P_win witness_win_F8 (Some (run_win witness_win_F8)) = false.
Proof. vm_compute. repeat split. Qed.

End WitWin.
