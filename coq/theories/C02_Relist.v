(* C02_Relist.v — changes the operator learns about through a RE-LIST instead of a watch event
   (client-go: Reflector.ListAndWatch, DeltaFIFO.Replace, sharedIndexInformer.HandleDeltas;
   resource_informer.go: OnAdd / OnUpdate / OnDelete -> handleWatchEvent).

   Every informer of a monitor is a client-go shared informer: a reflector (LIST, then WATCH) that
   feeds a store (the indexer: client-go's own picture of the informer's scope), and the handler
   resourceInformer whose cachedObjects the snapshots are read from.  While the watch connection
   works, every change of an object of the scope is one watch event: the store and the handler's
   cache follow it (Added / Modified replace or add the entry, Deleted removes it).

   A WATCH OUTAGE: the connection drops; objects are created / modified / deleted - nobody sees
   it; the reflector cannot resume (410 Gone) and LISTS again.  DeltaFIFO.Replace compares the
   list with what the STORE knows and the shared informer hands the difference to the handler in
   the form client-go uses:
     - every listed object whose key the store holds:  OnUpdate(old, new)  -> handleWatchEvent(new, Modified)
     - every listed object whose key the store lacks:   OnAdd(new, false)   -> handleWatchEvent(new, Added)
     - every key of the store the list does not hold:   OnDelete(cache.DeletedFinalStateUnknown{Key, Obj})
       - the tombstone, handed over BY VALUE, Obj = the last state the store knew;
       handleWatchEvent unwraps it (`object.(cache.DeletedFinalStateUnknown)`) and removes the
       entry of Obj's namespace/name from cachedObjects;
   the store becomes the list.  (An OnUpdate whose resourceVersion did not change goes only to
   handlers that asked for a resync; it carries the content the cache already holds - delivering
   it or not gives the same cache; the model delivers it.)

   A history (ri_steps): object changes delivered by the watch (RObj), outages with the changes
   that happen inside them (ROut), and reads of the snapshot at quiet points (RRead); one more
   read at the end.  Static bindings (ri_dyn = false): ri_nss = namespace.nameSelector ([] = all
   namespaces); namespace.labelSelector bindings (ri_dyn = true): ri_nss = the namespaces that
   carry the label, throughout the history (namespaces changing their labels: C02_Model section 3)
   - CreateInformers puts the informers of exactly these namespaces into VaryingInformers;
   ri_names = nameSelector.matchNames ([] = any name); both may repeat entries.
   No proofs here. *)
From Verif Require Import Common C02_Model.
Open Scope N_scope.

Inductive rstep :=
| RObj (op : okind * obj)                 (* one change, seen as a watch event *)
| ROut (inner : list (okind * obj))       (* a watch outage: these changes are seen through the re-list only *)
| RRead.                                  (* the cluster is quiet: the snapshot is read *)

Record rl_in := mkRlIn {
  ri_dyn : bool;
  ri_nss : list N; ri_names : list N; ri_initial : list obj;
  ri_steps : list rstep;
  ri_filter : bool; ri_keep : bool
}.

(* the changes of the cluster a history prefix contains, whoever saw them *)
Definition flat_ops (steps : list rstep) : list (okind * obj) :=
  flat_map (fun st => match st with RObj op => [op] | ROut inner => inner | RRead => [] end) steps.

(* the binding and the cluster's history up to a point as a snap_in (scopes, shown, final_cluster) *)
Definition rl_at (i : rl_in) (pre : list rstep) : snap_in :=
  mkSnapIn (ri_nss i) (ri_names i) (ri_initial i) (flat_ops pre) None false (ri_filter i) (ri_keep i).

Definition rl_cluster0 (i : rl_in) : list obj := fold_left (fun c o => cl_set o c) (ri_initial i) [].

(* what the shared informer hands to the handler *)
Inductive delivery :=
| DAdd (o : obj)                          (* OnAdd(o) *)
| DUpd (old new : obj)                    (* OnUpdate(old, new) *)
| DDel (o : obj)                          (* OnDelete(o): a DELETED watch event, *unstructured.Unstructured *)
| DTomb (o : obj).                        (* OnDelete(cache.DeletedFinalStateUnknown{Key, Obj: o}), by value *)

(* handleWatchEvent: Added / Modified replace or add the entry; Deleted removes it - the
   tombstone is unwrapped first *)
Definition handle (cache : list obj) (d : delivery) : list obj :=
  match d with
  | DAdd o => cl_set o cache
  | DUpd _ o => cl_set o cache
  | DDel o => cl_del o cache
  | DTomb o => cl_del o cache
  end.

Definition find_key (o : obj) (l : list obj) : option obj := find (same_key o) l.
Definition has_key_in (o : obj) (l : list obj) : bool := existsb (same_key o) l.

(* DeltaFIFO.Replace + HandleDeltas: the listed objects first, then the tombstones of the keys
   the store knows and the list lacks *)
Definition relist_deliveries (store listed : list obj) : list delivery :=
  map (fun o => match find_key o store with Some old => DUpd old o | None => DAdd o end) listed
  ++ map DTomb (filter (fun o => negb (has_key_in o listed)) store).

(* one watch event of an object of the scope *)
Definition watch_delivery (store : list obj) (op : okind * obj) : list delivery :=
  match fst op with
  | ODelete => [DDel (snd op)]    (* (deleting what does not exist is no event: DDel of a key the cache lacks changes nothing) *)
  | _ => [match find_key (snd op) store with Some old => DUpd old (snd op) | None => DAdd (snd op) end]
  end.

(* one informer: the cluster, the reflector's store, the handler's cachedObjects *)
Record ist := mkIst { i_cl : list obj; i_store : list obj; i_cache : list obj }.

Definition inf_init (s : option N * option N) (cl : list obj) : ist :=
  mkIst cl (filter (in_scope s) cl) (filter (in_scope s) cl).

Definition inf_step (s : option N * option N) (st : ist) (step : rstep) : ist :=
  match step with
  | RObj op =>
      if in_scope s (snd op)
      then mkIst (cl_apply (i_cl st) op) (cl_apply (i_store st) op)
                 (fold_left handle (watch_delivery (i_store st) op) (i_cache st))
      else mkIst (cl_apply (i_cl st) op) (i_store st) (i_cache st)
  | ROut inner =>
      let cl' := fold_left cl_apply inner (i_cl st) in
      let listed := filter (in_scope s) cl' in
      mkIst cl' listed (fold_left handle (relist_deliveries (i_store st) listed) (i_cache st))
  | RRead => st
  end.

Definition inf_run (i : rl_in) (s : option N * option N) (pre : list rstep) : ist :=
  fold_left (inf_step s) pre (inf_init s (rl_cluster0 i)).

(* the informers: one per (namespace, name); a labelSelector binding without a labelled namespace
   has none (a static binding without namespaces has the all-namespaces ones) *)
Definition rl_scopes (i : rl_in) (pre : list rstep) : list (option N * option N) :=
  match ri_nss i with
  | [] => if ri_dyn i then [] else scopes (rl_at i pre)
  | _ => scopes (rl_at i pre)
  end.

(* Snapshot() after a history prefix: the caches, sorted *)
Definition rl_caches (i : rl_in) (pre : list rstep) : list obj :=
  flat_map (fun s => i_cache (inf_run i s pre)) (rl_scopes i pre).
Definition rl_snapshot (i : rl_in) (pre : list rstep) : list obj := sort_objs (rl_caches i pre).
Definition rl_view (i : rl_in) (pre : list rstep) : list view := map (shown (rl_at i pre)) (rl_snapshot i pre).

(* the points at which the snapshot is read: before every RRead, and at the end *)
Fixpoint read_points (done todo : list rstep) : list (list rstep) :=
  match todo with
  | [] => [done]
  | RRead :: r => done :: read_points (done ++ [RRead]) r
  | x :: r => read_points (done ++ [x]) r
  end.

Definition rl_views (i : rl_in) : list (list view) := map (rl_view i) (read_points [] (ri_steps i)).
