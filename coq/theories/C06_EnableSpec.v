(* C06_EnableSpec.v — what the text of C06 says about ONE hook's EnableKubernetesBindings
   task whose monitor creations fail a finite number of times:
   "each kubernetes binding's Synchronization is delivered once [...] in the main queue, before
    any Event of that binding", quantified over "any of the startup executions failing a
    finite number of times".
   Over the observations of C06_Enable (one record per run of the task handler, then the
   probe of every binding):
   (1) the task succeeds in the end (the harness runs it once more than the pattern has failures);
   (2) the tasks that reach the queue (HeadTasks of successful runs) are exactly one per
       kubernetes binding: for every binding exactly one task names its monitor, and that
       task is a HookRun task of this hook for the main queue with one Synchronization
       context of that binding, carrying the binding's group and executeHookOnSynchronization
       (they decide "one Group execution" / "none is delivered") - and there is no other task;
   (3) no Event of a binding is emitted before the unlock that its Synchronization performs.
   Nothing else (order of the tasks, allowFailure, what a failed run leaves behind) is demanded
   here: the correspondence compares those with the model. *)
From Verif Require Import Common Op_Model Op_Corr C06_Enable.
Open Scope N_scope.

Definition names_monitor (m : N) (t : task) : bool := mem_N m (t_mids t).

Definition is_sync_of (h : hook) (b : kbinding) (t : task) : bool :=
  ttype_eqb (t_type t) HookRun && N.eqb (t_hook t) (h_id h) && btype_eqb (t_btype t) BKube
  && list_eqb ctx_eqb (t_ctxs t) [mkCtx (kb_name b) KSync (kb_group b) 0]
  && N.eqb (t_group t) (kb_group b) && Bool.eqb (t_execsync t) (kb_execsync b)
  && list_eqb N.eqb (t_mids t) [kb_mon b] && N.eqb (t_queue t) 0.

Definition binding_ok (h : hook) (heads : list task) (b : kbinding) : bool :=
  match filter (names_monitor (kb_mon b)) heads with
  | [t] => is_sync_of h b t
  | _ => false
  end.

Definition P_enable (h : hook) (atts : list attempt) (probe : option (list (list N * list N))) : bool :=
  let heads := heads_of atts in
  (match h_kube h with [] => true | _ => existsb at_ok atts end)                         (* 1 *)
  && forallb (binding_ok h heads) (h_kube h)                                              (* 2 *)
  && Nat.eqb (length heads) (length (h_kube h))
  && match probe with                                                                     (* 3 *)
     | Some pr => forallb (fun p => match fst p with [] => true | _ => false end) pr
     | None => true
     end.
