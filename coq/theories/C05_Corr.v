(* C05_Corr.v — correspondence vocabulary for C05: a case is a sequence of (possibly observer-
   overlapped) operations together with the observations the implementation produced.
   Evaluated by vm_compute in the generated cases files. *)
From Verif Require Import Common C05_Model C05_Spec.

Definition case := (list xop * list xobs)%type.

Definition obs_eqb (a b : obs) : bool :=
  list_eqb otask_eqb (o_items a) (o_items b)
  && N.eqb (o_len a) (o_len b)
  && otask_eqb (o_first a) (o_first b)
  && otask_eqb (o_last a) (o_last b)
  && list_eqb otask_eqb (o_gets a) (o_gets b)
  && otask_eqb (o_running a) (o_running b)
  && otask_eqb (o_ret a) (o_ret b)
  && Bool.eqb (o_crash a) (o_crash b).

Definition xobs_eqb (a b : xobs) : bool :=
  obs_eqb (x_obs a) (x_obs b)
  && list_eqb otask_eqb (x_walk a) (x_walk b)
  && list_eqb otask_eqb (x_rets a) (x_rets b).

Definition model_obs (c : case) : list xobs := xrun (fst c).
Definition agrees (c : case) : bool := list_eqb xobs_eqb (model_obs c) (snd c).

Definition mismatches (cs : list case) : list N := indices_where (fun c => negb (agrees c)) cs.
Definition spec_violations (cs : list case) : list N :=
  indices_where (fun c => negb (XP (fst c) (snd c))) cs.
Definition trigger_F14 (cs : list case) : list N := indices_where (fun c => XT (fst c)) cs.
