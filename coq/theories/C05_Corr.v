(* C05_Corr.v — correspondence vocabulary for C05: a case is an op sequence together
   with the observations the implementation produced.  Evaluated by vm_compute in the
   generated cases files. *)
From Verif Require Import Common C05_Model C05_Spec.

Definition case := (list op * list obs)%type.

Definition obs_eqb (a b : obs) : bool :=
  list_eqb otask_eqb (o_items a) (o_items b)
  && N.eqb (o_len a) (o_len b)
  && otask_eqb (o_first a) (o_first b)
  && otask_eqb (o_last a) (o_last b)
  && list_eqb otask_eqb (o_gets a) (o_gets b)
  && otask_eqb (o_running a) (o_running b)
  && otask_eqb (o_ret a) (o_ret b)
  && Bool.eqb (o_crash a) (o_crash b).

Definition model_obs (c : case) : list obs := run (fst c).
Definition agrees (c : case) : bool := list_eqb obs_eqb (model_obs c) (snd c).

Definition mismatches (cs : list case) : list N := indices_where (fun c => negb (agrees c)) cs.
Definition spec_violations (cs : list case) : list N :=
  indices_where (fun c => negb (P (fst c) (snd c))) cs.
Definition trigger_F14 (cs : list case) : list N := indices_where (fun c => T (fst c)) cs.
