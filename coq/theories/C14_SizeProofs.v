(* C14_SizeProofs.v — the answer at full size: identity on warnings / patch / message, for all lists
   of all byte strings. *)
From Verif Require Import Common C14_Model C14_Spec C14_Proofs C14_SizeModel C14_SizeSpec.

(* the log helper leaves the response as it is *)
Lemma dump_step_preserves r : snd (dump_step r) = r.
Proof. reflexivity. Qed.

Lemma size_task_ok r : size_task true (SResp r) = mkSTask false (Some r) (Some (dump_text r)).
Proof. reflexivity. Qed.

Lemma size_review_eq hooks path uid ez f :
  size_review hooks path uid ez f =
  match find_task hooks (fst (detect path)) (snd (detect path)) with
  | None => (mkSReview uid false 500 (SMClass AMNoHook) [] [] false, None)
  | Some x => (sanswer_of_task uid (size_task ez f), Some x)
  end.
Proof.
  unfold size_review. destruct (detect path) as [conf id]. cbn [fst snd].
  destruct (find_task hooks conf id) as [[h l]|]; reflexivity.
Qed.

(* the answer of a run that went through is the response file's content, field by field *)
Theorem size_relay_identity hooks path uid r who :
  snd (size_review hooks path uid true (SResp r)) = Some who ->
  fst (size_review hooks path uid true (SResp r)) =
  mkSReview uid (s_allowed r) (if s_allowed r then 0 else 403)%N
            (if s_allowed r then SMClass AMNone else match s_msg r with [] => SMClass AMNone | m => SMText m end)
            (s_warnings r) (s_patch r) (nonempty (s_patch r)).
Proof.
  rewrite size_review_eq. destruct (find_task _ _ _) as [x|]; cbn [fst snd]; [|discriminate].
  intros _. reflexivity.
Qed.

(* ... whatever was logged on the way: the answer is a function of the parsed content only, two runs
   that hand back the same content are answered alike, and the log line is the only other product *)
Theorem size_answer_function_of_content hooks path uid r :
  forall who, snd (size_review hooks path uid true (SResp r)) = Some who ->
  sa_warnings (fst (size_review hooks path uid true (SResp r))) = s_warnings r
  /\ sa_patch (fst (size_review hooks path uid true (SResp r))) = s_patch r
  /\ sa_patchtype (fst (size_review hooks path uid true (SResp r))) = nonempty (s_patch r)
  /\ sa_allowed (fst (size_review hooks path uid true (SResp r))) = s_allowed r
  /\ (s_allowed r = false -> s_msg r <> [] -> sa_msg (fst (size_review hooks path uid true (SResp r))) = SMText (s_msg r))
  /\ st_log (size_task true (SResp r)) = Some (dump_text r).
Proof.
  intros who Hw. rewrite (size_relay_identity hooks path uid r who Hw). cbn [sa_warnings sa_patch sa_patchtype sa_allowed sa_msg].
  repeat split. intros Ha Hm. rewrite Ha. destruct (s_msg r); [now contradiction Hm | reflexivity].
Qed.

(* forgetting the content commutes with answering: C14_Model is this model with the content forgotten *)
Lemma abs_task ez f :
  let t := size_task ez f in
  handle_run_hook (abs_run ez f) =
  mkEnd (st_fail t)
        (match st_prop t with
         | Some r => Some (s_allowed r, abs_bytes (s_msg r), map abs_bytes (s_warnings r), abs_bytes (s_patch r))
         | None => None end)
        false false.
Proof.
  destruct ez; [|reflexivity]. destruct f as [| |r]; reflexivity.
Qed.

Lemma abs_nonempty b : nonempty b = negb (N.eqb (abs_bytes b) 0).
Proof. destruct b; reflexivity. Qed.

Lemma abs_commutes hooks path uid ez f :
  (abs_review (fst (size_review hooks path uid ez f)), snd (size_review hooks path uid ez f))
  = admit_review hooks path uid (abs_run ez f).
Proof.
  rewrite size_review_eq, admit_review_eq.
  destruct (find_task _ _ _) as [x|]; cbn [fst snd]; [|reflexivity].
  f_equal. unfold answer_of_task. rewrite abs_task. cbn [t_fail t_prop].
  unfold sanswer_of_task. destruct (st_fail (size_task ez f)); [reflexivity|].
  destruct (st_prop (size_task ez f)) as [r|]; [|reflexivity].
  unfold abs_review. cbn [sa_uid sa_allowed sa_code sa_msg sa_warnings sa_patch sa_patchtype].
  rewrite abs_nonempty. f_equal.
  destruct (s_allowed r); [reflexivity|]. destruct (s_msg r); reflexivity.
Qed.

Lemma bytes_list_eqb_refl (l : list bytes) : list_eqb bytes_eqb l l = true.
Proof. apply list_eqb_refl, bytes_eqb_refl. Qed.

Theorem relay_full_holds hooks path uid ez f :
  relay_full (model_regs hooks) path ez f (SRev (fst (size_review hooks path uid ez f))) (snd (size_review hooks path uid ez f)) = true.
Proof.
  unfold relay_full. destruct f as [| |r]; try reflexivity.
  destruct ez; [|reflexivity]. cbn [andb].
  rewrite size_review_eq. destruct (find_task _ _ _) as [[h [t n]]|]; cbn [fst snd].
  - destruct (existsb _ _); [|reflexivity].
    rewrite size_task_ok. unfold sanswer_of_task. cbn [st_fail st_prop sa_allowed sa_warnings sa_msg sa_patch sa_patchtype].
    rewrite Bool.eqb_reflx, bytes_list_eqb_refl. cbn [andb].
    assert ((if s_allowed r then true
             else match s_msg r with
                  | [] => true
                  | m => match (if s_allowed r then SMClass AMNone else match s_msg r with [] => SMClass AMNone | m0 => SMText m0 end) with
                         | SMText m' => bytes_eqb m' m | SMClass _ => false end
                  end) = true) as ->.
    { destruct (s_allowed r); [reflexivity|]. destruct (s_msg r) as [|c m]; [reflexivity | apply bytes_eqb_refl]. }
    cbn [andb]. destruct t; [reflexivity|]. now rewrite bytes_eqb_refl, Bool.eqb_reflx.
  - now rewrite nobody_ran.
Qed.

Theorem nothing_invented_holds hooks path uid ez f :
  nothing_invented f (SRev (fst (size_review hooks path uid ez f))) = true.
Proof.
  unfold nothing_invented. rewrite size_review_eq.
  destruct (find_task _ _ _) as [x|]; cbn [fst snd].
  - destruct ez; [|destruct f; reflexivity].
    destruct f as [| |r]; try reflexivity.
    rewrite size_task_ok. unfold sanswer_of_task. cbn [st_fail st_prop sa_warnings sa_patch].
    destruct (s_warnings r) as [|w ws] eqn:Ew; destruct (s_patch r) as [|c p] eqn:Ep; cbn [andb]; try reflexivity;
      rewrite ?bytes_list_eqb_refl, ?bytes_eqb_refl; reflexivity.
  - destruct f; reflexivity.
Qed.

Theorem P_size_holds hooks path uid ez f : names_ok hooks ->
  P_size (model_regs hooks) path uid ez f (SRev (fst (size_review hooks path uid ez f))) (snd (size_review hooks path uid ez f)) = true.
Proof.
  intros Hok. unfold P_size.
  rewrite relay_full_holds, nothing_invented_holds, !Bool.andb_true_r.
  pose proof (P_holds hooks path (BReview uid) (abs_run ez f) Hok) as HP.
  unfold admit_request in HP. rewrite <- abs_commutes in HP. cbn [fst snd] in HP. exact HP.
Qed.
