(* C19_WSpec.v — the property for binding names (group names, versions) that are ARBITRARY
   strings, and the trigger predicates of the two places where the framework falls short of it.

   The property text does not restrict the strings: "for every binding context in order,
   exactly one handler function is invoked with that context selected as current - the
   first one defined among the documented names ... for the context's type, binding and
   event, falling back to __main__".  C19_Spec.P / [follows] already say this for names as
   byte strings (a documented name that contains a blank is a name no function can have:
   such a context is served by __main__).  Added here:

   [own_context]: the clause read context by context - whatever strings the contexts before
   number k carry, invocation number k has BINDING_CONTEXT_CURRENT_INDEX = k, sees the binding
   name of context k and is the handler [chosen] for context k.

   Triggers of the two defects REPAIRED by a686454 (kept for the record theorems *_before_fix of
   C19_Properties.v; nothing is excused by them any more)
   (decidable, on the input; the words are bash's, C19_WModel.split_ws / is_pattern):
   [frag_hit]  a documented name of a context falls apart into several words and one of the
               words is itself a function of the hook or known to the shell (or the shell knows
               a whole documented name / __main__ without the hook defining it);
   [glob_hit]  a word of a documented name of a context is a glob pattern. *)
From Coq Require Import String.
From Verif Require Import Common C19_Model C19_Spec C19_WModel.

(* the trace, entry number k and on, serves the contexts number k and on, each by its own
   chosen handler with itself as the current context *)
Fixpoint own_context_from (defined : list name) (k : N) (cs : list ctx) (tr : trace) {struct tr} : bool :=
  match tr with
  | [] => true
  | e :: tr' =>
    match cs with
    | [] => false                                   (* more invocations than contexts *)
    | c :: r =>
      match chosen defined c with
      | Some h => entry_eqb e (h, k, cur_binding c) && own_context_from defined (N.succ k) r tr'
      | None => false
      end
    end
  end.

Definition own_context (i : input) (o : obs) : bool :=
  is_config (i_args i) || own_context_from (i_defined i) 0%N (i_ctxs i) (o_trace o).

(* the property with the clause spelled out *)
Definition PW (i : inputC) (o : obsC) : bool :=
  PC i o && own_context (to_input (ic_in i)) (ob_obs (oc_run o)).

(* a name that is one word for bash: not empty, no blank/tab/newline.  Function names are. *)
Definition one_word (n : bytes) : bool := negb (is_nil n) && forallb (fun x => negb (is_ws x)) n.

Definition is_some {A} (o : option A) : bool := match o with Some _ => true | None => false end.

Definition shell_knows (defined : list name) (amb : ambient) (w : name) : bool :=
  mem w defined || is_some (amb w).

Definition frag_hit (defined : list name) (amb : ambient) (c : ctx) : bool :=
  existsb (fun l => if one_word l then is_some (amb l)
                    else existsb (shell_knows defined amb) (split_ws l)) (doc_candidates c).

Definition glob_hit (c : ctx) : bool :=
  existsb (fun l => existsb is_pattern (split_ws l)) (doc_specific c).

Definition T_frag (i : input) (amb : ambient) : bool :=
  negb (is_config (i_args i)) && existsb (frag_hit (i_defined i) amb) (i_ctxs i).
Definition T_glob (i : input) : bool :=
  negb (is_config (i_args i)) && existsb glob_hit (i_ctxs i).

(* hooks as bash accepts them: every function name is one word *)
Definition names_ok (i : input) : bool := forallb one_word (i_defined i).
