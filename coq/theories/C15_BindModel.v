(* C15_BindModel.v — C15_Model part 5: conversion bindings with the further documented binding
   parameters (`group`, `includeSnapshotsFrom`) and WHAT THE HOOK OF A STEP RECEIVES: the binding
   context that is written to $BINDING_CONTEXT_PATH.  NO proofs in this file.

   The path of one step of a chain (operator.go conversionEventHandler, the loop body):

     HookManager.HandleConversionEvent(crd, request, rule, cb)     hook_manager.go:371
       every hook in order whose ConversionBindingsController has a link for (crd, rule):
         ConversionBindingsController.HandleEvent                  conversion_bindings_controller.go:84
           -> BindingContext{Binding, ConversionReview{Request: request}, FromVersion, ToVersion,
                             Metadata{BindingType: KubernetesConversion, IncludeSnapshots, Group}}
       cb overwrites convTask: the LAST hook that has a link runs
     op.taskHandler(convTask) -> taskHandleHookRun: the task is in no queue (queue name ""):
       combineBindingContextForHook has nothing to combine or compact -> handleRunHook -> Hook.Run
     Hook.Run                                                      hook.go:95
       HookController.UpdateSnapshots(context)                     hook_controller.go:317
       bctx.ConvertBindingContextList(h.Config.Version, ...)       binding_context.go:175  ("v1": only a
                                                                   v1 configuration can have conversion bindings)
         BindingContext.MapV1()                                    binding_context.go:58
       -> the JSON array of ONE object the hook reads

   where the link was made at start-up from the hook's configuration:
     config_v1.go:262-318  IncludeSnapshotsFrom of a binding with a group is merged with the names of
                           the hook's `kubernetes` bindings of that group (MergeArrays)
     EnableConversionBindings (conversion_bindings_controller.go:50)  Links[crd][rule] = link; a map:
                           within one hook the LAST binding that lists a rule owns it

   Encoding.  Names (of bindings, of groups) are dense numbers chosen by the harness, so that Go's
   string equality is equality here; the group "" (= no `group:` line) is None.  The content of a
   snapshot (the monitored objects) is outside this property (C08/C09): a snapshot map is modelled
   by its keys.  One CRD, like the rest of the C15 model.  Configurations are those the hook
   manager loads (CheckConversion: every includeSnapshotsFrom entry names exactly one `kubernetes`
   binding of the hook); nothing below depends on that. *)
From Coq Require Import String.
From Verif Require Import Common C15_Model.

(* htypes.BindingType *)
Inductive btype := BOnStartup | BSchedule | BOnKubernetesEvent | BValidating | BMutating | BConversion.

Definition btype_eqb (a b : btype) : bool :=
  match a, b with
  | BOnStartup, BOnStartup | BSchedule, BSchedule | BOnKubernetesEvent, BOnKubernetesEvent
  | BValidating, BValidating | BMutating, BMutating | BConversion, BConversion => true
  | _, _ => false
  end.

(* ------------------------------------------------------------------ the hook's configuration *)

(* a `kubernetes` or `schedule` binding, as far as grouping goes: (name, group) *)
Definition gbinding := (N * option N)%type.

(* a kubernetesCustomResourceConversion binding: name, group, includeSnapshotsFrom, conversions *)
Record cbinding := mkCB { cb_name : N; cb_group : option N; cb_include : list N; cb_rules : list rule }.

Record hookcfg := mkHook { h_kube : list gbinding; h_sched : list gbinding; h_conv : list cbinding }.

Definition no_hook : hookcfg := mkHook [] [] [].

(* config_v1.go:265-274 groupSnapshots[g]: the names of the `kubernetes` bindings with group g, in
   order (schedule bindings have a group but no snapshot: they do not enter) *)
Definition group_snapshots (kube : list gbinding) (g : N) : list N :=
  map fst (filter (fun kb => match snd kb with Some g' => N.eqb g' g | None => false end) kube).

(* elements of l that are not in seen, first occurrence only *)
Fixpoint fresh_of (seen l : list N) : list N :=
  match l with
  | [] => []
  | x :: r => if mem_N x seen then fresh_of seen r else x :: fresh_of (x :: seen) r
  end.

(* util.go:35 MergeArrays(a1, a2): a1 as it is, then what a2 adds, each name once *)
Definition merge_arrays (a1 a2 : list N) : list N := a1 ++ fresh_of a1 a2.

(* config_v1.go:311-317: if snapshots, ok := groupSnapshots[cfg.Group]; ok { merge }.  The map has a
   key only for groups that some kubernetes binding names; "" is never a key. *)
Definition loaded_include (cfg : hookcfg) (cb : cbinding) : list N :=
  match cb_group cb with
  | None => cb_include cb
  | Some g =>
    match group_snapshots (h_kube cfg) g with
    | [] => cb_include cb
    | snaps => merge_arrays (cb_include cb) snaps
    end
  end.

(* ------------------------------------------------------------------ links *)

(* ConversionBindingToWebhookLink, with the number of the hook whose controller holds it *)
Record link := mkLink { l_hook : N; l_binding : N; l_include : list N; l_group : option N; l_rule : rule }.

(* EnableConversionBindings of hook number h *)
Definition hook_links (h : N) (cfg : hookcfg) : list link :=
  flat_map (fun cb => map (fun r => mkLink h (cb_name cb) (loaded_include cfg cb) (cb_group cb) r) (cb_rules cb))
           (h_conv cfg).

Fixpoint links_from (h : N) (hooks : list hookcfg) : list link :=
  match hooks with
  | [] => []
  | cfg :: rest => hook_links h cfg ++ links_from (N.succ h) rest
  end.

(* all links, hooks in the hook manager's order, bindings and rules in configuration order *)
Definition all_links (hooks : list hookcfg) : list link := links_from 0 hooks.

(* who serves rule r: Links is a map (a later binding of the same hook overwrites the entry) and
   HandleConversionEvent lets every hook that has a link overwrite convTask - the LAST link wins *)
Fixpoint link_for (links : list link) (r : rule) : option link :=
  match links with
  | [] => None
  | l :: rest =>
    match link_for rest r with
    | Some l' => Some l'
    | None => if rule_eqb (l_rule l) r then Some l else None
    end
  end.

(* ------------------------------------------------------------------ the binding context *)

(* bindingcontext.BindingContext, the fields MapV1 reads for anything but a `kubernetes` event.
   bc_versions is meaningful for conversion contexts only (elsewhere both strings are ""). *)
Record bctx := mkBC {
  bc_btype : btype;                   (* Metadata.BindingType *)
  bc_include : list N;                (* Metadata.IncludeSnapshots *)
  bc_all : bool;                      (* Metadata.IncludeAllSnapshots *)
  bc_group : option N;                (* Metadata.Group *)
  bc_binding : N;                     (* Binding *)
  bc_snapshots : list N;              (* Snapshots: its keys ([] = nil or empty) *)
  bc_review : option (list obj);      (* ConversionReview: request.objects; None = nil *)
  bc_versions : rule                  (* FromVersion, ToVersion *)
}.

(* conversion_bindings_controller.go:104-112 HandleEvent.  The context holds the POINTER to the
   request, whose Objects conversionEventHandler overwrites after every step: when the context is
   rendered (in Hook.Run) the objects are the previous step's output. *)
Definition handle_event (l : link) (objs : list obj) : bctx :=
  mkBC BConversion (l_include l) false (l_group l) (l_binding l) [] (Some objs) (l_rule l).

(* hook_controller.go:266 getIncludeSnapshotsFrom(KubernetesConversion, name): the FIRST conversion
   binding of the hook with that name *)
Definition get_include_from (cfg : hookcfg) (name : N) : list N :=
  match List.find (fun cb => N.eqb (cb_name cb) name) (h_conv cfg) with
  | Some cb => loaded_include cfg cb
  | None => []
  end.

(* hook_controller.go:317 UpdateSnapshots, for a conversion context.  KubernetesController is nil
   when the hook has no `kubernetes` binding: the context is returned as it is.  Otherwise Snapshots
   becomes a fresh map with one key per included binding name. *)
Definition update_snapshots (cfg : hookcfg) (bc : bctx) : bctx :=
  match h_kube cfg with
  | [] => bc
  | _ => mkBC (bc_btype bc) (bc_include bc) (bc_all bc) (bc_group bc) (bc_binding bc)
              (get_include_from cfg (bc_binding bc)) (bc_review bc) (bc_versions bc)
  end.

(* what the hook reads: the JSON object MapV1 builds *)
Inductive rtype :=
| RtAbsent                            (* no "type" *)
| RtValidating | RtMutating | RtConversion | RtGroup | RtSchedule
| RtKubernetes.                       (* "Synchronization" / "Event": the business of C09 *)

Record rendered := mkR {
  r_binding : N;                      (* "binding" *)
  r_type : rtype;                     (* "type" *)
  r_snapshots : option (list N);      (* "snapshots": its keys; None = no such field *)
  r_group : option N;                 (* "groupName" *)
  r_versions : option rule;           (* "fromVersion", "toVersion" *)
  r_review : option (list obj)        (* "review".request.objects of a ConversionReview; None = no such field, null,
                                         or the AdmissionReview of a validating / mutating context (not modelled) *)
}.

(* binding_context.go:58 MapV1, statement by statement *)
Definition map_v1 (bc : bctx) : rendered :=
  let b := bc_binding bc in
  if btype_eqb (bc_btype bc) BOnStartup then mkR b RtAbsent None None None None
  else
    (* Set "snapshots" field if needed. *)
    let snaps := if nonempty (bc_include bc) || bc_all bc then Some (bc_snapshots bc) else None in
    (* Handle admission and conversion before grouping. *)
    if btype_eqb (bc_btype bc) BValidating then mkR b RtValidating snaps None None None
    else if btype_eqb (bc_btype bc) BMutating then mkR b RtMutating snaps None None None
    else if btype_eqb (bc_btype bc) BConversion then
      mkR b RtConversion snaps None (Some (bc_versions bc)) (bc_review bc)
    else
      (* Group is always has "type: Group", even for Synchronization. *)
      match bc_group bc with
      | Some g => mkR b RtGroup snaps (Some g) None None
      | None =>
        if btype_eqb (bc_btype bc) BSchedule then mkR b RtSchedule snaps None None None
        else mkR b RtKubernetes snaps None None None          (* or no type at all: see C09 *)
      end.

(* a hook execution: which hook ran and what it read *)
Definition delivery := (N * rendered)%type.

(* Hook.Run of the hook that holds link l, the request's objects being objs *)
Definition hook_receives (hooks : list hookcfg) (l : link) (objs : list obj) : rendered :=
  map_v1 (update_snapshots (nth (N.to_nat (l_hook l)) hooks no_hook) (handle_event l objs)).

(* ------------------------------------------------------------------ the chain once more *)

(* operator.go:348-397 with HandleConversionEvent written out.  None = convTask == nil:
   "no hook found for ... event" (the handler returns an error in the middle of the chain). *)
Fixpoint steps_params (hooks : list hookcfg) (desired : version) (chain : list rule) (outs : list outcome)
         (objs : list obj) : list delivery * option stop :=
  match chain with
  | [] => ([], Some StNotDone)
  | r :: rest =>
    match link_for (all_links hooks) r with
    | None => ([], None)
    | Some l =>
      let got := (l_hook l, hook_receives hooks l objs) in
      match hd OExitFail outs with
      | OExitFail | OBadResponse => ([got], Some (StFailed MHookFailed))
      | ONoResponse => ([got], Some (StFailed MPropError))
      | OResp (c :: m) _ => ([got], Some (StFailed (MHook (c :: m))))
      | OResp [] objs' =>
        if is_done desired objs' then ([got], Some (StDone objs'))
        else let '(t, s) := steps_params hooks desired rest (tl outs) objs' in (got :: t, s)
      end
    end
  end.

(* operator.go:361 *)
Definition no_hook_text (crd : bytes) : bytes :=
  str "no hook found for 'kubernetesCustomResourceConversion' event for crd/"%string ++ crd.

(* one ConversionReview served by hooks with any binding parameters: what every executed hook
   read, and the answer.  [crd] is the CRD's name (quoted by one error text). *)
Definition serve_params (crd : bytes) (hooks : list hookcfg) (dtext : bytes) (desired : version)
           (chain : list rule) (outs : list outcome) (req : list obj) : list delivery * review :=
  match extract req with
  | [] => ([], handle_review (length req) (OpResponse (msg_text dtext MNotSuccessful) []))
  | _ =>
    let '(t, s) := steps_params hooks desired chain outs req in
    let r := match s with
             | None => OpError (no_hook_text crd)
             | Some (StFailed MPropError) => OpError (msg_text dtext MPropError)
             | Some (StFailed m) => OpResponse (msg_text dtext m) []
             | Some (StDone objs) => OpResponse [] objs
             | Some StNotDone => OpResponse (msg_text dtext MNotSuccessful) []
             end in
    (t, handle_review (length req) r)
  end.

(* the declared rules of a set of hooks, in the order UpdateConversionChains puts them *)
Definition hooks_rules (hooks : list hookcfg) : list rule :=
  flat_map (fun cfg => flat_map cb_rules (h_conv cfg)) hooks.
