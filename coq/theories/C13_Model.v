(* C13_Model.v — executable model of the patch-file path:
     pkg/kube/object_patch/operation.go  ParseOperations, NewFromOperationSpec
     pkg/kube/object_patch/patch.go      ExecuteOperations, execute{Create,Delete,Patch,Filter}Operation
     pkg/shell-operator/operator.go      parse all, then execute, or nothing
   against a cluster that behaves like github.com/flant/kube-client/fake (an oracle:
   the small API layer below states the behaviour assumed of it; the correspondence
   runs the real fake).  The validity of one document (go-openapi against the embedded
   schema) is an oracle too: a document is either a well-formed operation or [DBad].
   The decoders (encoding/json, yaml.v3) are not modelled: JSON == YAML is checked
   differentially only (PARTIAL).

   No proofs in this file. *)
From Coq Require Import String.
From Verif Require Import Common Json.

Definition B (s : string) : bytes := map Ascii.N_of_ascii (list_ascii_of_string s).

(* ---------- finite maps as association lists ---------- *)

(* removal of EVERY binding of the key (Json.obj_del removes the first one only) *)
Fixpoint del_all (k : bytes) (m : list (bytes * json)) : list (bytes * json) :=
  match m with
  | [] => []
  | (k', v) :: r => if bytes_eqb k k' then del_all k r else (k', v) :: del_all k r
  end.

(* the cluster: object key "Kind/namespace/name" -> object.  [obj_set] keeps it sorted
   and without duplicates when it starts so (the harness sorts the initial state). *)
Definition key := bytes.
Definition cluster := list (key * json).

Definition cl_get (k : key) (c : cluster) : option json := assoc k c.
Definition cl_set (k : key) (v : json) (c : cluster) : cluster := obj_set k v c.
Definition cl_del (k : key) (c : cluster) : cluster := del_all k c.

(* ---------- JSON helpers ---------- *)

Definition jstr_of (o : option json) : bytes := match o with Some (JStr s) => s | _ => [] end.

(* Unstructured.GetKind / GetNamespace / GetName: missing or non-string = "" *)
Definition key_of_object (obj : json) : key :=
  let md := match jget (B "metadata") obj with Some m => m | None => JNull end in
  jstr_of (jget (B "kind") obj) ++ B "/" ++ jstr_of (jget (B "namespace") md) ++ B "/" ++ jstr_of (jget (B "name") md).

(* RFC 7386 MergePatch(Target, Patch) *)
Fixpoint merge_patch (target patch : json) {struct patch} : json :=
  match patch with
  | JObj pm =>
    let tm := match target with JObj tm => tm | _ => [] end in
    JObj ((fix go (pm : list (bytes * json)) (tm : list (bytes * json)) {struct pm} : list (bytes * json) :=
             match pm with
             | [] => tm
             | (k, v) :: r =>
               match v with
               | JNull => go r (del_all k tm)
               | _ => go r (obj_set k (merge_patch (match assoc k tm with Some t => t | None => JNull end) v) tm)
               end
             end) pm tm)
  | _ => patch
  end.

(* value at a path of object member names *)
Fixpoint get_path (p : list bytes) (j : json) : option json :=
  match p with
  | [] => Some j
  | k :: r => match jget k j with Some v => get_path r v | None => None end
  end.

(* set the member at path [p] of [j]; every container on the way must be an existing
   object (JSON Patch "add"/"replace": the parent must exist) *)
Fixpoint set_path_strict (p : list bytes) (v : json) (j : json) : option json :=
  match p with
  | [] => Some v
  | [k] => match j with JObj m => Some (JObj (obj_set k v m)) | _ => None end
  | k :: r =>
    match j with
    | JObj m => match assoc k m with
                | Some sub => match set_path_strict r v sub with
                              | Some sub' => Some (JObj (obj_set k sub' m))
                              | None => None
                              end
                | None => None
                end
    | _ => None
    end
  end.

(* remove the member at path [p]; it must exist *)
Fixpoint remove_path_strict (p : list bytes) (j : json) : option json :=
  match p with
  | [] => None
  | [k] => match j with
           | JObj m => match assoc k m with Some _ => Some (JObj (del_all k m)) | None => None end
           | _ => None
           end
  | k :: r =>
    match j with
    | JObj m => match assoc k m with
                | Some sub => match remove_path_strict r sub with
                              | Some sub' => Some (JObj (obj_set k sub' m))
                              | None => None
                              end
                | None => None
                end
    | _ => None
    end
  end.

(* JSON Patch (RFC 6902) operations on paths of object member names *)
Inductive jp_op :=
| JPAdd (path : list bytes) (v : json)
| JPRemove (path : list bytes)
| JPReplace (path : list bytes) (v : json).

Definition apply_jp (o : jp_op) (j : json) : option json :=
  match o with
  | JPAdd p v => match p with [] => Some v | _ => set_path_strict p v j end
  | JPRemove p => remove_path_strict p j
  (* github.com/evanphx/json-patch (used by the fake cluster and by API servers of this
     vintage): partialDoc.get never fails, so "replace" of a missing member of an
     existing object succeeds and behaves like "add" *)
  | JPReplace p v => match p with [] => Some v | _ => set_path_strict p v j end
  end.

(* the whole patch applies or nothing does *)
Fixpoint apply_jps (l : list jp_op) (j : json) : option json :=
  match l with
  | [] => Some j
  | o :: r => match apply_jp o j with Some j' => apply_jps r j' | None => None end
  end.

(* jq: a small fixed family of filters, given by their meaning.
     JQSet [a;b] v   .a.b = v        (jq creates missing/null containers on the way)
     JQDel [a;b]     del(.a.b)       (nothing happens when the path does not exist)
     JQId            .
     JQErr           error("...")    (the filter fails)                              *)
Inductive jqf :=
| JQSet (path : list bytes) (v : json)
| JQDel (path : list bytes)
| JQId
| JQErr.

Fixpoint set_path_lax (p : list bytes) (v : json) (j : json) : json :=
  match p with
  | [] => v
  | k :: r =>
    let m := match j with JObj m => m | _ => [] end in
    JObj (obj_set k (set_path_lax r v (match assoc k m with Some s => s | None => JNull end)) m)
  end.

Fixpoint del_path_lax (p : list bytes) (j : json) : json :=
  match p with
  | [] => j
  | [k] => match j with JObj m => JObj (del_all k m) | _ => j end
  | k :: r =>
    match j with
    | JObj m => match assoc k m with
                | Some sub => JObj (obj_set k (del_path_lax r sub) m)
                | None => j
                end
    | _ => j
    end
  end.

Definition apply_jq (f : jqf) (j : json) : option json :=
  match f with
  | JQSet p v => Some (set_path_lax p v j)
  | JQDel p => Some (del_path_lax p j)
  | JQId => Some j
  | JQErr => None
  end.

(* does the object hold an integer anywhere?  (An object read back from the API holds
   int64 for integers, the jq result float64: equality.Semantic.DeepEqual then fails
   even when nothing changed, and the code issues an Update.) *)
Fixpoint has_int (j : json) : bool :=
  match j with
  | JNum _ => true
  | JArr l => (fix go (l : list json) : bool := match l with [] => false | x :: r => has_int x || go r end) l
  | JObj m => (fix go (m : list (bytes * json)) : bool :=
                 match m with [] => false | (_, x) :: r => has_int x || go r end) m
  | _ => false
  end.

(* ---------- operations ---------- *)

Inductive create_mode := CPlain | COrUpdate | CIfNotExists.
Inductive del_mode := DForeground | DBackground | DNonCascading.

Inductive patch_body :=
| PMerge (patch : json)
| PJson (ops : list jp_op)
| PJq (f : jqf).

Inductive op :=
| OCreate (m : create_mode) (obj : json)
| ODelete (m : del_mode) (k : key)
| OPatch (k : key) (body : patch_body) (subresource : bytes) (ignore_missing : bool).

(* one document of the stream: a well-formed operation, or anything the decoder or the
   schema rejects *)
Inductive doc := DOp (o : op) | DBad.

(* ParseOperations (operation.go:64-85): decode the whole stream, validate document by
   document, stop at the first invalid one and return the error (the caller drops the
   operations collected so far: operator.go:668-672).  [None] = error. *)
Fixpoint parse (ds : list doc) : option (list op) :=
  match ds with
  | [] => Some []
  | DBad :: _ => None
  | DOp o :: r => match parse r with Some os => Some (o :: os) | None => None end
  end.

(* ---------- the API layer (behaviour assumed of the fake cluster) ---------- *)

Inductive verb := VCreate | VGet | VUpdate | VPatch | VDelete.
Definition call := (verb * key * bytes)%type.          (* verb, object, subresource *)

(* [ENotServed]: the cluster does not serve the apiVersion / kind the operation names
   (only operations of C13_GModel can produce it); [EConflict]: 409, the resourceVersion of
   an Update is outdated (only with another writer: C13_CModel); [EOther]: any other error
   text; the model never produces it *)
Inductive err := EAlreadyExists | ENotFound | EPatchFailed | EJqFailed | ENotServed | EConflict | EOther.

Definition api_create (c : cluster) (k : key) (obj : json) : cluster * option err :=
  match cl_get k c with Some _ => (c, Some EAlreadyExists) | None => (cl_set k obj c, None) end.
Definition api_update (c : cluster) (k : key) (obj : json) : cluster * option err :=
  match cl_get k c with Some _ => (cl_set k obj c, None) | None => (c, Some ENotFound) end.
Definition api_delete (c : cluster) (k : key) : cluster * option err :=
  match cl_get k c with Some _ => (cl_del k c, None) | None => (c, Some ENotFound) end.
Definition api_patch (c : cluster) (k : key) (f : json -> option json) : cluster * option err :=
  match cl_get k c with
  | None => (c, Some ENotFound)
  | Some o => match f o with Some o' => (cl_set k o' c, None) | None => (c, Some EPatchFailed) end
  end.

(* ---------- patch.go ---------- *)

Definition result := (cluster * list call * option err)%type.

(* executeCreateOperation (patch.go:81-148).  The spec's subresource is not passed to
   create operations by NewFromOperationSpec. *)
Definition exec_create_at (c : cluster) (m : create_mode) (k : key) (obj : json) : result :=
  match api_create c k obj with
  | (c', None) => (c', [(VCreate, k, [])], None)
  | (_, Some e) =>                                     (* AlreadyExists is the only failure *)
    match m with
    | CIfNotExists => (c, [(VCreate, k, [])], None)
    | CPlain => (c, [(VCreate, k, [])], Some e)
    | COrUpdate =>
      (* Get, copy resourceVersion, Update *)
      let (c', e') := api_update c k obj in
      (c', [(VCreate, k, []); (VGet, k, []); (VUpdate, k, [])], e')
    end
  end.

(* [k] is where the object lands: the resource resolved from the object's apiVersion and
   kind, the object's namespace and name.  With every kind served in one group only, that
   is [key_of_object]; C13_GModel resolves it against the cluster's discovery. *)
Definition exec_create (c : cluster) (m : create_mode) (obj : json) : result :=
  exec_create_at c m (key_of_object obj) obj.

(* executeDeleteOperation (patch.go:262-305): NotFound is ignored; Foreground waits
   (first poll after one second) until a Get says NotFound. *)
Definition exec_delete (c : cluster) (m : del_mode) (k : key) : result :=
  match api_delete c k with
  | (c', Some _) => (c', [(VDelete, k, [])], None)
  | (c', None) =>
    match m with
    | DForeground => (c', [(VDelete, k, []); (VGet, k, [])], None)
    | _ => (c', [(VDelete, k, [])], None)
    end
  end.

(* executePatchOperation (patch.go:160-194) and executeFilterOperation (patch.go:203-260) *)
Definition exec_patch (c : cluster) (k : key) (body : patch_body) (sub : bytes) (ignore_missing : bool) : result :=
  match body with
  | PMerge p =>
    match api_patch c k (fun o => Some (merge_patch o p)) with
    | (c', Some ENotFound) => (c', [(VPatch, k, sub)], if ignore_missing then None else Some ENotFound)
    | (c', e) => (c', [(VPatch, k, sub)], e)
    end
  | PJson ops =>
    match api_patch c k (apply_jps ops) with
    | (c', Some ENotFound) => (c', [(VPatch, k, sub)], if ignore_missing then None else Some ENotFound)
    | (c', e) => (c', [(VPatch, k, sub)], e)
    end
  | PJq f =>
    match cl_get k c with
    | None => (c, [(VGet, k, [])], if ignore_missing then None else Some ENotFound)
    | Some o =>
      match apply_jq f o with
      | None => (c, [(VGet, k, [])], Some EJqFailed)
      | Some o' =>
        if json_eqb o o' && negb (has_int o) then (c, [(VGet, k, [])], None)
        else let (c', e) := api_update c k o' in (c', [(VGet, k, []); (VUpdate, k, sub)], e)
      end
    end
  end.

(* ExecuteOperation (patch.go:60-79) *)
Definition exec_op (c : cluster) (o : op) : result :=
  match o with
  | OCreate m obj => exec_create c m obj
  | ODelete m k => exec_delete c m k
  | OPatch k body sub im => exec_patch c k body sub im
  end.

(* ExecuteOperations (patch.go:44-58): every operation in slice order; an error is
   collected and the loop goes on *)
Definition opt_list {A} (o : option A) : list A := match o with Some x => [x] | None => [] end.

Fixpoint exec (c : cluster) (os : list op) : cluster * list call * list err :=
  match os with
  | [] => (c, [], [])
  | o :: r =>
    match exec_op c o with
    | (c1, calls1, e1) =>
      match exec c1 r with
      | (c2, calls2, es) => (c2, calls1 ++ calls2, opt_list e1 ++ es)
      end
    end
  end.

(* what one hook run does with its patch file (operator.go:667-676) *)
Record outcome := mkOutcome {
  r_parse_ok : bool;
  r_cluster  : cluster;
  r_calls    : list call;
  r_errors   : list err
}.

Definition failed (r : outcome) : bool :=
  negb (r_parse_ok r) || match r_errors r with [] => false | _ => true end.

Definition handle_run (c : cluster) (ds : list doc) : outcome :=
  match parse ds with
  | None => mkOutcome false c [] []
  | Some os => match exec c os with (c', calls, es) => mkOutcome true c' calls es end
  end.
