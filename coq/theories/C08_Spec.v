(* C08_Spec.v — the property C08 as a decidable predicate over what is observable for a
   scripted history of watch events: per delivered event, whether a KubeEvent was fired
   (and of which type) and what the snapshot (the cached objects) shows afterwards.
   Written from the property text only:

     "An Added or Modified change triggers the hook only if its watch-event type is
      listed in executeHookOnEvent and the binding's projection of the object - the
      jqFilter result, or the whole object when there is no filter - differs from the
      last one known for that object; a Deleted change triggers whenever Deleted is
      listed.  Re-delivery of an unchanged object (informer start, resync, relist)
      triggers nothing, and suppressed changes still update what snapshots show."

   The projection is THE JQ RESULT: the sequence of values the jq program outputs for
   the object (one value for ordinary filters), or the object itself without a filter.
   "Known" = present in the snapshot: an object is known from its Added/Modified
   delivery until its Deleted delivery.

   A jq program may also stop with an error on an object; its result is then the outputs
   it produced together with that failure, and the text makes no exception for it:
   Deleted triggers whenever listed and every delivered change shows in the snapshot.
   (The code drops such deliveries entirely: known finding F16, trigger [T_F16].)

   "Listed in executeHookOnEvent" / "all subsets of {Added, Modified, Deleted}": the list is
   the one the user DECLARES in the hook configuration ([decl]: the key executeHookOnEvent and
   the deprecated key watchEvent, each absent or present with any list).  [declared_types]
   reads it off the declaration as the documentation says, [only_listed] is the clause "only
   if its watch-event type is listed in executeHookOnEvent" and [P_decl] the property for a
   declared binding. *)
From Verif Require Import Common Json C08_Model.

(* what is observed after one delivered watch event *)
Record obs := mkObs {
  o_fired : list evtype;              (* types of the KubeEvents fired by this delivery *)
  o_snapshot : list (N * json)        (* resource id -> object shown by the snapshot, sorted by id *)
}.

(* a projection: the outputs of the filter and whether it failed *)
Definition proj := (list json * bool)%type.

(* the specification's own bookkeeping: id -> (latest object, its projection) *)
Definition known := list (N * (json * proj)).

Fixpoint k_get (id : N) (k : known) : option (json * proj) :=
  match k with
  | [] => None
  | (i, v) :: r => if N.eqb id i then Some v else k_get id r
  end.
Fixpoint k_set (id : N) (v : json * proj) (k : known) : known :=
  match k with
  | [] => [(id, v)]
  | (i, v') :: r =>
      if N.eqb id i then (id, v) :: r
      else if N.ltb id i then (id, v) :: (i, v') :: r
      else (i, v') :: k_set id v r
  end.
Fixpoint k_del (id : N) (k : known) : known :=
  match k with
  | [] => []
  | (i, v') :: r => if N.eqb id i then k_del id r else (i, v') :: k_del id r
  end.

Definition listed (types : list evtype) (t : evtype) : bool := existsb (evtype_eqb t) types.
Definition proj_eqb : proj -> proj -> bool := pair_eqb (list_eqb json_eqb) Bool.eqb.
Definition snap_eqb : list (N * json) -> list (N * json) -> bool := list_eqb (pair_eqb N.eqb json_eqb).
Definition fired_eqb : list evtype -> list evtype -> bool := list_eqb evtype_eqb.

Section WithOracle.

  Variable jq : json -> list json * bool.

  (* the binding's projection of an object *)
  Definition projection (filter : bool) (o : json) : proj :=
    if filter then jq o else ([o], false).

  (* should this delivery trigger? *)
  Definition expected_fire (types : list evtype) (filter : bool) (k : known) (t : evtype) (id : N) (o : json) : bool :=
    match t with
    | Deleted => listed types Deleted
    | _ => listed types t &&
           match k_get id k with
           | None => true                                                  (* object unknown *)
           | Some (_, p) => negb (proj_eqb p (projection filter o))         (* projection differs *)
           end
    end.

  Definition k_next (filter : bool) (k : known) (t : evtype) (id : N) (o : json) : known :=
    match t with
    | Deleted => k_del id k
    | _ => k_set id (o, projection filter o) k
    end.

  Definition step_ok (types : list evtype) (filter : bool) (k : known) (s : step) (ob : obs) : bool :=
    match s with
    | (t, id, o) =>
        fired_eqb (o_fired ob) (if expected_fire types filter k t id o then [t] else [])
        && snap_eqb (o_snapshot ob) (map (fun kv => (fst kv, fst (snd kv))) (k_next filter k t id o))
    end.

  Fixpoint P_from (types : list evtype) (filter : bool) (k : known) (h : list step) (obs_l : list obs) : bool :=
    match h, obs_l with
    | [], [] => true
    | (t, id, o) :: h', ob :: obs' =>
        step_ok types filter k (t, id, o) ob && P_from types filter (k_next filter k t id o) h' obs'
    | _, _ => false
    end.

  Definition P (types : list evtype) (filter : bool) (h : list step) (obs_l : list obs) : bool :=
    P_from types filter [] h obs_l.

  (* ---- objects that exist when the binding is enabled ----
     "Known" begins with the binding's first view of the cluster: the objects that exist when
     the monitor is created are listed once (they are what the Synchronization snapshot
     shows) and are known from then on - this listing is not a change and triggers nothing.
     What the informer delivers afterwards, beginning with the re-delivery of these very
     objects at informer start ("Re-delivery of an unchanged object (informer start, ...)
     triggers nothing"), is judged against that knowledge exactly as any other delivery:
     an Added for a listed object whose projection is the listed one triggers nothing, one
     whose projection differs is a change.  [listed] = (resource id, object) as they are in
     the cluster at that moment. *)
  Definition known_of_list (filter : bool) (listed : list (N * json)) : known :=
    fold_left (fun k io => k_set (fst io) (snd io, projection filter (snd io)) k) listed [].

  Definition P_start (types : list evtype) (filter : bool) (listed : list (N * json))
                     (h : list step) (obs_l : list obs) : bool :=
    P_from types filter (known_of_list filter listed) h obs_l.

  (* ---- the event list as the user DECLARES it ----
     The property speaks of what is "listed in executeHookOnEvent" and quantifies over "all
     subsets of {Added, Modified, Deleted}": the list is the one the user writes in the hook
     configuration, not a field of the monitor.  What the documentation says about it
     (docs/src/HOOKS.md, section "kubernetes", parameters):
       "executeHookOnEvent - the list of events which led to a hook's execution.  By default,
        all events are used to execute a hook: "Added", "Modified" and "Deleted". [...] Empty
        array can be used to prevent hook execution, it is useful when binding is used only to
        define a snapshot."   and, in "Snapshots": "`executeHookOnSynchronization: false`
        accompanied by `executeHookOnEvent: []` defines a "snapshot-only" binding."
     So: WHENEVER THE KEY executeHookOnEvent IS PRESENT, its value - any list over the three
     types, the empty one included - is the list the property speaks of, whatever else the
     binding declares; when it is absent the documented default is all three.
     The configuration schema still allows the former name of the key, `watchEvent`, with the
     same values (one pattern, "^(watchEvent|executeHookOnEvent)$", covers both; HOOKS.md no
     longer mentions it; test/hook/context/README.md still writes the event list under it).
     For a binding that declares ONLY the former name the list is read from there: that is
     what "alias" means, and nothing in the text speaks against it; the default applies when
     neither key is present.  Beside executeHookOnEvent the former name has NO meaning. *)
  Definition declared_types (d : decl) : list evtype :=
    match d_exec d, d_watch d with
    | Some l, _ => l
    | None, Some w => w
    | None, None => [Added; Modified; Deleted]
    end.

  (* "triggers the hook only if its watch-event type is listed in executeHookOnEvent", said
     directly of the declaration and of every delivery, as a clause of its own (it does not
     depend on projections, so no finding of the filter side touches it) *)
  Definition only_listed (d : decl) (obs_l : list obs) : bool :=
    match d_exec d with
    | Some l => forallb (fun ob => forallb (listed l) (o_fired ob)) obs_l
    | None => true
    end.

  (* the property for a declared binding: everything above w.r.t. the declared list *)
  Definition P_decl (d : decl) (filter : bool) (listed : list (N * json))
                    (h : list step) (obs_l : list obs) : bool :=
    P_start (declared_types d) filter listed h obs_l && only_listed d obs_l.

  (* the listed objects as steps (for the trigger predicates, which look at objects only) *)
  Definition listed_steps (listed : list (N * json)) : list step :=
    map (fun io => (Added, fst io, snd io)) listed.

  (* trigger of the known finding F8: the filter's result on some object of the history
     (on which it does not fail) is not a single JSON object *)
  Definition single_object (outs : list json) : bool :=
    match outs with
    | [JObj _] => true
    | _ => false
    end.
  Definition T_F8 (filter : bool) (h : list step) : bool :=
    filter && existsb (fun s => negb (snd (jq (snd s))) && negb (single_object (fst (jq (snd s))))) h.

  (* the known finding F8, as narrow as it is: what the finding says is that only the OBJECT
     outputs of the filter count, merged into one object ([glue]); it touches the property
     where two results that DIFFER - as the sequences of outputs they are - merge into the
     same object (3 and 4 both give {}; {x:1},{x:5} and {x:2},{x:5} both give {x:5}).  A
     history in which no two object states are confused in this way is no instance of F8,
     however many outputs the filter has and of whatever kinds they are, in whatever order:
     there a change in the part an object output produces IS a change of the projection
     and must trigger, null / scalar / array outputs before or after it notwithstanding. *)
  Definition confused (a b : proj) : bool :=
    negb (snd a) && negb (snd b)
    && negb (list_eqb json_eqb (fst a) (fst b))
    && json_eqb (glue (fst a)) (glue (fst b)).
  Definition T_F8m (filter : bool) (h : list step) : bool :=
    filter && existsb (fun s => existsb (fun s' => confused (jq (snd s)) (jq (snd s'))) h) h.

  (* trigger of the known finding F16: the filter fails on some object of the history *)
  Definition T_F16 (filter : bool) (h : list step) : bool :=
    filter && existsb (fun s => snd (jq (snd s))) h.

End WithOracle.

(* ---- what the snapshot shows of a result with several outputs ----
   "suppressed changes still update what snapshots show": beside the object the snapshot shows
   the binding's filterResult.  With F8 as it stands (non-object outputs contribute nothing)
   the filterResult of a result with the outputs [outs] must still show, for every key, what
   the LAST object output that binds the key says - a later object output overrides an earlier
   one key by key, and an output that is null, a scalar or an array neither adds a key nor
   hides, ends or resets what the object outputs before and after it contribute - and no key
   that no object output binds. *)
Fixpoint last_binding (k : bytes) (m : list (bytes * json)) : option json :=
  match m with
  | [] => None
  | (k', v) :: r =>
      match last_binding k r with
      | Some w => Some w
      | None => if bytes_eqb k k' then Some v else None
      end
  end.

Fixpoint last_out (k : bytes) (outs : list json) : option json :=
  match outs with
  | [] => None
  | v :: r =>
      match last_out k r with
      | Some w => Some w
      | None => match v with JObj m => last_binding k m | _ => None end
      end
  end.

Definition out_keys (outs : list json) : list bytes := flat_map jkeys outs.

Definition fr_shows (outs : list json) (fr : json) : bool :=
  match fr with
  | JObj _ => forallb (fun k => option_eqb json_eqb (jget k fr) (last_out k outs)) (jkeys fr ++ out_keys outs)
  | _ => false
  end.

(* ---- the window in which the binding's events are SAVED ----
   Between the monitor's start and the unlock that follows the binding's Synchronization the
   hook is not triggered at once: the triggers are saved and the hook gets them at the unlock.
   The property text makes no exception for this window: "An Added or Modified change triggers
   the hook only if ... the projection differs from THE LAST ONE KNOWN for that object; a Deleted
   change triggers whenever Deleted is listed", over "all per-object histories of states
   including repeats of identical states".  So every change of the window that passes the rule
   - judged against the last known projection at ITS place in the history, however often the same
   projection, or the very same event, occurred earlier (A -> B -> A -> B; create / delete /
   re-create with the same content) - is one trigger, and the triggers the hook has got once the
   unlock has returned (those it got while the window was open, then those handed over by the
   unlock) are exactly these changes: their number, their order, their type and their object.
   Suppressed or saved, every change shows in the snapshot at once.  After the unlock the rule
   goes on from what is known then. *)
Section Window.

  Variable jq : json -> list json * bool.

  (* the changes of a history that pass the rule, in order *)
  Fixpoint triggers_of (types : list evtype) (filter : bool) (k : known) (h : list step) : list step :=
    match h with
    | [] => []
    | (t, id, o) :: r =>
        (if expected_fire jq types filter k t id o then [(t, id, o)] else [])
        ++ triggers_of types filter (k_next jq filter k t id o) r
    end.

  (* what is known after a history *)
  Definition k_after (filter : bool) (k : known) (h : list step) : known :=
    fold_left (fun k s => match s with (t, id, o) => k_next jq filter k t id o end) h k.

  (* "suppressed changes still update what snapshots show", delivery by delivery *)
  Fixpoint snaps_ok (filter : bool) (k : known) (h : list step) (snaps : list (list (N * json))) : bool :=
    match h, snaps with
    | [], [] => true
    | (t, id, o) :: h', sn :: snaps' =>
        snap_eqb sn (map (fun kv => (fst kv, fst (snd kv))) (k_next jq filter k t id o))
        && snaps_ok filter (k_next jq filter k t id o) h' snaps'
    | _, _ => false
    end.

  (* the triggers the hook got at the deliveries themselves: type, object id, object *)
  Fixpoint recv_of (h : list step) (obs_l : list obs) : list step :=
    match h, obs_l with
    | (t, id, o) :: h', ob :: obs' => map (fun t' => (t', id, o)) (o_fired ob) ++ recv_of h' obs'
    | _, _ => []
    end.

  Definition step_eqb : step -> step -> bool := pair_eqb (pair_eqb evtype_eqb N.eqb) json_eqb.

  (* [h1], [obs1]: the changes while the events are saved and what was observed at each;
     [flushed]: the triggers handed over by the unlock, in order; [h2], [obs2]: afterwards *)
  Definition P_win (types : list evtype) (filter : bool) (k : known)
                   (h1 : list step) (obs1 : list obs) (flushed : list step)
                   (h2 : list step) (obs2 : list obs) : bool :=
    snaps_ok filter k h1 (map o_snapshot obs1)
    && list_eqb step_eqb (recv_of h1 obs1 ++ flushed) (triggers_of types filter k h1)
    && P_from jq types filter (k_after filter k h1) h2 obs2.

  (* for a declared binding with objects that exist when it is enabled *)
  Definition P_win_decl (d : decl) (filter : bool) (lst : list (N * json))
                        (h1 : list step) (obs1 : list obs) (flushed : list step)
                        (h2 : list step) (obs2 : list obs) : bool :=
    P_win (declared_types d) filter (known_of_list jq filter lst) h1 obs1 flushed h2 obs2
    && only_listed d (obs1 ++ obs2)
    && match d_exec d with
       | Some l => forallb (fun s : step => listed l (fst (fst s))) flushed
       | None => true
       end.

End Window.
