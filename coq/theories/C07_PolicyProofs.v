(* C07_PolicyProofs.v — the failure policy of the tasks ([t_af], `allowFailure` of their bindings)
   takes no part in WHAT is merged (seeded change C07-7).

   [repolicy f] gives every task another policy, [f x] instead of [t_af x], [f] arbitrary.  Two queue
   layouts that differ in the policies only are each a re-policied copy of the other (take [f] = the
   other one's policy), so "equal under every [repolicy]" is "independent of the allowFailure values".

   - the combiner: result (contexts, monitor ids) identical, queue afterwards the re-policied queue;
   - the task handler: the same executions with the same contexts, the same tasks left in every queue;
   - the specification's vocabulary ([block], [after_block], [stop_rule]) does not see the policy either. *)
From Verif Require Import Common C07_Model C07_Spec C07_Proofs.

Definition repolicy (f : task -> bool) (x : task) : task := with_af (f x) x.
Definition repolicy_qs (f : task -> bool) (qs : qset) : qset :=
  map (fun p => (fst p, map (repolicy f) (snd p))) qs.

(* a stop function that does not look at the policy (nil, the id-based ones of the harness, the task
   handler's stopCombineFn) *)
Definition policy_blind (stopfn : task -> bool) : Prop :=
  forall f x, stopfn (repolicy f x) = stopfn x.

Section Blind.
Variable f : task -> bool.
Let rp := repolicy f.

Lemma iter_step_rp stopfn t b acc x :
  policy_blind stopfn ->
  iter_step (rp t) stopfn (b, map rp acc) (rp x)
  = (fst (iter_step t stopfn (b, acc) x), map rp (snd (iter_step t stopfn (b, acc) x))).
Proof.
  intros Hb. unfold iter_step, rp. rewrite (Hb f x).
  change (t_id (repolicy f x)) with (t_id x). change (t_id (repolicy f t)) with (t_id t).
  change (t_meta (repolicy f x)) with (t_meta x).
  change (t_hook (repolicy f x)) with (t_hook x). change (t_hook (repolicy f t)) with (t_hook t).
  change (t_ty (repolicy f x)) with (t_ty x). change (t_ty (repolicy f t)) with (t_ty t).
  destruct b; [reflexivity|].
  destruct (N.eqb (t_id x) (t_id t)); [reflexivity|].
  destruct (t_meta x); cbn [negb]; [|reflexivity].
  destruct (N.eqb (t_hook x) (t_hook t) && N.eqb (t_ty t) (t_ty x)); cbn [negb fst snd].
  - destruct (stopfn x); cbn [negb fst snd]; [reflexivity|].
    rewrite map_app. reflexivity.
  - reflexivity.
Qed.

Lemma iterate_fold_rp stopfn t q :
  policy_blind stopfn ->
  forall b acc,
    fold_left (iter_step (rp t) stopfn) (map rp q) (b, map rp acc)
    = (fst (fold_left (iter_step t stopfn) q (b, acc)),
       map rp (snd (fold_left (iter_step t stopfn) q (b, acc)))).
Proof.
  intros Hb. induction q as [|x q IH]; intros b acc; [reflexivity|].
  cbn [map fold_left]. rewrite (iter_step_rp stopfn t b acc x Hb).
  destruct (iter_step t stopfn (b, acc) x) as [b' acc']. cbn [fst snd]. apply IH.
Qed.

(* the tasks collected for the merge are the same tasks *)
Lemma iterate_collect_rp stopfn t q :
  policy_blind stopfn ->
  iterate_collect (rp t) stopfn (map rp q) = map rp (iterate_collect t stopfn q).
Proof.
  intros Hb. unfold iterate_collect.
  change (@nil task) with (map rp []) at 1. now rewrite (iterate_fold_rp stopfn t q Hb).
Qed.

Lemma merge_fold_rp l : forall st, fold_left merge_step (map rp l) st = fold_left merge_step l st.
Proof.
  induction l as [|x l IH]; intros st; [reflexivity|].
  cbn [map fold_left]. rewrite IH. f_equal.
Qed.

Lemma filter_keep_rp m q : filter (keep_task m) (map rp q) = map rp (filter (keep_task m) q).
Proof.
  induction q as [|x q IH]; [reflexivity|]. cbn [map filter].
  change (keep_task m (rp x)) with (keep_task m x).
  destruct (keep_task m x); cbn [map]; now rewrite IH.
Qed.

(* the combiner *)
Lemma combine_at_rp stopfn t qi qf :
  policy_blind stopfn ->
  combine_at stopfn (rp t) (map rp qi) (map rp qf)
  = (fst (combine_at stopfn t qi qf), map rp (snd (combine_at stopfn t qi qf))).
Proof.
  intros Hb. unfold combine_at. change (t_meta (rp t)) with (t_meta t).
  destruct (t_meta t); cbn [negb]; [|reflexivity].
  rewrite (iterate_collect_rp stopfn t qi Hb).
  destruct (iterate_collect t stopfn qi) as [|x l]; [reflexivity|].
  change (map rp (x :: l)) with (rp x :: map rp l).
  change (rp x :: map rp l) with (map rp (x :: l)). rewrite merge_fold_rp.
  change (t_ctxs (rp t)) with (t_ctxs t). change (t_mids (rp t)) with (t_mids t).
  change (t_id (rp t)) with (t_id t).
  destruct (fold_left merge_step (x :: l) (t_ctxs t, t_mids t, fmap_set (t_id t) true [])) as [[cc mi] tf].
  cbn [fst snd]. now rewrite filter_keep_rp.
Qed.

Lemma get_by_name_rp n qs :
  get_by_name n (repolicy_qs f qs) = option_map (map rp) (get_by_name n qs).
Proof.
  induction qs as [|p qs IH]; [reflexivity|]. cbn [repolicy_qs map get_by_name fst snd].
  destruct (N.eqb (fst p) n); [reflexivity | exact IH].
Qed.

Lemma set_queue_rp n q qs :
  set_queue n (map rp q) (repolicy_qs f qs) = repolicy_qs f (set_queue n q qs).
Proof.
  induction qs as [|p qs IH]; [reflexivity|]. cbn [repolicy_qs map set_queue fst snd].
  destruct (N.eqb (fst p) n); cbn [map fst snd]; [reflexivity|]. f_equal. exact IH.
Qed.

(* the call as taskHandleHookRun makes it (nothing arrives meanwhile) *)
Lemma combine_set_rp stopfn t qs :
  policy_blind stopfn ->
  combine_set stopfn (rp t) (repolicy_qs f qs) []
  = (fst (combine_set stopfn t qs []), repolicy_qs f (snd (combine_set stopfn t qs []))).
Proof.
  intros Hb. unfold combine_set. rewrite !arrive_nil. change (t_qn (rp t)) with (t_qn t).
  rewrite get_by_name_rp. destruct (get_by_name (t_qn t) qs) as [qi|]; cbn [option_map]; [|reflexivity].
  cbn [arrivals]. rewrite !app_nil_r. rewrite (combine_at_rp stopfn t qi qi Hb). cbn [fst snd].
  now rewrite set_queue_rp.
Qed.

Lemma stop_combine_blind t : policy_blind (stop_combine t).
Proof. intros g x. unfold stop_combine. destruct (is_sync t); reflexivity. Qed.

(* the task handler: the same executions (hook, contexts), the same tasks left in every queue, and the
   executed task's stored contexts and monitor ids are the same - whatever the policies are *)
Lemma handle_hook_run_rp v0 t qs :
  let h := handle_hook_run v0 t qs in
  let h' := handle_hook_run v0 (rp t) (repolicy_qs f qs) in
  fst (fst h') = fst (fst h)
  /\ snd h' = repolicy_qs f (snd h)
  /\ with_af false (snd (fst h')) = with_af false (snd (fst h)).
Proof.
  cbv zeta. unfold handle_hook_run. change (gate v0 (rp t)) with (gate v0 t).
  change (should_run v0 (rp t)) with (should_run v0 t).
  destruct (gate v0 t).
  - change (stop_combine (rp t)) with (stop_combine t).
    rewrite (combine_set_rp (stop_combine t) t qs (stop_combine_blind t)). cbn [fst snd].
    repeat split; reflexivity.
  - cbn [fst snd]. repeat split; reflexivity.
Qed.

(* ---- the specification does not see the policy ---- *)
Lemma mergeable_rp sp t x : policy_blind sp -> mergeable sp (rp t) (rp x) = mergeable sp t x.
Proof. intros Hb. unfold mergeable, rp. now rewrite (Hb f x). Qed.

Lemma block_rp sp t rest :
  policy_blind sp ->
  block sp (rp t) (map rp rest) = map rp (block sp t rest)
  /\ after_block sp (rp t) (map rp rest) = map rp (after_block sp t rest).
Proof.
  intros Hb. unfold block, after_block. induction rest as [|x r [IH1 IH2]]; [split; reflexivity|].
  cbn [map take_while drop_while]. rewrite (mergeable_rp sp t x Hb).
  destruct (mergeable sp t x); cbn [map]; [|split; reflexivity].
  split; [now rewrite IH1 | exact IH2].
Qed.

Lemma stop_rule_rp t : stop_rule (rp t) = stop_rule t.
Proof. reflexivity. Qed.

Lemma stop_rule_blind t : policy_blind (stop_rule t).
Proof.
  intros g x. unfold stop_rule.
  destruct (t_kube t && synchronization t && N.eqb (t_group t) 0); [reflexivity|].
  destruct (synchronization t); reflexivity.
Qed.

End Blind.

Lemma stop_of_blind ids : policy_blind (stop_of ids).
Proof. intros g x. reflexivity. Qed.

(* one observed call of the combiner (what the harness compares): the observation is THE SAME *)
Lemma run_model_rp f i :
  run_model (mkIn (repolicy f (i_t i)) (i_stop i) (map (repolicy f) (i_q i)) (map (repolicy f) (i_app i)))
  = run_model i.
Proof.
  unfold run_model, combine_concurrent. cbn [i_t i_stop i_q i_app].
  rewrite <- map_app, (combine_at_rp f (stop_of (i_stop i)) (i_t i) (i_q i) (i_q i ++ i_app i) (stop_of_blind _)).
  destruct (combine_at (stop_of (i_stop i)) (i_t i) (i_q i) (i_q i ++ i_app i)) as [r q'].
  cbn [fst snd]. f_equal. rewrite map_map. reflexivity.
Qed.

(* the rule of the neighbouring property (C04), as the model has it: after a merge the head allows
   failure iff it did and every collected task does *)
Lemma combined_af_rule t qs r :
  combined_af t qs (Some r)
  = t_af t && match get_by_name (t_qn t) qs with
              | Some qi => forallb t_af (iterate_collect t (stop_combine t) qi)
              | None => true
              end.
Proof. reflexivity. Qed.
