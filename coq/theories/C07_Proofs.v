(* C07_Proofs.v — lemmas and proofs for C07 (combine + compaction). *)
From Verif Require Import Common C07_Model C07_Spec.


(* ------------------------------------------------------------------ generic lists *)

Lemma take_drop_while A (f : A -> bool) l : take_while f l ++ drop_while f l = l.
Proof. induction l as [|x l IH]; simpl; [reflexivity|]. destruct (f x); simpl; [now rewrite IH | reflexivity]. Qed.

Lemma take_while_all A (f : A -> bool) l : Forall (fun x => f x = true) (take_while f l).
Proof. induction l as [|x l IH]; simpl; [constructor|]. destruct (f x) eqn:E; [constructor; assumption | constructor]. Qed.

Lemma drop_while_head A (f : A -> bool) l y tl : drop_while f l = y :: tl -> f y = false.
Proof.
  induction l as [|x l IH]; simpl; [discriminate|].
  destruct (f x) eqn:E; [assumption|]. intros H; inversion H; subst; assumption.
Qed.

Lemma filter_all_true A (f : A -> bool) l : (forall x, In x l -> f x = true) -> filter f l = l.
Proof.
  induction l as [|x l IH]; intros H; simpl; [reflexivity|].
  rewrite (H x (or_introl eq_refl)). f_equal. apply IH. intros y Hy; apply H; now right.
Qed.

Lemma filter_all_false A (f : A -> bool) l : (forall x, In x l -> f x = false) -> filter f l = [].
Proof.
  induction l as [|x l IH]; intros H; simpl; [reflexivity|].
  rewrite (H x (or_introl eq_refl)). apply IH. intros y Hy; apply H; now right.
Qed.

Lemma NoDup_app_disj A (l1 l2 : list A) : NoDup (l1 ++ l2) -> forall x, In x l1 -> In x l2 -> False.
Proof.
  induction l1 as [|a l1 IH]; simpl; intros H x H1 H2; [contradiction|].
  inversion H as [|? ? Hn Hd]; subst. destruct H1 as [->|H1].
  - apply Hn, in_or_app; now right.
  - exact (IH Hd x H1 H2).
Qed.

Lemma NoDup_app_r A (l1 l2 : list A) : NoDup (l1 ++ l2) -> NoDup l2.
Proof. induction l1 as [|a l1 IH]; simpl; intros H; [assumption|]. inversion H; subst; auto. Qed.

Lemma NoDup_app_l A (l1 l2 : list A) : NoDup (l1 ++ l2) -> NoDup l1.
Proof.
  induction l1 as [|a l1 IH]; simpl; intros H; [constructor|].
  inversion H as [|? ? Hn Hd]; subst. constructor; [|auto].
  intros Hin. apply Hn, in_or_app. now left.
Qed.

Lemma nodupb_NoDup l : nodupb l = true -> NoDup l.
Proof.
  induction l as [|x l IH]; simpl; intros H; [constructor|].
  apply andb_true_iff in H as [H1 H2]. constructor; [|now apply IH].
  intros Hin. apply mem_N_In in Hin. rewrite Hin in H1. discriminate.
Qed.

Lemma NoDup_nodupb l : NoDup l -> nodupb l = true.
Proof.
  induction 1 as [|x l Hn Hd IH]; simpl; [reflexivity|].
  rewrite IH, andb_true_r. destruct (mem_N x l) eqn:E; [|reflexivity].
  apply mem_N_In in E. contradiction.
Qed.

Lemma ctx_eqb_refl c : ctx_eqb c c = true.
Proof. unfold ctx_eqb. now rewrite !N.eqb_refl, Bool.eqb_reflx. Qed.
Lemma ctxs_eqb_refl l : ctxs_eqb l l = true.
Proof. apply list_eqb_refl, ctx_eqb_refl. Qed.
Lemma ns_eqb_refl l : ns_eqb l l = true.
Proof. apply list_eqb_refl, N.eqb_refl. Qed.

(* ------------------------------------------------------------------ Iterate *)

Lemma fold_stopped t stop l acc : fold_left (iter_step t stop) l (true, acc) = (true, acc).
Proof. induction l as [|x l IH]; simpl; [reflexivity | exact IH]. Qed.

Lemma collect_rest t stop rest : forall acc,
  Forall (fun x => t_id x <> t_id t) rest ->
  snd (fold_left (iter_step t stop) rest (false, acc))
  = acc ++ take_while (mergeable stop t) rest.
Proof.
  induction rest as [|x rest IH]; intros acc H.
  - simpl. now rewrite app_nil_r.
  - inversion H as [|? ? Hx Hr]; subst.
    apply N.eqb_neq in Hx.
    cbn [fold_left take_while]. unfold iter_step at 2. rewrite Hx.
    assert (Em : mergeable stop t x
                 = t_meta x && (N.eqb (t_hook x) (t_hook t) && N.eqb (t_ty t) (t_ty x)) && negb (stop x)).
    { unfold mergeable, same_kind. rewrite (N.eqb_sym (t_ty x) (t_ty t)), andb_assoc. reflexivity. }
    rewrite Em. clear Em.
    destruct (t_meta x); cbn [negb andb];
      [| rewrite fold_stopped; simpl; now rewrite app_nil_r].
    destruct (N.eqb (t_hook x) (t_hook t) && N.eqb (t_ty t) (t_ty x)); cbn [negb andb];
      [| rewrite fold_stopped; simpl; now rewrite app_nil_r].
    destruct (stop x); cbn [negb];
      [rewrite fold_stopped; simpl; now rewrite app_nil_r |].
    rewrite IH by assumption. now rewrite <- app_assoc.
Qed.

Lemma collect_head t stop h rest :
  t_id h = t_id t -> Forall (fun x => t_id x <> t_id t) rest ->
  iterate_collect t stop (h :: rest) = block stop t rest.
Proof.
  intros Hh Hr. unfold iterate_collect, block. cbn [fold_left]. unfold iter_step at 2.
  rewrite Hh, N.eqb_refl. now rewrite collect_rest.
Qed.

(* ------------------------------------------------------------------ merge loop *)

Lemma merge_fold others : forall c m f,
  fold_left merge_step others (c, m, f)
  = (c ++ flat_map t_ctxs others, m ++ flat_map t_mids others,
     rev (map (fun x => (t_id x, false)) others) ++ f).
Proof.
  induction others as [|x others IH]; intros c m f.
  - simpl. now rewrite !app_nil_r.
  - cbn [fold_left]. unfold merge_step at 2. rewrite IH. cbn [flat_map map rev].
    f_equal; [f_equal|].
    + now rewrite <- app_assoc.
    + destruct (t_mids x) as [|a ms]; [reflexivity | now rewrite <- app_assoc].
    + unfold fmap_set. now rewrite <- app_assoc.
Qed.

(* ------------------------------------------------------------------ tasksFilter *)

Lemma fmap_get_app k m1 m2 :
  fmap_get k (m1 ++ m2) = match fmap_get k m1 with Some v => Some v | None => fmap_get k m2 end.
Proof.
  induction m1 as [|[k' v] m1 IH]; simpl; [reflexivity|].
  destruct (N.eqb k' k); [reflexivity | exact IH].
Qed.

Lemma fmap_allfalse m k : Forall (fun p => snd p = false) m ->
  (In k (map fst m) -> fmap_get k m = Some false) /\ (~ In k (map fst m) -> fmap_get k m = None).
Proof.
  induction 1 as [|[k' v] m Hv Hm IH]; simpl.
  - split; [contradiction | reflexivity].
  - simpl in Hv. subst v. destruct (N.eqb k' k) eqn:E.
    + split; [reflexivity|]. apply N.eqb_eq in E. intros Hn. exfalso. apply Hn. now left.
    + apply N.eqb_neq in E. destruct IH as [IH1 IH2]. split.
      * intros [Hk|Hk]; [contradiction | now apply IH1].
      * intros Hn. apply IH2. intros Hk. apply Hn. now right.
Qed.

Lemma falsemap_keys others :
  map fst (rev (map (fun x : task => (t_id x, false)) others)) = rev (map t_id others).
Proof. rewrite map_rev, map_map. reflexivity. Qed.

Lemma keep_task_spec t others x :
  keep_task (rev (map (fun x => (t_id x, false)) others) ++ fmap_set (t_id t) true []) x
  = negb (mem_N (t_id x) (map t_id others)).
Proof.
  unfold keep_task. rewrite fmap_get_app.
  assert (Hf : Forall (fun p : N * bool => snd p = false)
                      (rev (map (fun x : task => (t_id x, false)) others))).
  { apply Forall_forall. intros p Hp. apply in_rev in Hp. apply in_map_iff in Hp as [y [<- _]]. reflexivity. }
  destruct (fmap_allfalse _ (t_id x) Hf) as [H1 H2]. rewrite falsemap_keys in H1, H2.
  destruct (mem_N (t_id x) (map t_id others)) eqn:E.
  - apply mem_N_In in E. rewrite H1 by (now apply -> in_rev). reflexivity.
  - rewrite H2.
    + unfold fmap_set; simpl. destruct (N.eqb (t_id t) (t_id x)); reflexivity.
    + intros Hin. apply in_rev in Hin. apply mem_N_In in Hin. rewrite Hin in E. discriminate.
Qed.

(* ------------------------------------------------------------------ Filter *)

Lemma filter_remove_block (a b c : list task) :
  NoDup (map t_id (a ++ b ++ c)) ->
  filter (fun x => negb (mem_N (t_id x) (map t_id b))) (a ++ b ++ c) = a ++ c.
Proof.
  intros Hnd. rewrite !map_app in Hnd. rewrite !filter_app.
  assert (Hab : forall x, In x (map t_id a) -> In x (map t_id b) -> False).
  { intros x Ha Hb. apply (NoDup_app_disj _ _ _ Hnd x Ha). apply in_or_app. now left. }
  assert (Hbc : forall x, In x (map t_id b) -> In x (map t_id c) -> False).
  { apply NoDup_app_disj. exact (NoDup_app_r _ _ _ Hnd). }
  rewrite (filter_all_true _ _ a), (filter_all_false _ _ b), (filter_all_true _ _ c); [reflexivity | | |].
  - intros x Hx. destruct (mem_N (t_id x) (map t_id b)) eqn:E; [|reflexivity].
    apply mem_N_In in E. exfalso. apply (Hbc (t_id x) E). now apply in_map.
  - intros x Hx. assert (E : mem_N (t_id x) (map t_id b) = true) by (apply mem_N_In; now apply in_map).
    now rewrite E.
  - intros x Hx. destruct (mem_N (t_id x) (map t_id b)) eqn:E; [|reflexivity].
    apply mem_N_In in E. exfalso. apply (Hab (t_id x)); [now apply in_map | exact E].
Qed.

(* ------------------------------------------------------------------ the function *)

Lemma rest_ids_differ t h rest app :
  t_id h = t_id t -> NoDup (map t_id (h :: rest ++ app)) ->
  Forall (fun x => t_id x <> t_id t) rest.
Proof.
  intros Hh Hnd. simpl in Hnd. inversion Hnd as [|? ? Hn _]; subst.
  apply Forall_forall. intros x Hx E. apply Hn. rewrite Hh, <- E.
  apply in_map, in_or_app. now left.
Qed.

(* complete description of one call on a well-formed layout; [h] is the queue's first
   entry, which carries the id of the executed task [t] *)
Lemma combine_at_char stop t h rest app :
  t_meta t = true -> t_id h = t_id t -> NoDup (map t_id (h :: rest ++ app)) ->
  combine_at stop t (h :: rest) ((h :: rest) ++ app) =
  match block stop t rest with
  | [] => (None, h :: after_block stop t rest ++ app)
  | b => (Some (mkResult (compact (t_ctxs t ++ flat_map t_ctxs b))
                         (t_mids t ++ flat_map t_mids b)),
          h :: after_block stop t rest ++ app)
  end.
Proof.
  intros Hm Hh Hnd. unfold combine_at. rewrite Hm. cbn [negb].
  rewrite (collect_head t stop h rest Hh (rest_ids_differ t h rest app Hh Hnd)).
  pose proof (take_drop_while _ (mergeable stop t) rest) as Hsplit.
  fold (block stop t rest) in Hsplit. fold (after_block stop t rest) in Hsplit.
  destruct (block stop t rest) as [|b0 b] eqn:Eb.
  - simpl in Hsplit. rewrite Hsplit. reflexivity.
  - rewrite merge_fold. cbn iota beta. f_equal.
    rewrite (filter_ext _ _ (keep_task_spec t (b0 :: b))).
    remember (after_block stop t rest) as a eqn:Ea. clear Ea Eb. subst rest.
    change ((h :: (b0 :: b) ++ a) ++ app) with ([h] ++ ((b0 :: b) ++ a) ++ app).
    rewrite <- (app_assoc (b0 :: b)).
    rewrite filter_remove_block; [reflexivity|].
    rewrite <- (app_assoc (b0 :: b)) in Hnd. exact Hnd.
Qed.

(* ------------------------------------------------------------------ compaction *)

Lemma compact_cons c r :
  compact (c :: r) = if may_leave_out c r then compact r else c :: compact r.
Proof. unfold may_leave_out. cbn [compact]. destruct (negb (N.eqb (c_group c) 0) && _); reflexivity. Qed.

Lemma runs_cons c r :
  runs (c :: r) =
  match runs r with
  | (d :: run) :: rs =>
      if N.eqb (c_group d) (c_group c) then (c :: d :: run) :: rs else [c] :: (d :: run) :: rs
  | _ => [[c]]
  end.
Proof. reflexivity. Qed.

(* the group of a run = the group of its first context *)
Definition run_group (run : list ctx) : N := match run with c :: _ => c_group c | [] => 0%N end.
(* a run is non-empty and all its contexts carry the run's group *)
Definition uniform_run (run : list ctx) : Prop :=
  run <> [] /\ Forall (fun x => c_group x = run_group run) run.
(* neighbouring runs have different groups: runs are maximal *)
Fixpoint adjacent_differ (rs : list (list ctx)) : Prop :=
  match rs with
  | r1 :: ((r2 :: _) as tl) => run_group r1 <> run_group r2 /\ adjacent_differ tl
  | _ => True
  end.

Lemma runs_inv l :
  concat (runs l) = l /\ Forall uniform_run (runs l) /\ adjacent_differ (runs l)
  /\ match l with [] => runs l = [] | d :: _ => exists run rs, runs l = (d :: run) :: rs end.
Proof.
  induction l as [|c r IH]; [simpl; repeat split; constructor|].
  destruct IH as (Hc & Hf & Ha & Hs). destruct r as [|d r'].
  - simpl. repeat split; try constructor; try constructor; eauto. discriminate.
  - destruct Hs as (run & rs & E). rewrite runs_cons, E. rewrite E in Hc, Hf, Ha.
    inversion Hf as [|? ? [_ Hu] Hfr]; subst. simpl in Hu.
    destruct (N.eqb (c_group d) (c_group c)) eqn:G.
    + apply N.eqb_eq in G. repeat split.
      * simpl. simpl in Hc. now rewrite Hc.
      * constructor; [|assumption]. split; [discriminate|]. simpl.
        constructor; [reflexivity|]. rewrite <- G. exact Hu.
      * destruct rs as [|r2 rs2]; [exact I|]. simpl in Ha |- *. rewrite <- G. exact Ha.
      * eauto.
    + apply N.eqb_neq in G. repeat split.
      * simpl. simpl in Hc. now rewrite Hc.
      * constructor; [|assumption]. split; [discriminate|]. constructor; [reflexivity | constructor].
      * simpl. congruence.
      * exact Ha.
      * eauto.
Qed.

Lemma compact_runs l : compact l = spec_compact l.
Proof.
  unfold spec_compact. induction l as [|c r IH]; [reflexivity|].
  destruct r as [|d r'].
  - simpl. destruct (N.eqb (c_group c) 0); reflexivity.
  - destruct (runs_inv (d :: r')) as (_ & _ & _ & run & rs & E).
    rewrite runs_cons, E. rewrite E in IH. rewrite compact_cons, IH. unfold may_leave_out.
    cbn [flat_map].
    destruct (N.eqb (c_group c) 0) eqn:Z; destruct (N.eqb (c_group d) (c_group c)) eqn:G;
      cbn [negb andb flat_map survivors last_of app].
    + apply N.eqb_eq in G. rewrite Z, G, Z. reflexivity.
    + rewrite Z. reflexivity.
    + apply N.eqb_eq in G. rewrite Z, G, Z. reflexivity.
    + rewrite Z. reflexivity.
Qed.

Inductive sublist {A} : list A -> list A -> Prop :=
| sl_nil : sublist [] []
| sl_skip x a b : sublist a b -> sublist a (x :: b)
| sl_keep x a b : sublist a b -> sublist (x :: a) (x :: b).

Lemma compact_sublist l : sublist (compact l) l.
Proof.
  induction l as [|c r IH]; [constructor|]. rewrite compact_cons.
  destruct (may_leave_out c r); now constructor.
Qed.

Definition ungrouped (c : ctx) : bool := N.eqb (c_group c) 0.

Lemma compact_ungrouped l : filter ungrouped (compact l) = filter ungrouped l.
Proof.
  induction l as [|c r IH]; [reflexivity|]. rewrite compact_cons.
  unfold may_leave_out. cbn [filter]. unfold ungrouped at 2 3.
  destruct (N.eqb (c_group c) 0) eqn:Z; cbn [negb andb filter].
  - unfold ungrouped at 1. rewrite Z. now rewrite IH.
  - destruct (match r with [] => false | nxt :: _ => N.eqb (c_group nxt) (c_group c) end);
      [exact IH|]. cbn [filter]. unfold ungrouped at 1. rewrite Z. exact IH.
Qed.

(* compaction is idempotent: contexts that went through a combine are in compacted form
   (so a task that failed and is retried carries contexts on which compact is the identity) *)
Definition hd_group (l : list ctx) : option N :=
  match l with c :: _ => Some (c_group c) | [] => None end.

Lemma may_leave_out_hd c l1 l2 : hd_group l1 = hd_group l2 -> may_leave_out c l1 = may_leave_out c l2.
Proof.
  unfold may_leave_out. destruct l1 as [|a l1], l2 as [|b l2]; simpl; intros H;
    try discriminate; try reflexivity. inversion H as [H']. now rewrite H'.
Qed.

Lemma compact_hd_group l : hd_group (compact l) = hd_group l.
Proof.
  induction l as [|c r IH]; [reflexivity|]. rewrite compact_cons.
  destruct (may_leave_out c r) eqn:M; [|reflexivity].
  rewrite IH. unfold may_leave_out in M. destruct r as [|d r']; [now rewrite andb_false_r in M|].
  apply andb_true_iff in M as [_ M]. apply N.eqb_eq in M. simpl. now rewrite M.
Qed.

Lemma compact_idem l : compact (compact l) = compact l.
Proof.
  induction l as [|c r IH]; [reflexivity|]. rewrite compact_cons.
  destruct (may_leave_out c r) eqn:M; [exact IH|].
  rewrite compact_cons, (may_leave_out_hd c _ _ (compact_hd_group r)), M. now rewrite IH.
Qed.

Lemma left_out_ok_refl l : left_out_ok l l = true.
Proof. induction l as [|c r IH]; [reflexivity|]. simpl. now rewrite ctx_eqb_refl, IH. Qed.

Lemma left_out_ok_compact l : left_out_ok l (compact l) = true.
Proof.
  induction l as [|c r IH]; [reflexivity|]. rewrite compact_cons. cbn [left_out_ok].
  destruct (may_leave_out c r).
  - rewrite IH. simpl. now rewrite orb_true_r.
  - now rewrite ctx_eqb_refl, IH.
Qed.

(* ------------------------------------------------------------------ the theorems *)

Section Layout.
  Variables (stop : task -> bool) (t : task) (rest app : list task).
  Hypothesis Hmeta : t_meta t = true.
  Hypothesis Hnd : NoDup (map t_id (t :: rest ++ app)).

  Let b := block stop t rest.
  Let C := t_ctxs t ++ flat_map t_ctxs b.

  Lemma char_t :
    combine_concurrent stop t (t :: rest) app =
    match b with
    | [] => (None, t :: after_block stop t rest ++ app)
    | _ => (Some (mkResult (compact C) (t_mids t ++ flat_map t_mids b)),
            t :: after_block stop t rest ++ app)
    end.
  Proof.
    unfold combine_concurrent. rewrite (combine_at_char stop t t rest app Hmeta eq_refl Hnd).
    unfold C, b. destruct (block stop t rest); reflexivity.
  Qed.

  Lemma contexts_are_concat_compacted :
    let r := fst (combine_concurrent stop t (t :: rest) app) in
    (r = None <-> b = []) /\
    (forall res, r = Some res -> r_ctxs res = spec_compact C) /\
    delivered_ctxs t r = (if is_nil b then t_ctxs t else spec_compact C) /\
    (compact (t_ctxs t) = t_ctxs t -> delivered_ctxs t r = spec_compact C).
  Proof.
    cbv zeta. rewrite char_t. subst C. destruct b as [|b0 b'] eqn:Eb; cbn [fst is_nil delivered_ctxs r_ctxs].
    - repeat split; try discriminate.
      intros Hn. cbn [flat_map]. rewrite app_nil_r, <- compact_runs. now symmetry.
    - repeat split; try discriminate.
      + intros res H. inversion H; subst. apply compact_runs.
      + apply compact_runs.
      + intros _. apply compact_runs.
  Qed.

  Lemma queue_remainder :
    snd (combine_concurrent stop t (t :: rest) app) = t :: after_block stop t rest ++ app
    /\ rest = b ++ after_block stop t rest.
  Proof.
    rewrite char_t. split.
    - destruct b; reflexivity.
    - symmetry. apply take_drop_while.
  Qed.

  Lemma never_merges_other_hook_or_type :
    (forall x, In x (t :: rest ++ app) ->
               ~ In (t_id x) (map t_id (snd (combine_concurrent stop t (t :: rest) app))) ->
               In x b /\ t_meta x = true /\ t_hook x = t_hook t /\ t_ty x = t_ty t /\ stop x = false)
    /\ (forall y tl, after_block stop t rest = y :: tl -> mergeable stop t y = false).
  Proof.
    split.
    - intros x Hin Hout. destruct queue_remainder as [Hq Hr]. rewrite Hq in Hout.
      assert (Hb : In x b).
      { destruct Hin as [<-|Hin]; [exfalso; apply Hout; now left|].
        rewrite Hr in Hin. apply in_app_or in Hin as [Hin|Hin].
        - apply in_app_or in Hin as [Hin|Hin]; [assumption|].
          exfalso. apply Hout. right. apply in_map, in_or_app. now left.
        - exfalso. apply Hout. right. apply in_map, in_or_app. now right. }
      split; [assumption|].
      pose proof (take_while_all _ (mergeable stop t) rest) as Hall.
      rewrite Forall_forall in Hall. specialize (Hall x Hb).
      unfold mergeable, same_kind in Hall.
      apply andb_true_iff in Hall as [Hall Hs]. apply andb_true_iff in Hall as [Hall Hty].
      apply andb_true_iff in Hall as [Hm Hh].
      apply N.eqb_eq in Hty, Hh. destruct (stop x); [discriminate|]. auto.
    - intros y tl. apply drop_while_head.
  Qed.

  Lemma monitor_ids_concat :
    let r := fst (combine_concurrent stop t (t :: rest) app) in
    (forall res, r = Some res -> r_mids res = t_mids t ++ flat_map t_mids b) /\
    delivered_mids t r = t_mids t ++ flat_map t_mids b.
  Proof.
    cbv zeta. rewrite char_t. destruct b as [|b0 b'] eqn:Eb; cbn [fst delivered_mids r_mids].
    - split; [discriminate|]. simpl. now rewrite app_nil_r.
    - split; [intros res H; inversion H; reflexivity|].
      destruct (t_mids t ++ flat_map t_mids (b0 :: b')) eqn:E; [|reflexivity].
      apply app_eq_nil in E as [E1 E2]. rewrite E1. reflexivity.
  Qed.

  Lemma NoDup_without_app : NoDup (map t_id (t :: rest ++ [])).
  Proof.
    rewrite app_nil_r. simpl in Hnd |- *. rewrite map_app in Hnd.
    inversion Hnd as [|? ? Hn Hd]; subst. constructor.
    - intros H. apply Hn, in_or_app. now left.
    - exact (NoDup_app_l _ _ _ Hd).
  Qed.
End Layout.

Lemma concurrent_appends_survive stop t rest app :
  t_meta t = true -> NoDup (map t_id (t :: rest ++ app)) ->
  combine_concurrent stop t (t :: rest) app
  = (fst (combine stop t (t :: rest)), snd (combine stop t (t :: rest)) ++ app).
Proof.
  intros Hm Hnd. rewrite (char_t stop t rest app Hm Hnd).
  assert (E : combine stop t (t :: rest) = combine_concurrent stop t (t :: rest) []).
  { unfold combine, combine_concurrent. now rewrite app_nil_r. }
  rewrite E, (char_t stop t rest [] Hm (NoDup_without_app t rest app Hnd)).
  destruct (block stop t rest); cbn [fst snd]; rewrite app_nil_r; reflexivity.
Qed.

Lemma compact_keeps_last_of_run l :
  let rs := runs l in
  concat rs = l /\ Forall uniform_run rs /\ adjacent_differ rs
  /\ compact l = flat_map survivors rs
  /\ sublist (compact l) l
  /\ filter ungrouped (compact l) = filter ungrouped l
  /\ compact (compact l) = compact l.
Proof.
  cbv zeta. destruct (runs_inv l) as (H1 & H2 & H3 & _).
  split; [exact H1|]. split; [exact H2|]. split; [exact H3|].
  split; [exact (compact_runs l)|]. split; [apply compact_sublist|].
  split; [apply compact_ungrouped | apply compact_idem].
Qed.

(* ------------------------------------------------------------------ P on the model *)

Lemma wf_props i :
  wf i = true ->
  exists h rest, i_q i = h :: rest /\ t_id h = t_id (i_t i) /\ t_meta (i_t i) = true
                 /\ NoDup (map t_id (h :: rest ++ i_app i)).
Proof.
  unfold wf. intros H. apply andb_true_iff in H as [H Hn]. apply andb_true_iff in H as [Hh Hm].
  destruct (i_q i) as [|h rest] eqn:Eq; [discriminate|].
  exists h, rest. apply N.eqb_eq in Hh. repeat split; auto.
  apply nodupb_NoDup in Hn. exact Hn.
Qed.

Lemma P_holds i : P i (run_model i) = true.
Proof.
  unfold P. destruct (wf i) eqn:W; [|reflexivity].
  destruct (wf_props i W) as (h & rest & Eq & Hh & Hm & Hnd).
  unfold run_model, combine_concurrent. rewrite Eq.
  rewrite (combine_at_char (stop_of (i_stop i)) (i_t i) h rest (i_app i) Hm Hh Hnd).
  cbn [tl firstn app].
  destruct (block (stop_of (i_stop i)) (i_t i) rest) as [|b0 b] eqn:Eb.
  - unfold obs_ctxs, obs_mids. cbn [option_map o_res o_queue flat_map is_nil orb].
    rewrite !app_nil_r, left_out_ok_refl, !ns_eqb_refl. reflexivity.
  - unfold obs_ctxs, obs_mids. cbn [option_map o_res o_queue is_nil orb r_ctxs r_mids].
    rewrite left_out_ok_compact, compact_runs, ctxs_eqb_refl, ns_eqb_refl. cbn [andb].
    destruct (t_mids (i_t i) ++ flat_map t_mids (b0 :: b)) eqn:E.
    + apply app_eq_nil in E as [E1 E2]. rewrite E1. reflexivity.
    + apply ns_eqb_refl.
Qed.

(* the exact reading: with the head's own contexts in compacted form (always the case
   for tasks the operator creates and for tasks that went through a combine) the
   observation equals the compaction of the concatenation, merged or not *)
Lemma P_exact i :
  wf i = true -> compact (t_ctxs (i_t i)) = t_ctxs (i_t i) ->
  obs_ctxs (i_t i) (run_model i)
  = spec_compact (t_ctxs (i_t i) ++ flat_map t_ctxs (block (stop_of (i_stop i)) (i_t i) (tl (i_q i)))).
Proof.
  intros W Hn. destruct (wf_props i W) as (h & rest & Eq & Hh & Hm & Hnd).
  unfold run_model, combine_concurrent. rewrite Eq.
  rewrite (combine_at_char (stop_of (i_stop i)) (i_t i) h rest (i_app i) Hm Hh Hnd). cbn [tl].
  destruct (block (stop_of (i_stop i)) (i_t i) rest) as [|b0 b] eqn:Eb;
    unfold obs_ctxs; cbn [option_map o_res flat_map r_ctxs].
  - rewrite app_nil_r, <- compact_runs. now symmetry.
  - apply compact_runs.
Qed.

(* ====================================================================== part 2: the queue set *)

Lemma named_get_by_name n (qs : qset) : queue_named n qs = get_by_name n qs.
Proof.
  unfold queue_named, named. induction qs as [|p qs IH]; [reflexivity|].
  cbn [find get_by_name]. destruct (N.eqb (fst p) n); [reflexivity | exact IH].
Qed.

Lemma arrived_arrivals n app : arrived n app = arrivals n app.
Proof.
  unfold arrived. induction app as [|p app IH]; [reflexivity|].
  cbn [filter arrivals]. destruct (N.eqb (fst p) n); cbn [map]; now rewrite IH.
Qed.

Lemma arrivals_nil n : arrivals n [] = [].
Proof. reflexivity. Qed.

Lemma arrive_nil qs : arrive [] qs = qs.
Proof.
  induction qs as [|[n q] qs IH]; [reflexivity|].
  unfold arrive in *. cbn [map fst snd arrivals]. rewrite app_nil_r. f_equal. exact IH.
Qed.

Lemma map_fst_arrive app qs : map fst (arrive app qs) = map fst qs.
Proof. unfold arrive. rewrite map_map. reflexivity. Qed.

Lemma map_fst_set_queue name q' qs : map fst (set_queue name q' qs) = map fst qs.
Proof.
  induction qs as [|p qs IH]; [reflexivity|]. cbn [set_queue].
  destruct (N.eqb (fst p) name); cbn [map fst]; [reflexivity | now rewrite IH].
Qed.

Lemma get_arrive n app qs :
  get_by_name n (arrive app qs) = option_map (fun q => q ++ arrivals n app) (get_by_name n qs).
Proof.
  unfold arrive. induction qs as [|p qs IH]; [reflexivity|].
  cbn [map get_by_name fst snd]. destruct (N.eqb (fst p) n) eqn:E; [|exact IH].
  apply N.eqb_eq in E. now rewrite E.
Qed.

Lemma get_set_same name q' qs q :
  get_by_name name qs = Some q -> get_by_name name (set_queue name q' qs) = Some q'.
Proof.
  induction qs as [|p qs IH]; [discriminate|]. cbn [get_by_name set_queue].
  destruct (N.eqb (fst p) name) eqn:E; intros H.
  - cbn [get_by_name fst snd]. now rewrite E.
  - cbn [get_by_name]. rewrite E. now apply IH.
Qed.

Lemma get_set_other n name q' qs :
  n <> name -> get_by_name n (set_queue name q' qs) = get_by_name n qs.
Proof.
  intros Hn. induction qs as [|p qs IH]; [reflexivity|]. cbn [set_queue].
  destruct (N.eqb (fst p) name) eqn:E.
  - apply N.eqb_eq in E. cbn [get_by_name fst snd].
    assert (F : N.eqb (fst p) n = false) by (apply N.eqb_neq; congruence). now rewrite F.
  - cbn [get_by_name]. destruct (N.eqb (fst p) n); [reflexivity | exact IH].
Qed.

Lemma set_set name a b qs : set_queue name a (set_queue name b qs) = set_queue name a qs.
Proof.
  induction qs as [|p qs IH]; [reflexivity|]. cbn [set_queue].
  destruct (N.eqb (fst p) name) eqn:E; cbn [set_queue fst]; rewrite E; [reflexivity | now rewrite IH].
Qed.

Lemma get_in_names n qs : In n (map fst qs) -> exists q, get_by_name n qs = Some q.
Proof.
  induction qs as [|p qs IH]; [contradiction|]. cbn [map get_by_name]. intros [H|H].
  - subst n. rewrite N.eqb_refl. eauto.
  - destruct (N.eqb (fst p) n); eauto.
Qed.

Lemma get_none_not_in n qs : get_by_name n qs = None <-> ~ In n (map fst qs).
Proof.
  split.
  - intros H Hin. destruct (get_in_names n qs Hin) as [q Hq]. congruence.
  - induction qs as [|p qs IH]; [reflexivity|]. cbn [map get_by_name]. intros H.
    destruct (N.eqb (fst p) n) eqn:E.
    + apply N.eqb_eq in E. exfalso. apply H. now left.
    + apply IH. intros Hin. apply H. now right.
Qed.

(* ---- the function on a set ---- *)

(* a task whose name points to no queue: nothing merged, every queue just receives its arrivals *)
Lemma combine_set_no_queue stop t qs app :
  ~ In (t_qn t) (map fst qs) -> combine_set stop t qs app = (None, arrive app qs).
Proof. intros H. unfold combine_set. apply get_none_not_in in H. now rewrite H. Qed.

Lemma combine_set_names stop t qs app : map fst (snd (combine_set stop t qs app)) = map fst qs.
Proof.
  unfold combine_set. destruct (get_by_name (t_qn t) qs); cbn [snd].
  - now rewrite map_fst_set_queue, map_fst_arrive.
  - apply map_fst_arrive.
Qed.

(* a run never touches a queue its task does not name *)
Lemma combine_set_others stop t qs app n :
  n <> t_qn t ->
  get_by_name n (snd (combine_set stop t qs app))
  = option_map (fun q => q ++ arrivals n app) (get_by_name n qs).
Proof.
  intros Hn. unfold combine_set. destruct (get_by_name (t_qn t) qs); cbn [snd].
  - rewrite get_set_other by assumption. apply get_arrive.
  - apply get_arrive.
Qed.

(* on the queue the task names, the call is the single-queue call of part 1 *)
Lemma combine_set_own stop t qs app q :
  get_by_name (t_qn t) qs = Some q ->
  fst (combine_set stop t qs app) = fst (combine_concurrent stop t q (arrivals (t_qn t) app))
  /\ get_by_name (t_qn t) (snd (combine_set stop t qs app))
     = Some (snd (combine_concurrent stop t q (arrivals (t_qn t) app))).
Proof.
  intros H. unfold combine_set, combine_concurrent. rewrite H. cbn [fst snd]. split; [reflexivity|].
  apply get_set_same with (q := q ++ arrivals (t_qn t) app).
  rewrite get_arrive, H. reflexivity.
Qed.

(* ---- P_set on the model ---- *)

Lemma named_ids n (qs : qset) :
  named n (map (fun q : N * list task => (fst q, map t_id (snd q))) qs)
  = option_map (map t_id) (get_by_name n qs).
Proof.
  unfold named. induction qs as [|p qs IH]; [reflexivity|].
  cbn [map find get_by_name fst]. destruct (N.eqb (fst p) n); [reflexivity | exact IH].
Qed.

Lemma map_fst_ids (qs : qset) :
  map fst (map (fun q : N * list task => (fst q, map t_id (snd q))) qs) = map fst qs.
Proof. rewrite map_map. reflexivity. Qed.

Lemma run_model_fst_snd i :
  run_model i
  = let p := combine_concurrent (stop_of (i_stop i)) (i_t i) (i_q i) (i_app i) in
    mkObs (option_map (fun r => (r_ctxs r, r_mids r)) (fst p)) (map t_id (snd p)).
Proof. unfold run_model. destruct (combine_concurrent _ _ _ _); reflexivity. Qed.

Lemma P_set_holds i : P_set i (run_set i) = true.
Proof.
  unfold P_set. destruct (wf_set i); [|reflexivity].
  unfold run_set. cbn [so_res so_queues].
  rewrite map_fst_ids, combine_set_names, ns_eqb_refl. cbn [andb].
  rewrite named_get_by_name.
  destruct (get_by_name (t_qn (s_t i)) (s_qs i)) as [q|] eqn:Eq.
  - (* the name points to a queue *)
    apply andb_true_iff. split.
    + apply forallb_forall. intros n Hn. destruct (N.eqb n (t_qn (s_t i))) eqn:En; [reflexivity|].
      apply N.eqb_neq in En. cbn [orb]. unfold untouched.
      destruct (get_in_names n (s_qs i) Hn) as [qn Hqn].
      cbn [so_queues].
      rewrite named_get_by_name, Hqn, named_ids, (combine_set_others _ _ _ _ n En), Hqn.
      cbn [option_map]. rewrite arrived_arrivals. apply ns_eqb_refl.
    + destruct (combine_set_own (stop_of (s_stop i)) (s_t i) (s_qs i) (s_app i) q Eq) as [Hr Hq].
      rewrite named_ids, Hq, Hr. cbn [option_map]. rewrite arrived_arrivals.
      pose proof (P_holds (mkIn (s_t i) (s_stop i) q (arrivals (t_qn (s_t i)) (s_app i)))) as HP.
      rewrite run_model_fst_snd in HP. exact HP.
  - (* the name points to no queue *)
    destruct (mem_N (t_id (s_t i)) (all_ids (s_qs i))); [reflexivity|].
    unfold combine_set. rewrite Eq. cbn [fst snd option_map is_none andb].
    apply forallb_forall. intros n Hn. unfold untouched. cbn [so_queues snd].
    destruct (get_in_names n (s_qs i) Hn) as [qn Hqn].
    rewrite named_get_by_name, Hqn, named_ids, get_arrive, Hqn. cbn [option_map].
    rewrite arrived_arrivals. apply ns_eqb_refl.
Qed.

(* ====================================================================== part 3: sessions *)

Lemma task_eqb_refl t : task_eqb t t = true.
Proof.
  unfold task_eqb. rewrite !N.eqb_refl, !Bool.eqb_reflx, ctxs_eqb_refl, ns_eqb_refl. reflexivity.
Qed.
Lemma tasks_eqb_refl l : tasks_eqb l l = true.
Proof. apply list_eqb_refl, task_eqb_refl. Qed.

(* the task, field by field *)
Lemma task_eqb_eta t :
  t_meta t = true ->
  task_eqb t (mkTaskK (t_id t) (t_hook t) (t_ty t) true (t_ctxs t) (t_mids t) (t_qn t)
                      (t_kube t) (t_group t) (t_exec t) (t_af t)) = true.
Proof.
  intros Hm. unfold task_eqb. cbn [t_id t_hook t_ty t_meta t_ctxs t_mids t_qn t_kube t_group t_exec t_af].
  rewrite Hm, !N.eqb_refl, !Bool.eqb_reflx, ctxs_eqb_refl, ns_eqb_refl. reflexivity.
Qed.

Lemma same_queue_get before after n q :
  get_by_name n before = Some q -> get_by_name n after = Some q -> same_queue before after n = true.
Proof.
  intros H1 H2. unfold same_queue. rewrite !named_get_by_name, H1, H2. apply tasks_eqb_refl.
Qed.

Lemma queue_nodup qs n q : NoDup (all_ids qs) -> get_by_name n qs = Some q -> NoDup (map t_id q).
Proof.
  induction qs as [|p qs IH]; [discriminate|]. unfold all_ids. cbn [flat_map get_by_name].
  intros Hnd. destruct (N.eqb (fst p) n); intros H.
  - inversion H; subst. exact (NoDup_app_l _ _ _ Hnd).
  - apply IH; [exact (NoDup_app_r _ _ _ Hnd) | exact H].
Qed.

Lemma queue_meta (f : task -> bool) qs n q :
  forallb (fun p : N * list task => forallb f (snd p)) qs = true ->
  get_by_name n qs = Some q -> forallb f q = true.
Proof.
  induction qs as [|p qs IH]; [discriminate|]. cbn [forallb get_by_name]. intros H.
  apply andb_true_iff in H as [H1 H2]. destruct (N.eqb (fst p) n); intros E.
  - inversion E; subst. exact H1.
  - now apply IH.
Qed.

Lemma remove_id_head t r : remove_id (t_id t) (t :: r) = r.
Proof. cbn [remove_id]. now rewrite N.eqb_refl. Qed.
Lemma replace_id_head t t' r : t_id t' = t_id t -> replace_id t' (t :: r) = t' :: r.
Proof. intros E. cbn [replace_id]. now rewrite E, N.eqb_refl. Qed.

(* what the combiner does with the head [t] of the queue its name points to, for any stop rule *)
Lemma head_run stop qs t rest :
  t_meta t = true -> get_by_name (t_qn t) qs = Some (t :: rest) -> NoDup (map t_id (t :: rest)) ->
  let b := block stop t rest in
  let C := t_ctxs t ++ flat_map t_ctxs b in
  let p := combine_set stop t qs [] in
  delivered_ctxs t (fst p) = (if is_nil b then t_ctxs t else compact C)
  /\ delivered_mids t (fst p) = t_mids t ++ flat_map t_mids b
  /\ snd p = set_queue (t_qn t) (t :: after_block stop t rest) qs.
Proof.
  intros Hm Hq Hnd. cbv zeta. unfold combine_set. rewrite Hq, arrive_nil.
  cbn [arrivals fst snd].
  assert (Hnd' : NoDup (map t_id (t :: rest ++ []))) by (now rewrite app_nil_r).
  rewrite (combine_at_char stop t t rest [] Hm eq_refl Hnd'). rewrite !app_nil_r.
  destruct (block stop t rest) as [|b0 b] eqn:Eb; cbn [fst snd is_nil delivered_ctxs delivered_mids r_ctxs r_mids].
  - cbn [flat_map]. rewrite app_nil_r. repeat split; reflexivity.
  - split; [reflexivity|]. split; [|reflexivity].
    destruct (t_mids t ++ flat_map t_mids (b0 :: b)) eqn:E; [|reflexivity].
    apply app_eq_nil in E as [E1 E2]. now rewrite E1.
Qed.

Lemma wf_state_props qs :
  wf_state qs = true ->
  NoDup (all_ids qs)
  /\ forallb (fun p : N * list task => forallb (fun t => t_meta t && has_ctx t) (snd p)) qs = true.
Proof.
  unfold wf_state. intros H. apply andb_true_iff in H as [H Hm]. apply andb_true_iff in H as [_ Hn].
  split; [now apply nodupb_NoDup | exact Hm].
Qed.

(* queues the task does not name are what they were *)
Lemma others_same stop t qs n :
  In n (map fst qs) -> n <> t_qn t ->
  same_queue qs (snd (combine_set stop t qs [])) n = true.
Proof.
  intros Hin Hn. destruct (get_in_names n qs Hin) as [q Hq].
  apply (same_queue_get _ _ _ q Hq). rewrite (combine_set_others stop t qs [] n Hn), Hq.
  cbn [option_map arrivals]. now rewrite app_nil_r.
Qed.

Lemma handle_names v0 t qs : map fst (snd (handle_hook_run v0 t qs)) = map fst qs.
Proof.
  unfold handle_hook_run. destruct (gate v0 t); cbn [snd]; [apply combine_set_names | reflexivity].
Qed.

Lemma handle_others v0 t qs n :
  n <> t_qn t -> get_by_name n (snd (handle_hook_run v0 t qs)) = get_by_name n qs.
Proof.
  intros Hn. unfold handle_hook_run. destruct (gate v0 t); cbn [snd]; [|reflexivity].
  rewrite (combine_set_others _ t qs [] n Hn).
  destruct (get_by_name n qs); cbn [option_map arrivals]; [now rewrite app_nil_r | reflexivity].
Qed.

(* a head that is not to be run never reaches the combiner; neither does the head of a v0 hook nor an
   ungrouped Synchronization: the task and the queue set are what they were *)
Lemma gate_closed v0 t qs :
  gate v0 t = false ->
  handle_hook_run v0 t qs = ((if should_run v0 t then [mkRun (t_hook t) (t_ctxs t)] else []), t, qs).
Proof. intros G. unfold handle_hook_run. now rewrite G. Qed.

Lemma not_run_gate_closed v0 t : should_run v0 t = false -> gate v0 t = false.
Proof. intros H. unfold gate, should_combine. now rewrite H. Qed.

Lemma v0_gate_closed t : gate true t = false.
Proof. unfold gate, should_combine. cbn [negb]. now rewrite andb_false_r. Qed.

(* the spec's vocabulary and the handler's *)
Lemma not_executed_should_run v0 t : not_executed v0 t = negb (should_run v0 t).
Proof. unfold not_executed, should_run, synchronization, is_sync. now rewrite negb_involutive. Qed.

Lemma block_stop_all t rest : block stop_all t rest = [] /\ after_block stop_all t rest = rest.
Proof.
  unfold block, after_block, mergeable, stop_all. destruct rest as [|x r]; [split; reflexivity|].
  cbn [take_while drop_while negb]. rewrite andb_false_r. split; reflexivity.
Qed.

(* gate open (v1, run): the stop rule of the spec is the handler's stopCombineFn *)
Lemma gate_open_rule t : gate false t = true -> stop_rule t = stop_combine t.
Proof.
  unfold gate, should_combine, stop_rule, stop_combine. change (synchronization t) with (is_sync t).
  intros G. apply andb_true_iff in G as [_ G]. apply negb_true_iff in G. rewrite G.
  destruct (is_sync t); reflexivity.
Qed.

(* gate closed although the hook is v1 and runs: an ungrouped Synchronization *)
Lemma gate_closed_rule t : gate false t = false -> should_run false t = true -> stop_rule t = stop_all.
Proof.
  unfold gate, should_combine, stop_rule. change (synchronization t) with (is_sync t).
  intros G R. rewrite R in G. cbn [negb andb] in G.
  apply negb_false_iff in G. now rewrite G.
Qed.

(* the worker's step on an executed head that went through the combiner *)
Lemma step_combined sp qs t rest ok af :
  t_meta t = true -> get_by_name (t_qn t) qs = Some (t :: rest) -> NoDup (map t_id (t :: rest)) ->
  let p := combine_set sp t qs [] in
  let t' := set_combined t (delivered_ctxs t (fst p)) (delivered_mids t (fst p)) af in
  let q' := match get_by_name (t_qn t) (snd p) with Some q' => q' | None => [] end in
  executed_with sp t rest (t_qn t)
    (mkSO [mkRun (t_hook t) (delivered_ctxs t (fst p))] ok
          (set_queue (t_qn t) (if ok then remove_id (t_id t) q' else replace_id t' q') (snd p))) = true.
Proof.
  intros Hm Hq Hnd. cbv zeta.
  destruct (head_run sp qs t rest Hm Hq Hnd) as (Hc & Hmi & Hs). cbv zeta in Hc, Hmi, Hs.
  rewrite Hc, Hmi, Hs. unfold executed_with. cbn [st_runs st_state st_success].
  rewrite named_get_by_name.
  rewrite (get_set_same (t_qn t) (t :: after_block sp t rest) qs _ Hq).
  rewrite set_set, (get_set_same (t_qn t) _ qs _ Hq).
  cbn [ru_hook ru_ctxs]. rewrite N.eqb_refl. cbn [andb].
  assert (Ht : forall cs ms, task_eqb (set_combined t cs ms af)
             (mkTaskK (t_id t) (t_hook t) (t_ty t) true cs ms (t_qn t) (t_kube t) (t_group t) (t_exec t)
                      (t_af (set_combined t cs ms af))) = true).
  { intros cs ms. unfold set_combined. cbn [t_af]. rewrite Hm. apply task_eqb_refl. }
  destruct (block sp t rest) as [|b0 b] eqn:Eb; cbn [is_nil orb flat_map].
  - rewrite !app_nil_r, left_out_ok_refl. cbn [andb].
    destruct ok; [rewrite remove_id_head | rewrite replace_id_head by reflexivity]; cbn [app stored_policy].
    + apply tasks_eqb_refl.
    + unfold tasks_eqb. cbn [list_eqb]. rewrite Ht. apply tasks_eqb_refl.
  - rewrite left_out_ok_compact, compact_runs, ctxs_eqb_refl. cbn [andb].
    destruct ok; [rewrite remove_id_head | rewrite replace_id_head by reflexivity]; cbn [app stored_policy].
    + apply tasks_eqb_refl.
    + unfold tasks_eqb. cbn [list_eqb]. rewrite Ht. apply tasks_eqb_refl.
Qed.

(* the worker's step on an executed head that did not go through the combiner *)
Lemma step_alone qs t rest ok :
  t_meta t = true -> get_by_name (t_qn t) qs = Some (t :: rest) ->
  executed_with stop_all t rest (t_qn t)
    (mkSO [mkRun (t_hook t) (t_ctxs t)] ok
          (set_queue (t_qn t) (if ok then remove_id (t_id t) (t :: rest) else replace_id t (t :: rest)) qs)) = true.
Proof.
  intros Hm Hq. unfold executed_with. cbn [st_runs st_state st_success].
  destruct (block_stop_all t rest) as [Eb Ea]. rewrite Eb, Ea.
  rewrite named_get_by_name, (get_set_same (t_qn t) _ qs _ Hq).
  cbn [ru_hook ru_ctxs flat_map is_nil orb]. rewrite !app_nil_r, N.eqb_refl, left_out_ok_refl. cbn [andb].
  destruct ok; [rewrite remove_id_head | rewrite replace_id_head by reflexivity]; cbn [app stored_policy].
  - apply tasks_eqb_refl.
  - unfold tasks_eqb. cbn [list_eqb]. rewrite (task_eqb_eta t Hm). apply tasks_eqb_refl.
Qed.

Lemma P_step_holds v0s qs st : P_step v0s qs st (model_step v0s qs st) = true.
Proof.
  unfold P_step. destruct (wf_state qs) eqn:W; [|reflexivity].
  destruct (wf_state_props qs W) as [Hnd Hmeta].
  destruct st as [qn ok | t ok].
  - (* the worker of queue qn *)
    cbn [model_step]. rewrite named_get_by_name.
    destruct (get_by_name qn qs) as [[|t rest]|] eqn:Eq.
    + cbn [st_state st_runs is_nil]. rewrite ns_eqb_refl. cbn [andb].
      apply forallb_forall. intros n Hn. destruct (get_in_names n qs Hn) as [q Hq].
      exact (same_queue_get _ _ _ q Hq Hq).
    + destruct (N.eqb (t_ty t) 0) eqn:Ety.
      * (* a HookRun task *)
        cbn [st_state st_runs st_success].
        rewrite map_fst_set_queue, handle_names, ns_eqb_refl. cbn [andb].
        apply andb_true_iff. split.
        -- apply forallb_forall. intros n Hn.
           destruct (N.eqb n qn) eqn:E1; [reflexivity|]. destruct (N.eqb n (t_qn t)) eqn:E2; [reflexivity|].
           cbn [orb]. apply N.eqb_neq in E1, E2. destruct (get_in_names n qs Hn) as [q Hq].
           apply (same_queue_get _ _ _ q Hq). rewrite get_set_other by assumption.
           now rewrite handle_others.
        -- destruct (N.eqb (t_qn t) qn) eqn:Eqn; [|reflexivity]. cbn [andb].
           apply N.eqb_eq in Eqn. subst qn.
           assert (Hm : t_meta t = true).
           { pose proof (queue_meta _ qs _ _ Hmeta Eq) as H. cbn [forallb] in H.
             apply andb_true_iff in H as [H _]. now apply andb_true_iff in H as [H _]. }
           pose proof (queue_nodup qs _ _ Hnd Eq) as Hndq.
           set (v0 := mem_N (t_hook t) v0s).
           rewrite not_executed_should_run.
           destruct (should_run v0 t) eqn:R; cbn [negb].
           ++ (* the head is executed *)
              destruct v0 eqn:V.
              ** (* a v0 hook: never through the combiner *)
                 rewrite (gate_closed true t qs (v0_gate_closed t)), R. cbn [fst snd status_ok].
                 rewrite Eq. apply orb_true_iff. left. now apply step_alone.
              ** destruct (gate false t) eqn:G.
                 --- unfold handle_hook_run. rewrite G. cbn [fst snd status_ok].
                     rewrite (gate_open_rule t G). now apply step_combined.
                 --- rewrite (gate_closed false t qs G), R. cbn [fst snd status_ok].
                     rewrite Eq, (gate_closed_rule t G R). now apply step_alone.
           ++ (* the head is not executed *)
              rewrite (gate_closed v0 t qs (not_run_gate_closed v0 t R)), R. cbn [fst snd status_ok is_nil andb].
              rewrite Eq, remove_id_head, named_get_by_name, (get_set_same (t_qn t) _ qs _ Eq).
              apply tasks_eqb_refl.
      * (* another task type: no hook run, removed *)
        cbn [st_state st_runs st_success]. rewrite map_fst_set_queue, ns_eqb_refl. cbn [andb].
        rewrite andb_true_r. apply forallb_forall. intros n Hn.
        destruct (N.eqb n qn) eqn:E1; [reflexivity|]. cbn [orb]. apply N.eqb_neq in E1.
        destruct (get_in_names n qs Hn) as [q Hq]. rewrite orb_true_iff. right.
        apply (same_queue_get _ _ _ q Hq). now rewrite get_set_other.
    + cbn [st_state st_runs is_nil]. rewrite ns_eqb_refl. cbn [andb].
      apply forallb_forall. intros n Hn. destruct (get_in_names n qs Hn) as [q Hq].
      exact (same_queue_get _ _ _ q Hq Hq).
  - (* a task that sits in no queue *)
    cbn [model_step st_state st_runs].
    rewrite handle_names, ns_eqb_refl. cbn [andb].
    destruct (t_meta t && has_ctx t && negb (mem_N (t_id t) (all_ids qs))); [|reflexivity].
    set (v0 := mem_N (t_hook t) v0s).
    apply andb_true_iff. split.
    + apply forallb_forall. intros n Hn. destruct (N.eqb n (t_qn t)) eqn:E; [reflexivity|].
      apply N.eqb_neq in E. cbn [orb]. destruct (get_in_names n qs Hn) as [q Hq].
      apply (same_queue_get _ _ _ q Hq). now rewrite handle_others.
    + rewrite named_get_by_name. destruct (get_by_name (t_qn t) qs) eqn:Eq; [reflexivity|].
      rewrite not_executed_should_run. unfold handle_hook_run.
      destruct (gate v0 t) eqn:G.
      * assert (R : should_run v0 t = true).
        { unfold gate, should_combine in G. apply andb_true_iff in G as [G _]. now apply andb_true_iff in G as [G _]. }
        rewrite R. cbn [negb fst]. unfold combine_set. rewrite Eq. cbn [fst delivered_ctxs ru_hook ru_ctxs].
        now rewrite N.eqb_refl, ctxs_eqb_refl.
      * cbn [fst]. destruct (should_run v0 t); cbn [negb is_nil]; [|reflexivity].
        cbn [ru_hook ru_ctxs]. now rewrite N.eqb_refl, ctxs_eqb_refl.
Qed.

Lemma P_session_holds v0s steps : forall qs, P_session v0s qs steps (run_session v0s qs steps) = true.
Proof.
  induction steps as [|st steps IH]; intros qs; [reflexivity|].
  cbn [run_session P_session]. now rewrite P_step_holds, IH.
Qed.

(* the explicit form for the webhook handlers' tasks: a task whose name no queue has is run with
   exactly its own contexts - unless it is not to be run at all - and the queue set afterwards IS the
   queue set before *)
Lemma loose_run_leaves_queues v0s qs t ok :
  ~ In (t_qn t) (map fst qs) ->
  model_step v0s qs (SLoose t ok)
  = if should_run (mem_N (t_hook t) v0s) t then mkSO [mkRun (t_hook t) (t_ctxs t)] (forgiven ok t) qs
    else mkSO [] true qs.
Proof.
  intros H. cbn [model_step]. unfold handle_hook_run.
  rewrite (combine_set_no_queue _ t qs [] H), arrive_nil. cbn [fst snd delivered_ctxs].
  destruct (gate (mem_N (t_hook t) v0s) t) eqn:G.
  - assert (R : should_run (mem_N (t_hook t) v0s) t = true).
    { unfold gate, should_combine in G. apply andb_true_iff in G as [G _]. now apply andb_true_iff in G as [G _]. }
    now rewrite R.
  - cbn [fst snd]. destruct (should_run (mem_N (t_hook t) v0s) t); reflexivity.
Qed.

(* a head that is not executed: no run, Success, the head leaves - and the queue set is otherwise
   exactly what it was: nothing is merged, every other task of every queue keeps its place *)
Lemma skipped_head_merges_nothing v0s qs qn t rest ok :
  get_by_name qn qs = Some (t :: rest) -> t_ty t = 0%N ->
  should_run (mem_N (t_hook t) v0s) t = false ->
  model_step v0s qs (SHead qn ok) = mkSO [] true (set_queue qn rest qs).
Proof.
  intros Hq Hty R. cbn [model_step]. rewrite Hq, Hty. cbn [N.eqb].
  rewrite (gate_closed _ t qs (not_run_gate_closed _ t R)), R. cbn [fst snd status_ok].
  now rewrite Hq, remove_id_head.
Qed.

(* the combiner is not even called for a head that is not run, for a v0 hook and for an ungrouped
   Synchronization: the handler leaves the task and every queue as they are *)
Lemma closed_gate_touches_nothing v0 t qs :
  should_run v0 t = false \/ v0 = true \/ (t_kube t = true /\ is_sync t = true /\ t_group t = 0%N) ->
  snd (fst (handle_hook_run v0 t qs)) = t /\ snd (handle_hook_run v0 t qs) = qs.
Proof.
  intros H. assert (G : gate v0 t = false).
  { unfold gate, should_combine. destruct H as [H|[H|(H1 & H2 & H3)]].
    - now rewrite H.
    - subst v0. cbn [negb]. now rewrite andb_false_r.
    - rewrite H1, H2, H3. cbn [N.eqb andb negb]. now rewrite andb_false_r. }
  rewrite (gate_closed v0 t qs G). split; reflexivity.
Qed.

(* an executed Synchronization head never takes in a Synchronization that is itself not to be executed,
   and an executed head only ever takes in what the stop rule allows: the queue afterwards begins, behind
   the head, with the first task the rule refuses *)
Lemma executed_head_block v0s qs t rest ok :
  wf_state qs = true -> get_by_name (t_qn t) qs = Some (t :: rest) -> t_ty t = 0%N ->
  mem_N (t_hook t) v0s = false -> should_run false t = true ->
  let o := model_step v0s qs (SHead (t_qn t) ok) in
  let b := block (stop_rule t) t rest in
  st_runs o = [mkRun (t_hook t) (if is_nil b then t_ctxs t else spec_compact (t_ctxs t ++ flat_map t_ctxs b))]
  /\ map t_id (match get_by_name (t_qn t) (st_state o) with Some q => q | None => [] end)
     = (if st_success o then [] else [t_id t]) ++ map t_id (after_block (stop_rule t) t rest)
  /\ Forall (fun x => exempt x = false \/ synchronization t = false) b.
Proof.
  intros W Hq Hty V R. cbv zeta.
  destruct (wf_state_props qs W) as [Hnd Hmeta].
  assert (Hm : t_meta t = true).
  { pose proof (queue_meta _ qs _ _ Hmeta Hq) as H. cbn [forallb] in H.
    apply andb_true_iff in H as [H _]. now apply andb_true_iff in H as [H _]. }
  pose proof (queue_nodup qs _ _ Hnd Hq) as Hndq.
  split; [|split].
  - cbn [model_step]. rewrite Hq, Hty, V. cbn [N.eqb st_runs].
    destruct (gate false t) eqn:G.
    + unfold handle_hook_run. rewrite G. cbn [fst].
      destruct (head_run (stop_combine t) qs t rest Hm Hq Hndq) as (Hc & _ & _). cbv zeta in Hc.
      rewrite Hc, (gate_open_rule t G), compact_runs. reflexivity.
    + rewrite (gate_closed false t qs G), R, (gate_closed_rule t G R). cbn [fst].
      destruct (block_stop_all t rest) as [Eb _]. now rewrite Eb.
  - cbn [model_step]. rewrite Hq, Hty, V. cbn [N.eqb st_state].
    destruct (gate false t) eqn:G.
    + unfold handle_hook_run. rewrite G. cbn [fst snd status_ok].
      destruct (head_run (stop_combine t) qs t rest Hm Hq Hndq) as (_ & _ & Hs). cbv zeta in Hs.
      rewrite Hs, (gate_open_rule t G).
      rewrite (get_set_same (t_qn t) (t :: after_block (stop_combine t) t rest) qs _ Hq).
      rewrite set_set, (get_set_same (t_qn t) _ qs _ Hq).
      cbn [st_success status_ok].
      match goal with |- context [forgiven ?a ?b] => destruct (forgiven a b) end;
        [rewrite remove_id_head | rewrite replace_id_head by reflexivity]; reflexivity.
    + rewrite (gate_closed false t qs G), R, (gate_closed_rule t G R). cbn [fst snd status_ok].
      rewrite Hq, (get_set_same (t_qn t) _ qs _ Hq).
      destruct (block_stop_all t rest) as [_ Ea]. rewrite Ea.
      cbn [st_success status_ok].
      match goal with |- context [forgiven ?a ?b] => destruct (forgiven a b) end;
        [rewrite remove_id_head | rewrite replace_id_head by reflexivity]; reflexivity.
  - apply Forall_forall. intros x Hx.
    pose proof (take_while_all _ (mergeable (stop_rule t) t) rest) as Hall.
    fold (block (stop_rule t) t rest) in Hall. rewrite Forall_forall in Hall. specialize (Hall x Hx).
    unfold mergeable in Hall. apply andb_true_iff in Hall as [_ Hst]. apply negb_true_iff in Hst.
    unfold stop_rule in Hst.
    destruct (t_kube t && synchronization t && N.eqb (t_group t) 0); [discriminate|].
    destruct (synchronization t); [left; exact Hst | right; reflexivity].
Qed.
