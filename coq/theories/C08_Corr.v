(* C08_Corr.v — correspondence vocabulary for C08.  A case is a scripted history for a
   real resourceInformer: the configured event types (None = executeHookOnEvent not
   configured), whether a jqFilter is set, the distinct object states used (resource id,
   object), /usr/bin/jq's answer for the case's filter on every state (the independent
   oracle that instantiates the model's Section variable), the history as (watch event
   type = handler called, state index, form of the argument handed to the handler), and
   what the implementation did at every delivery.
   Forms: [FObject] the *unstructured.Unstructured itself; [FTombstone] the
   cache.DeletedFinalStateUnknown that client-go's DeltaFIFO.Replace makes of the object
   when a relist no longer lists it (the harness obtains it from a real DeltaFIFO). *)
From Verif Require Import Common Json C08_Model C08_Spec.

(* implementation's observation of one delivery *)
Record iobs := mkI {
  i_fired : list (evtype * N);        (* fired KubeEvents: type, state index of the object they carry *)
  i_fr : option json;                 (* FilterResult computed for this delivery's object: read from
                                         the cache entry of its id after the delivery, else from the
                                         fired event, else None *)
  i_cache : list (N * N)              (* cachedObjects after the delivery: (resource id, state index), sorted by id *)
}.

Inductive form := FObject | FTombstone.

Record case := mkCase {
  k_types : option (list evtype);
  k_filter : bool;
  k_states : list (N * json);
  k_answers : list (list json * bool);
  k_history : list (evtype * N * form);
  k_obs : list iobs
}.

Definition unknown_state : N := 999%N.

Definition state_at (c : case) (i : N) : N * json :=
  nth (N.to_nat i) (k_states c) (0%N, JNull).

(* the oracle of the case: look the object up among the states *)
Fixpoint lookup_answer (o : json) (states : list (N * json)) (answers : list (list json * bool)) : list json * bool :=
  match states, answers with
  | (_, s) :: sr, a :: ar => if json_eqb o s then a else lookup_answer o sr ar
  | _, _ => ([], false)
  end.
Definition jq_of (c : case) (o : json) : list json * bool := lookup_answer o (k_states c) (k_answers c).

Fixpoint index_of_state (o : json) (states : list (N * json)) (k : N) : N :=
  match states with
  | [] => unknown_state
  | (_, s) :: r => if json_eqb o s then k else index_of_state o r (N.succ k)
  end.

Definition steps_of (c : case) : list dstep :=
  map (fun tsf => let s := state_at c (snd (fst tsf)) in
                  (fst (fst tsf), fst s,
                   match snd tsf with
                   | FObject => Plain (snd s)
                   | FTombstone => Tombstone (fst s) (snd s)
                   end)) (k_history c).

(* the changes the deliveries report: what the specification speaks of *)
Definition changes_of (c : case) : list step := map change_of (steps_of c).

Definition config_of (c : case) : config := mkConfig (with_event_types (k_types c)) (k_filter c).

(* the model's observation in the implementation's vocabulary *)
Definition obs_of_step (c : case) (s : dstep) (r : cache * option event) : iobs :=
  let idx o := index_of_state o (k_states c) 0%N in
  let id := snd (fst s) in
  mkI (match snd r with Some ev => [(ev_type ev, idx (e_obj (ev_entry ev)))] | None => [] end)
      (match c_get id (fst r) with
       | Some e => e_fr e
       | None => match snd r with Some ev => e_fr (ev_entry ev) | None => None end
       end)
      (map (fun ie => (fst ie, idx (e_obj (snd ie)))) (fst r)).

Fixpoint zip_obs (c : case) (h : list dstep) (rs : list (cache * option event)) : list iobs :=
  match h, rs with
  | s :: h', r :: rs' => obs_of_step c s r :: zip_obs c h' rs'
  | _, _ => []
  end.

Definition model_obs (c : case) : list iobs :=
  zip_obs c (steps_of c) (run_d (jq_of c) (config_of c) [] (steps_of c)).

Definition ojson_eqb : option json -> option json -> bool := option_eqb json_eqb.
Definition iobs_eqb (a b : iobs) : bool :=
  list_eqb (pair_eqb evtype_eqb N.eqb) (i_fired a) (i_fired b)
  && ojson_eqb (i_fr a) (i_fr b)
  && list_eqb (pair_eqb N.eqb N.eqb) (i_cache a) (i_cache b).

(* the oracle's objects must be printed canonically (sorted unique keys) — a harness invariant *)
Definition answers_canonical (c : case) : bool :=
  forallb (fun a => forallb canon_obj (fst a)) (k_answers c).

Definition agrees (c : case) : bool :=
  list_eqb iobs_eqb (model_obs c) (k_obs c) && answers_canonical c.

Definition mismatches (cs : list case) : list N := indices_where (fun c => negb (agrees c)) cs.

(* the specification's view of the implementation's observations *)
Definition spec_obs (c : case) (o : iobs) : obs :=
  mkObs (map fst (i_fired o)) (map (fun p => (fst p, snd (state_at c (snd p)))) (i_cache o)).

Definition P_case (c : case) : bool :=
  P (jq_of c) (with_event_types (k_types c)) (k_filter c) (changes_of c) (map (spec_obs c) (k_obs c)).

Definition spec_violations (cs : list case) : list N := indices_where (fun c => negb (P_case c)) cs.

Definition trigger_F8 (cs : list case) : list N :=
  indices_where (fun c => T_F8 (jq_of c) (k_filter c) (changes_of c)) cs.
Definition trigger_F16 (cs : list case) : list N :=
  indices_where (fun c => T_F16 (jq_of c) (k_filter c) (changes_of c)) cs.
