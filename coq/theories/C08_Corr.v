(* C08_Corr.v — correspondence vocabulary for C08.  A case is a scripted history for a
   real resourceInformer: the configured event types (None = executeHookOnEvent not
   configured), whether a jqFilter is set, the distinct object states used (resource id,
   object), /usr/bin/jq's answer for the case's filter on every state (the independent
   oracle that instantiates the model's Section variable), the history as (watch event
   type = handler called, state index, form of the argument handed to the handler), and
   what the implementation did at every delivery.
   Forms: [FObject] the *unstructured.Unstructured itself; [FTombstone] the
   cache.DeletedFinalStateUnknown that client-go's DeltaFIFO.Replace makes of the object
   when a relist no longer lists it (the harness obtains it from a real DeltaFIFO).

   Two ways of delivering.  [k_real] = false: the monitor is created on an empty cluster and
   the harness calls the informer's handler methods itself.  [k_real] = true ("start" cases):
   the objects [k_listed] (state indices) exist in the fake cluster when the monitor is
   created (loadExistedObjects lists them: [k_cache0] is the snapshot right after, None = the
   creation failed), then the monitor is STARTED and the real client-go shared informer
   makes every delivery: first its replay of the existing objects, then one delivery per
   cluster operation of the case.  For these cases the history is written down by the harness
   from the cluster's truth - the replay as one Added per existing object carrying the object
   AS IT IS IN THE CLUSTER, in the order in which the informer was seen to deliver (client-go
   fixes none), then the watch event of every cluster operation - and [i_seen] records what
   was seen of each delivery on the informer itself: the handler that ran (from the informer's
   Added/Modified/Deleted counters) and the resource id concerned (the cache entry that was
   replaced or removed).

   The declaration.  [k_types] is the key executeHookOnEvent and [k_watch] the deprecated key
   watchEvent of the binding (None = key absent).  [k_loaded] = true ("declared" cases): the
   harness wrote the binding as a v1 hook configuration TEXT (JSON or YAML) and the REAL loader
   (HookConfig.LoadAndValidate -> HookConfigV1.ConvertAndCheck) produced the MonitorConfig the
   monitor runs with; [k_eff] is the MonitorConfig.EventTypes it produced.  [k_loaded] = false:
   the harness built the MonitorConfig itself with WithEventTypes(k_types) - no watchEvent,
   no loader.  Either way the model's configuration is [effective_types] of the declaration
   and the specification judges against the DECLARED list ([P_decl]).

   The window.  [k_win] = Some n ("window" cases, real monitor only): the monitor is STARTED while
   its events are still locked, as between AddMonitor/Start and the unlock that follows the
   binding's Synchronization; the first n deliveries of the history (the informer's replay of the
   existing objects included) are made in that state - a fired KubeEvent is saved in eventBuf -,
   then the harness calls Monitor.EnableKubeEventCb and records in [k_flushed] the KubeEvents the
   callback got during that call, in order; the other deliveries follow.  The histories flap
   (A -> B -> A -> B, cycles of three states, create / delete / re-create with the same content).
   The model is [run_w] (lock + buffer), the specification's clause [P_win_decl].  Inside the
   window the harness reads the informer's cache without Monitor.Snapshot() (whose
   getCachedObjects drops the saved events while the events are locked - the Synchronization
   snapshot, C09's window class - and is no part of this model). *)
From Verif Require Import Common Json C08_Model C08_Spec C08_Text.

(* implementation's observation of one delivery *)
Record iobs := mkI {
  i_seen : option (evtype * N);       (* start cases: handler that ran and resource id, as seen on the
                                         informer; None when the harness itself calls the handler *)
  i_fired : list (evtype * N);        (* fired KubeEvents: type, state index of the object they carry *)
  i_fr : option json;                 (* FilterResult computed for this delivery's object: read from
                                         the cache entry of its id after the delivery, else from the
                                         fired event, else None *)
  i_cache : list (N * N)              (* cachedObjects after the delivery: (resource id, state index), sorted by id *)
}.

Inductive form := FObject | FTombstone.

Record case := mkCase {
  k_types : option (list evtype);      (* executeHookOnEvent (None = not configured) *)
  k_watch : option (list evtype);      (* watchEvent, the deprecated key (None = absent) *)
  k_loaded : bool;                     (* the MonitorConfig comes from the real loader run on a config text *)
  k_eff : option (list evtype);        (* loaded cases: MonitorConfig.EventTypes as the loader left it *)
  k_filter : bool;
  k_states : list (N * json);
  k_answers : list (list json * bool);
  k_real : bool;                       (* deliveries made by the real shared informer (start case) *)
  k_listed : list N;                   (* states that exist in the cluster when the monitor is created *)
  k_cache0 : option (list (N * N));    (* cachedObjects right after the creation: (resource id, state index) *)
  k_history : list (evtype * N * form);
  k_obs : list iobs;
  k_win : option N;                    (* window cases (real monitor only): Some n = the monitor is STARTED while
                                          its events are still locked; the first n deliveries of the history (the
                                          informer's replay included) happen before the harness calls
                                          Monitor.EnableKubeEventCb, the others after it.  None = unlocked before the start *)
  k_flushed : list (evtype * N)        (* the KubeEvents the callback got DURING that EnableKubeEventCb call, in
                                          order: type, state index of the object carried *)
}.

Definition unknown_state : N := 999%N.

Definition state_at (c : case) (i : N) : N * json :=
  nth (N.to_nat i) (k_states c) (0%N, JNull).

(* the oracle of the case: look the object up among the states *)
Fixpoint lookup_answer (o : json) (states : list (N * json)) (answers : list (list json * bool)) : list json * bool :=
  match states, answers with
  | (_, s) :: sr, a :: ar => if json_eqb o s then a else lookup_answer o sr ar
  | _, _ => ([], false)
  end.
Definition jq_of (c : case) (o : json) : list json * bool := lookup_answer o (k_states c) (k_answers c).

Fixpoint index_of_state (o : json) (states : list (N * json)) (k : N) : N :=
  match states with
  | [] => unknown_state
  | (_, s) :: r => if json_eqb o s then k else index_of_state o r (N.succ k)
  end.

Definition steps_of (c : case) : list dstep :=
  map (fun tsf => let s := state_at c (snd (fst tsf)) in
                  (fst (fst tsf), fst s,
                   match snd tsf with
                   | FObject => Plain (snd s)
                   | FTombstone => Tombstone (fst s) (snd s)
                   end)) (k_history c).

(* the changes the deliveries report: what the specification speaks of *)
Definition changes_of (c : case) : list step := map change_of (steps_of c).

Definition decl_of (c : case) : decl := mkDecl (k_types c) (k_watch c).

Definition config_of (c : case) : config := mkConfig (effective_types (decl_of c)) (k_filter c).

(* what the real loader made of the declaration: compared with the model's conversion *)
Definition eff_ok (c : case) : bool :=
  option_eqb (list_eqb evtype_eqb) (k_eff c)
             (if k_loaded c then Some (effective_types (decl_of c)) else None)
  && (k_loaded c || match k_watch c with None => true | Some _ => false end).

(* the objects loadExistedObjects lists *)
Definition listed_of (c : case) : list (N * json) := map (state_at c) (k_listed c).

(* the model's observation in the implementation's vocabulary *)
Definition idx_of (c : case) (o : json) : N := index_of_state o (k_states c) 0%N.

Definition cache_view (c : case) (ch : cache) : list (N * N) :=
  map (fun ie => (fst ie, idx_of c (e_obj (snd ie)))) ch.

Definition obs_of_step (c : case) (s : dstep) (r : cache * option event) : iobs :=
  let id := snd (fst s) in
  mkI (if k_real c then Some (fst (fst s), id) else None)
      (match snd r with Some ev => [(ev_type ev, idx_of c (e_obj (ev_entry ev)))] | None => [] end)
      (match c_get id (fst r) with
       | Some e => e_fr e
       | None => match snd r with Some ev => e_fr (ev_entry ev) | None => None end
       end)
      (cache_view c (fst r)).

Fixpoint zip_obs (c : case) (h : list dstep) (rs : list (cache * option event)) : list iobs :=
  match h, rs with
  | s :: h', r :: rs' => obs_of_step c s r :: zip_obs c h' rs'
  | _, _ => []
  end.

(* the cache after the monitor's creation: loadExistedObjects over the listed objects *)
Definition model_start (c : case) : option cache :=
  load_existed (jq_of c) (config_of c) (listed_of c) [].

Definition model_cache0 (c : case) : option (list (N * N)) := option_map (cache_view c) (model_start c).

(* window cases: the model of the informer with its lock and its buffer ([run_w]) runs the
   operations  deliveries 1..n, unlock, deliveries n+1..  from the state the creation left
   (cache filled, events locked, nothing saved) *)
Definition win_n (c : case) : nat := match k_win c with Some n => N.to_nat n | None => 0 end.

Definition model_wrun (c : case) (c0 : cache) : list (wstate * list event) :=
  run_w (jq_of c) (config_of c) (mkW c0 false [])
        (window_ops (firstn (win_n c) (steps_of c)) (skipn (win_n c) (steps_of c))).

(* one operation of the window model as (cache, event the callback got at this delivery) *)
Definition w_result (r : wstate * list event) : cache * option event := (w_cache (fst r), hd_error (snd r)).

Definition model_obs (c : case) : list iobs :=
  match model_start c with
  | Some c0 =>
      match k_win c with
      | None => zip_obs c (steps_of c) (run_d (jq_of c) (config_of c) c0 (steps_of c))
      | Some _ =>
          let rs := model_wrun c c0 in
          zip_obs c (steps_of c) (map w_result (firstn (win_n c) rs ++ skipn (S (win_n c)) rs))
      end
  | None => []
  end.

(* what the unlock hands to the callback *)
Definition model_flushed (c : case) : list (evtype * N) :=
  match model_start c, k_win c with
  | Some c0, Some _ =>
      map (fun e => (ev_type e, idx_of c (e_obj (ev_entry e))))
          (snd (nth (win_n c) (model_wrun c c0) (mkW [] true [], [])))
  | _, _ => []
  end.

(* a window case is a case of the real monitor and its unlock lies inside the history *)
Definition win_ok (c : case) : bool :=
  match k_win c with
  | Some n => k_real c && Nat.leb (length (k_listed c)) (N.to_nat n) && Nat.leb (N.to_nat n) (length (k_history c))
  | None => match k_flushed c with [] => true | _ => false end
  end.

Definition ojson_eqb : option json -> option json -> bool := option_eqb json_eqb.
Definition iobs_eqb (a b : iobs) : bool :=
  option_eqb (pair_eqb evtype_eqb N.eqb) (i_seen a) (i_seen b)
  && list_eqb (pair_eqb evtype_eqb N.eqb) (i_fired a) (i_fired b)
  && ojson_eqb (i_fr a) (i_fr b)
  && list_eqb (pair_eqb N.eqb N.eqb) (i_cache a) (i_cache b).

(* the oracle's objects must be printed canonically (sorted unique keys) — a harness invariant *)
Definition answers_canonical (c : case) : bool :=
  forallb (fun a => forallb canon_obj (fst a)) (k_answers c).

(* ENVIRONMENT ASSUMPTION of C08_start_redelivery_silent, checked on every case: at its start
   the shared informer re-delivers exactly the objects that exist (= were listed), each once,
   through OnAdd: the first |k_listed| entries of the history - whose resource ids the harness
   took from what it saw the informer deliver - are Added deliveries of the object itself and
   their states are a permutation of [k_listed], no resource id twice.  (That the delivered
   CONTENT is the cluster's object is part of the comparison: the cache entry after the
   delivery is looked up among the states.)  Without existing objects or when the harness
   delivers itself there is no replay. *)
Fixpoint nodup_N (l : list N) : bool :=
  match l with
  | [] => true
  | x :: r => negb (mem_N x r) && nodup_N r
  end.

Definition replay_ok (c : case) : bool :=
  if k_real c then
    let n := length (k_listed c) in
    let head := firstn n (k_history c) in
    Nat.eqb (length head) n
    && forallb (fun tsf => match tsf with (Added, _, FObject) => true | _ => false end) head
    && forallb (fun tsf => mem_N (snd (fst tsf)) (k_listed c)) head
    && nodup_N (map (fun tsf => snd (fst tsf)) head)
    && nodup_N (map (fun i => fst (state_at c i)) (k_listed c))
  else match k_listed c with [] => true | _ => false end.

Definition cache0_eqb : option (list (N * N)) -> option (list (N * N)) -> bool :=
  option_eqb (list_eqb (pair_eqb N.eqb N.eqb)).

(* the value domain (C08_Text.v): every object state and every output of the oracle is a JSON
   value as the theorems about the checksum take them ([val_ok]: integral numbers are JNum, any
   other number a non-integer literal) - the hypothesis [projs_ok] of
   C08_checksum_model_is_projection_model / C08_modified_value_change_triggers, checked on every case *)
Definition values_ok (c : case) : bool :=
  forallb (fun s => val_ok (snd s)) (k_states c)
  && forallb (fun a => forallb val_ok (fst a)) (k_answers c).

Definition agrees (c : case) : bool :=
  cache0_eqb (model_cache0 c) (k_cache0 c)
  && list_eqb iobs_eqb (model_obs c) (k_obs c) && answers_canonical c && replay_ok c && eff_ok c
  && values_ok c
  && list_eqb (pair_eqb evtype_eqb N.eqb) (model_flushed c) (k_flushed c) && win_ok c.

Definition mismatches (cs : list case) : list N := indices_where (fun c => negb (agrees c)) cs.

(* the specification's view of the implementation's observations *)
Definition spec_obs (c : case) (o : iobs) : obs :=
  mkObs (map fst (i_fired o)) (map (fun p => (fst p, snd (state_at c (snd p)))) (i_cache o)).

(* the objects that exist when the binding is enabled are known from the initial list on
   ([P_start]; without such objects it is [P]); the event list is the DECLARED one ([P_decl]) *)
(* the filterResult shown for the delivered object (in the snapshot's entry, else in the fired
   event), judged against the oracle's outputs by the specification's clause [fr_shows]: on
   every delivery on whose object the filter does not fail.  (A Deleted that fires nothing
   shows no filterResult.) *)
Definition fr_step_ok (c : case) (s : dstep) (o : iobs) : bool :=
  match s with
  | (t, _, d) =>
      let a := jq_of c (unwrap d) in
      if snd a then true
      else match i_fr o with
           | Some fr => fr_shows (fst a) fr
           | None => match t with Deleted => true | _ => false end
           end
  end.

Fixpoint fr_steps_ok (c : case) (h : list dstep) (os : list iobs) : bool :=
  match h, os with
  | s :: h', o :: os' => fr_step_ok c s o && fr_steps_ok c h' os'
  | _, _ => true
  end.

Definition fr_case_ok (c : case) : bool :=
  negb (k_filter c) || fr_steps_ok c (steps_of c) (k_obs c).

(* the clause about values ([modified_values_ok], C08_Text.v): every Modified delivery of a known
   object fires iff Modified is in the declared list and the projection - /usr/bin/jq's outputs,
   compared STRUCTURALLY as JSON values - differs from the last one known *)
Definition values_case_ok (c : case) : bool :=
  match k_win c with
  | None =>
  modified_values_ok (jq_of c) (declared_types (decl_of c)) (k_filter c)
                     (known_of_list (jq_of c) (k_filter c) (listed_of c)) (changes_of c)
                     (map (spec_obs c) (k_obs c))
  | Some _ =>
  (* window cases: the clause speaks of the triggers AT the deliveries; it applies after the unlock *)
  modified_values_ok (jq_of c) (declared_types (decl_of c)) (k_filter c)
                     (k_after (jq_of c) (k_filter c) (known_of_list (jq_of c) (k_filter c) (listed_of c))
                              (firstn (win_n c) (changes_of c)))
                     (skipn (win_n c) (changes_of c))
                     (skipn (win_n c) (map (spec_obs c) (k_obs c)))
  end.

(* the triggers handed over by the unlock as the specification speaks of them *)
Definition flushed_steps (c : case) : list step :=
  map (fun p => let s := state_at c (snd p) in (fst p, fst s, snd s)) (k_flushed c).

Definition P_case (c : case) : bool :=
  match k_win c with
  | None =>
      P_decl (jq_of c) (decl_of c) (k_filter c) (listed_of c) (changes_of c)
             (map (spec_obs c) (k_obs c))
  | Some _ =>
      P_win_decl (jq_of c) (decl_of c) (k_filter c) (listed_of c)
                 (firstn (win_n c) (changes_of c)) (firstn (win_n c) (map (spec_obs c) (k_obs c)))
                 (flushed_steps c)
                 (skipn (win_n c) (changes_of c)) (skipn (win_n c) (map (spec_obs c) (k_obs c)))
  end
  && fr_case_ok c && values_case_ok c.

Definition spec_violations (cs : list case) : list N := indices_where (fun c => negb (P_case c)) cs.

(* F8 as narrow as it is ([T_F8m]: two differing results of the history merge into the same
   object; C08_F8m_narrower: only where [T_F8] holds; C08_partial_merge_declared: P holds for
   the model on every history outside it) *)
Definition trigger_F8 (cs : list case) : list N :=
  indices_where (fun c => T_F8m (jq_of c) (k_filter c) (listed_steps (listed_of c) ++ changes_of c)) cs.
Definition trigger_F16 (cs : list case) : list N :=
  indices_where (fun c => T_F16 (jq_of c) (k_filter c) (listed_steps (listed_of c) ++ changes_of c)) cs.
