(* C01_Relist.v — the history class of C01_Hist ACROSS WATCH OUTAGES (seeded change C01-6).

   A history is now a sequence of
     RStep op   one step of C01_Hist (object set / delete, namespace set / delete) seen by a
                healthy watch, exactly as there ([hfire], C02_Model.[dstep]);
     ROut l     a watch outage: the watch connections of the binding's resource informers
                break and cannot be resumed (the API server answers 410 Gone / "too old resource
                version", or is not reachable at all and LIST fails, too); WHILE they are down
                the objects of [l] are created, modified, deleted - any number of times, in any
                namespace; then the server is back and every reflector RELISTS.
                (Namespaces do not change during an outage: the namespace informer's own
                connection would be down as well; what it does after ITS relist is C02's matter.)

   What a relist delivers (client-go v0.30.11: Reflector.list -> syncWith -> DeltaFIFO.Replace
   against the informer's store as KnownObjects, EmitDeltaTypeReplaced; processDeltas;
   sharedIndexInformer.OnAdd/OnUpdate/OnDelete), per shared informer:
     - for every object of the new list a Replaced delta: the store knows the key -> OnUpdate
       (old, new), it does not -> OnAdd;                (an object deleted and created again
       during the outage is an update, one created and deleted again is nothing at all)
     - for every key of the store that the list no longer has a Deleted delta carrying
       cache.DeletedFinalStateUnknown{Key, Obj: the store's last state} BY VALUE -> OnDelete(tombstone).
   Every key gets at most one call.  The resourceInformer's handlers (resource_informer.go,
   handleWatchEvent, whose head unwraps the tombstone: C01_Forms) then decide as always:
   Added / Modified are skipped when the cached checksum equals the new one (an unchanged
   object, a change outside the jqFilter), Deleted is never skipped; [inf_fire] of C01_Hist.
   Because every key gets at most one call, each decision looks at a cache entry no earlier
   call of the same relist has touched: the decisions are taken against the cache as it was
   when the watch broke (C01_RelistProofs.[relist_run_static] proves that walking the calls
   one by one with the cache changing underneath gives the same events and, per key, the cache
   written below).  After the relist the cache (a Go map) holds exactly the listed objects.

   The store of the shared informer and the cache of the resourceInformer hold the same objects
   whenever the watch is healthy and quiet (C02_DynProofs.DInv: the cache is the cluster's
   content of the informer's scope), so one list per informer stands for both.  No proofs here. *)
From Verif Require Import Common C01_Model C02_Model C01_Hist.
Open Scope N_scope.

(* what happens to objects while the watch is down *)
Inductive oop := OSet (o : obj) | ODel (ns name : N).
Definition hop_of (x : oop) : hop := match x with OSet o => HSet o | ODel ns name => HDel ns name end.

Inductive rhop := RStep (op : hop) | ROut (l : list oop).

(* the cluster after the operations of an outage *)
Definition out_apply (c : dcl) (l : list oop) : dcl :=
  fold_left (fun c x => dcl_apply c (dop_of (hop_of x))) l c.

(* ---- one informer ---- *)

(* a handler call of the relist: the callback, the form of its argument, the object (carried) *)
Inductive form := FObj | FTomb.
Definition rcall := (wkind * form * obj)%type.

Definition relist_kind (o : obj) (store : list obj) : wkind :=
  match lookup o store with Some _ => Modified | None => Added end.

(* DeltaFIFO.Replace: the listed objects first, then tombstones for the keys that are gone *)
Definition relist_calls (store listed : list obj) : list rcall :=
  map (fun o => (relist_kind o store, FObj, o)) listed
  ++ flat_map (fun old => match lookup old listed with
                          | Some _ => []
                          | None => [(Deleted, FTomb, old)]
                          end) store.

(* the head of handleWatchEvent: both forms end as the object (C01_Forms.head) *)
Definition call_obj (c : rcall) : obj := snd c.
Definition call_kind (c : rcall) : wkind := fst (fst c).

(* the events of the relist of one informer whose store and cache are [cache] *)
Definition inf_relist (types : list wkind) (flt : bool) (cache listed : list obj) : list hevent :=
  flat_map (fun c => inf_fire types flt (call_kind c) (call_obj c) cache) (relist_calls cache listed).

(* the same walking the calls one after the other, each against the cache the earlier ones left
   (what the code literally does); the proofs show it is [inf_relist] *)
Fixpoint inf_relist_run (types : list wkind) (flt : bool) (cache : list obj) (calls : list rcall)
  : list hevent * list obj :=
  match calls with
  | [] => ([], cache)
  | c :: r =>
      let evs := inf_fire types flt (call_kind c) (call_obj c) cache in
      let cache' := cl_apply cache (match call_kind c with Deleted => ODelete | _ => OModify end, call_obj c) in
      let (evs', final) := inf_relist_run types flt cache' r in
      (evs ++ evs', final)
  end.

(* ---- the monitor: every running informer relists; its LIST returns the cluster's objects of
   its scope (namespace + name) ---- *)
Definition mon_relist (types : list wkind) (flt : bool) (m : dmon) (objs' : list obj) : list hevent :=
  flat_map (fun e : N * list informer =>
              flat_map (fun inf : informer =>
                          inf_relist types flt (snd inf) (filter (in_scope (Some (fst e), fst inf)) objs'))
                       (snd e))
           (dm_vary m).

Definition relist_mon (m : dmon) (objs' : list obj) : dmon :=
  mkDM (map (fun e : N * list informer =>
               (fst e, map (fun inf : informer => (fst inf, filter (in_scope (Some (fst e), fst inf)) objs')) (snd e)))
            (dm_vary m))
       (dm_cancel m).

(* ---- histories ---- *)
Definition rfire (i : hist_in) (st : dcl * dmon) (op : rhop) : list hevent :=
  match op with
  | RStep h => hfire i st h
  | ROut l => mon_relist (h_types i) (h_filter i) (snd st) (fst (out_apply (fst st) l))
  end.

Definition rstep (names : list N) (st : dcl * dmon) (op : rhop) : dcl * dmon :=
  match op with
  | RStep h => dstep names st (dop_of h)
  | ROut l => let c' := out_apply (fst st) l in (c', relist_mon (snd st) (fst c'))
  end.

Fixpoint rrun (i : hist_in) (st : dcl * dmon) (ops : list rhop) : list hevent :=
  match ops with
  | [] => []
  | op :: r => rfire i st op ++ rrun i (rstep (h_names i) st op) r
  end.

(* the events handed to the hook after the unlock; the configuration and the initial cluster
   are those of [i] (its h_ops are not looked at) *)
Definition relist_out (i : hist_in) (ops : list rhop) : list hevent := rrun i (hist_init i) ops.
