(* C09_Proofs.v — lemmas and proofs for C09. *)
From Verif Require Import Common Json C09_Model C09_Spec.

(* ---- facts about the bytewise order ---- *)

Lemma bytes_ltb_irrefl a : bytes_ltb a a = false.
Proof.
  induction a as [|x a IH]; simpl; [reflexivity|].
  rewrite N.ltb_irrefl, N.eqb_refl. exact IH.
Qed.

Lemma bytes_ltb_asym a : forall b, bytes_ltb a b = true -> bytes_ltb b a = false.
Proof.
  induction a as [|x a IH]; intros [|y b] H; simpl in *; try reflexivity; try discriminate.
  destruct (N.ltb x y) eqn:Hxy.
  - apply N.ltb_lt in Hxy.
    destruct (N.ltb y x) eqn:Hyx; [apply N.ltb_lt in Hyx; lia|].
    destruct (N.eqb y x) eqn:Heq; [apply N.eqb_eq in Heq; lia|reflexivity].
  - destruct (N.eqb x y) eqn:Heq; [|discriminate].
    apply N.eqb_eq in Heq; subst y. rewrite N.ltb_irrefl, N.eqb_refl. now apply IH.
Qed.

Lemma bytes_ltb_neq a b : bytes_ltb a b = true -> bytes_eqb b a = false.
Proof.
  intros H. destruct (bytes_eqb b a) eqn:E; [|reflexivity].
  apply bytes_eqb_eq in E; subst. now rewrite bytes_ltb_irrefl in H.
Qed.

(* ---- obj_set on sorted lists ---- *)

Lemma obj_set_append k v acc :
  Forall (fun p => bytes_ltb (fst p) k = true) acc -> obj_set k v acc = acc ++ [(k, v)].
Proof.
  induction acc as [|[k' v'] acc IH]; intros H; simpl; [reflexivity|].
  inversion H as [|? ? Hk Hr]; subst; simpl in Hk.
  rewrite (bytes_ltb_neq _ _ Hk), (bytes_ltb_asym _ _ Hk). now rewrite IH.
Qed.

Lemma fold_obj_set_sorted A (g : bytes * A -> json) (l : list (bytes * A)) :
  forall acc, sorted_strict l = true ->
  Forall (fun p => forall q, In q l -> bytes_ltb (fst p) (fst q) = true) acc ->
  fold_left (fun a kv => obj_set (fst kv) (g kv) a) l acc = acc ++ map (fun kv => (fst kv, g kv)) l.
Proof.
  induction l as [|[k x] r IH]; intros acc Hs Hacc; simpl.
  - now rewrite app_nil_r.
  - simpl in Hs. apply andb_true_iff in Hs as [Hk Hr].
    rewrite obj_set_append.
    + rewrite IH; [now rewrite <- app_assoc | exact Hr |].
      apply Forall_app; split.
      * eapply Forall_impl; [|exact Hacc]. intros p Hp q Hq. apply Hp. now right.
      * constructor; [|constructor]. intros q Hq. simpl.
        rewrite forallb_forall in Hk. now apply Hk.
    + eapply Forall_impl; [|exact Hacc]. intros p Hp. apply (Hp (k, x)). now left.
Qed.

Lemma map_pair_eta A B (m : list (A * B)) : map (fun kv => (fst kv, snd kv)) m = m.
Proof. induction m as [|[a b] m IH]; simpl; [reflexivity|now rewrite IH]. Qed.

Lemma copy_sorted m : sorted_strict m = true -> copy m [] = m.
Proof.
  intros H. unfold copy.
  rewrite (fold_obj_set_sorted _ (fun kv => snd kv) m [] H (Forall_nil _)). simpl. apply map_pair_eta.
Qed.

(* a single object-valued jq result is stored as it is *)
Lemma glue_single m : sorted_strict m = true -> glue [JObj m] = m.
Proof. intros H. unfold glue; simpl. now apply copy_sorted. Qed.

Lemma snapshots_json_sorted l :
  sorted_strict l = true ->
  snapshots_json l = JObj (map (fun p => (fst p, JArr (map render_item (snd p)))) l).
Proof.
  intros H. unfold snapshots_json.
  now rewrite (fold_obj_set_sorted _ (fun p => JArr (map render_item (snd p))) l [] H (Forall_nil _)).
Qed.

(* ---- one watched object ---- *)

Local Arguments json_eqb : simpl never.
Local Arguments snapshots_json : simpl never.
Local Arguments render_item : simpl never.
Local Arguments glue : simpl never.

(* what Map() yields for an element stored by the informer path whose jq result is one object *)
Lemma item_trigger_false_inv outs keep obj :
  item_trigger (Stored (Some outs) keep obj) = false -> exists m, outs = [JObj m].
Proof.
  destruct outs as [|[| | | | | |m] [|? ?]]; simpl; try discriminate. intros _. now exists m.
Qed.

Lemma item_fields_rendered jq i :
  wf_item jq i = true -> item_trigger i = false -> item_fields_ok i (render_item i) = true.
Proof.
  destruct i as [jqf keep obj|o]; [|discriminate].
  intros Hwf Ht. unfold wf_item in Hwf. apply andb_true_iff in Hwf as [_ Hc].
  destruct jqf as [outs|].
  - destruct (item_trigger_false_inv _ _ _ Ht) as [m ->].
    simpl in Hc. rewrite andb_true_r in Hc.
    unfold render_item, ofr_of_item, apply_filter. rewrite (glue_single _ Hc).
    destruct keep; cbn; now rewrite ?json_eqb_refl.
  - unfold render_item, ofr_of_item, apply_filter.
    destruct keep; cbn; now rewrite ?json_eqb_refl.
Qed.

Lemma item_keys_rendered i :
  forallb (fun k => bytes_eqb k k_object || bytes_eqb k k_filterResult) (jkeys (render_item i)) = true.
Proof.
  unfold render_item.
  destruct i as [[outs|] [|] obj|[[|] [|] ob [|t p|v]]]; reflexivity.
Qed.

Lemma item_doc_rendered jq i :
  wf_item jq i = true -> item_trigger i = false -> item_doc_ok i (render_item i) = true.
Proof.
  intros Hwf Ht. unfold item_doc_ok.
  now rewrite (item_fields_rendered jq i Hwf Ht), item_keys_rendered.
Qed.

Lemma items_doc_rendered jq l :
  forallb (wf_item jq) l = true -> existsb item_trigger l = false ->
  items_doc_ok l (JArr (map render_item l)) = true.
Proof.
  unfold items_doc_ok.
  induction l as [|i l IH]; simpl; intros Hwf Ht; [reflexivity|].
  apply andb_true_iff in Hwf as [Hi Hl]. apply orb_false_iff in Ht as [Hti Htl].
  now rewrite (item_doc_rendered jq i Hi Hti), IH.
Qed.

Lemma snapshots_doc_rendered l :
  sorted_strict l = true ->
  forallb (fun p => forallb (wf_item None) (snd p)) l = true ->
  existsb (fun p => existsb item_trigger (snd p)) l = false ->
  snapshots_doc_ok l (snapshots_json l) = true.
Proof.
  intros Hs Hwf Ht. rewrite (snapshots_json_sorted _ Hs). unfold snapshots_doc_ok. clear Hs.
  induction l as [|[n its] l IH]; simpl in *; [reflexivity|].
  apply andb_true_iff in Hwf as [Hi Hl]. apply orb_false_iff in Ht as [Hti Htl].
  pose proof (items_doc_rendered None its Hi Hti) as Hits. unfold items_doc_ok in Hits.
  now rewrite bytes_eqb_refl, Hits, IH.
Qed.

(* ---- one context, v1 ---- *)

Local Arguments items_doc_ok : simpl never.
Local Arguments snapshots_doc_ok : simpl never.
Local Arguments item_fields_ok : simpl never.
Local Arguments opt_json : simpl never.
Local Arguments wev_str : simpl never.

Ltac proj := cbn [c_btype c_jq c_incl c_incl_all c_group c_binding c_type c_wev c_objects c_snapshots
                  c_areview c_creview c_from c_to].
Ltac proj_in H := cbn [c_btype c_jq c_incl c_incl_all c_group c_binding c_type c_wev c_objects c_snapshots
                       c_areview c_creview c_from c_to] in H.

Lemma doc_v1_rendered c :
  wf1 c = true -> ctx_trigger c = false -> doc_v1 c (JObj (map_v1 c)) = true.
Proof.
  destruct c as [bt jq incl inclall grp bnd kt wev objs snaps arev crev from to].
  unfold wf1, wf_snapshots, ctx_trigger; proj.
  intros Hwf Ht. apply andb_true_iff in Hwf as [Hsn Hk]. apply andb_true_iff in Hsn as [Hss Hsw].
  apply orb_false_iff in Ht as [Hto Hts].
  pose proof (snapshots_doc_rendered snaps Hss Hsw Hts) as Hsnap.
  unfold doc_v1, documented_keys, doc_kind, grouped, includes, map_v1, first_keep in *; proj; proj_in Hk.
  destruct bt.
  - (* onStartup *)
    destruct incl, inclall; try discriminate Hk; cbn; now rewrite ?json_eqb_refl.
  - (* schedule *)
    destruct incl, inclall, grp; cbn; now rewrite ?Hsnap, ?json_eqb_refl.
  - (* kubernetes *)
    destruct grp as [|g0 grp].
    + cbn [is_nil negb] in Hk. cbn [is_nil negb].
      destruct kt; [discriminate Hk| |].
      * (* Synchronization *)
        destruct wev; try discriminate Hk.
        pose proof (items_doc_rendered (Some jq) objs Hk Hto) as Hobjs.
        destruct incl, inclall; cbn; now rewrite ?Hsnap, ?Hobjs, ?json_eqb_refl.
      * (* Event *)
        assert (Hev : exists i, objs = [i] /\ wf_item (Some jq) i = true /\ wev <> WNone).
        { destruct wev; try discriminate Hk; destruct objs as [|i [|i2 objs]]; try discriminate Hk;
            exists i; repeat split; try assumption; discriminate. }
        destruct Hev as [i [-> [Hi Hw]]]. clear Hk.
        cbn [existsb] in Hto. rewrite orb_false_r in Hto.
        destruct i as [jqf keep obj|o]; [|discriminate Hi].
        unfold wf_item in Hi. apply andb_true_iff in Hi as [Hjq Hc].
        apply Bool.eqb_prop in Hjq. subst jq.
        unfold ofr_of_item, apply_filter.
        destruct jqf as [outs|].
        -- destruct (item_trigger_false_inv _ _ _ Hto) as [m ->].
           simpl in Hc. rewrite andb_true_r in Hc. rewrite (glue_single _ Hc).
           unfold item_fields_ok.
           destruct wev; [congruence| | |]; destruct keep, incl, inclall; cbn;
             now rewrite ?Hsnap, ?json_eqb_refl.
        -- unfold item_fields_ok.
           destruct wev; [congruence| | |]; destruct keep, incl, inclall; cbn;
             now rewrite ?Hsnap, ?json_eqb_refl.
    + destruct incl, inclall; cbn; now rewrite ?Hsnap, ?json_eqb_refl.
  - destruct incl, inclall; cbn; now rewrite ?Hsnap, ?json_eqb_refl.
  - destruct incl, inclall; cbn; now rewrite ?Hsnap, ?json_eqb_refl.
  - destruct incl, inclall; cbn; now rewrite ?Hsnap, ?json_eqb_refl.
  - discriminate Hk.
Qed.

(* ---- lookups through obj_set / copy ---- *)

Lemma assoc_obj_set_same k v m : assoc k (obj_set k v m) = Some v.
Proof.
  induction m as [|[k2 v2] m IH]; simpl; [now rewrite bytes_eqb_refl|].
  destruct (bytes_eqb k k2) eqn:E; simpl; [now rewrite bytes_eqb_refl|].
  destruct (bytes_ltb k k2); simpl; [now rewrite bytes_eqb_refl|].
  now rewrite E.
Qed.

Lemma assoc_obj_set_other k k' v m :
  bytes_eqb k k' = false -> assoc k (obj_set k' v m) = assoc k m.
Proof.
  intros H. induction m as [|[k2 v2] m IH]; simpl; [now rewrite H|].
  destruct (bytes_eqb k' k2) eqn:E; simpl.
  - apply bytes_eqb_eq in E; subst k2. now rewrite H.
  - destruct (bytes_ltb k' k2); simpl; [now rewrite H|].
    destruct (bytes_eqb k k2); [reflexivity|exact IH].
Qed.

Lemma assoc_copy_other k m : forall acc,
  forallb (fun kv => negb (bytes_eqb k (fst kv))) m = true -> assoc k (copy m acc) = assoc k acc.
Proof.
  unfold copy. induction m as [|[k2 v2] m IH]; intros acc H; simpl; [reflexivity|].
  simpl in H. apply andb_true_iff in H as [H1 H2]. rewrite IH by exact H2.
  apply assoc_obj_set_other. now apply negb_true_iff.
Qed.

Lemma map_ofr_no_key k o :
  bytes_eqb k k_object = false -> bytes_eqb k k_filterResult = false ->
  forallb (fun kv => negb (bytes_eqb k (fst kv))) (map_ofr o) = true.
Proof.
  intros H1 H2.
  destruct o as [[|] [|] ob [|t p|v]]; cbn; now rewrite ?H1, ?H2.
Qed.

Ltac case_all :=
  repeat match goal with
         | |- context [match ?x with _ => _ end] => destruct x
         end.

Ltac lookup_other :=
  repeat first
    [ rewrite assoc_obj_set_other by reflexivity
    | rewrite assoc_copy_other by (apply map_ofr_no_key; reflexivity) ].

(* `binding` is always there, whatever the context *)
Lemma binding_rendered c : jget k_binding (JObj (map_v1 c)) = Some (JStr (c_binding c)).
Proof.
  unfold jget, map_v1. case_all; lookup_other; apply assoc_obj_set_same.
Qed.

Lemma has_intro k v j : jget k j = Some v -> has k v j = true.
Proof. intros H. unfold has. rewrite H. simpl. apply json_eqb_refl. Qed.

Lemma P_item_v1_rendered c : ctx_trigger c = false -> P_item V1 c (JObj (map_v1 c)) = true.
Proof.
  intros Ht. unfold P_item, binding_ok. rewrite (has_intro _ _ _ (binding_rendered c)). simpl.
  destruct (wf1 c) eqn:Hwf; [|reflexivity]. now apply doc_v1_rendered.
Qed.

(* ---- the key set (no assumption on the jq results) ---- *)

Lemma fields_exact c : wf1 c = true -> jkeys (JObj (map_v1 c)) = documented_keys c.
Proof.
  destruct c as [bt jq incl inclall grp bnd kt wev objs snaps arev crev from to].
  unfold wf1, wf_snapshots; proj. intros Hwf. apply andb_true_iff in Hwf as [_ Hk].
  unfold documented_keys, doc_kind, grouped, includes, map_v1, first_keep in *; proj; proj_in Hk.
  destruct bt.
  - destruct incl, inclall; try discriminate Hk; reflexivity.
  - destruct incl, inclall, grp; reflexivity.
  - destruct grp as [|g0 grp].
    + cbn [is_nil negb] in Hk. cbn [is_nil negb].
      destruct kt; [discriminate Hk| |].
      * destruct wev; try discriminate Hk. destruct incl, inclall; reflexivity.
      * assert (Hev : exists i, objs = [i] /\ wf_item (Some jq) i = true /\ wev <> WNone).
        { destruct wev; try discriminate Hk; destruct objs as [|i [|i2 objs]]; try discriminate Hk;
            exists i; repeat split; try assumption; discriminate. }
        destruct Hev as [i [-> [Hi Hw]]]. clear Hk.
        destruct i as [jqf keep obj|o]; [|discriminate Hi].
        unfold wf_item in Hi. apply andb_true_iff in Hi as [Hjq _].
        apply Bool.eqb_prop in Hjq. subst jq.
        destruct wev; [congruence| | |]; destruct jqf, keep, incl, inclall; reflexivity.
    + destruct incl, inclall; reflexivity.
  - destruct incl, inclall; reflexivity.
  - destruct incl, inclall; reflexivity.
  - destruct incl, inclall; reflexivity.
  - discriminate Hk.
Qed.

(* ---- snapshots present exactly when the binding includes snapshots ---- *)

Lemma snapshots_iff_any c :
  c_btype c <> BOnStartup -> is_some (jget k_snapshots (JObj (map_v1 c))) = includes c.
Proof.
  intros Hb. unfold jget, map_v1. destruct (includes c); case_all; try congruence;
    lookup_other; try (rewrite assoc_obj_set_same); reflexivity.
Qed.

Lemma snapshots_iff c : wf1 c = true -> is_some (jget k_snapshots (JObj (map_v1 c))) = includes c.
Proof.
  intros Hwf. destruct (c_btype c) eqn:Hb; try (apply snapshots_iff_any; congruence).
  unfold wf1 in Hwf. rewrite Hb in Hwf. apply andb_true_iff in Hwf as [_ Hi].
  apply negb_true_iff in Hi. rewrite Hi. unfold map_v1. now rewrite Hb.
Qed.

Lemma snapshots_value c :
  includes c = true -> c_btype c <> BOnStartup ->
  jget k_snapshots (JObj (map_v1 c)) = Some (snapshots_json (c_snapshots c)).
Proof.
  intros Hi Hb. unfold jget, map_v1. rewrite Hi. case_all; try congruence;
    lookup_other; apply assoc_obj_set_same.
Qed.

(* ---- the full object is there exactly when full objects are kept ---- *)

Lemma object_iff_keep_item jqf keep obj :
  jget k_object (render_item (Stored jqf keep obj)) = if keep then Some obj else None.
Proof. destruct jqf, keep; reflexivity. Qed.

Lemma filter_result_iff_jq_item jqf keep obj :
  is_some (jget k_filterResult (render_item (Stored jqf keep obj))) = is_some jqf.
Proof. destruct jqf, keep; reflexivity. Qed.

Definition is_event (c : ctx) : bool :=
  match c_btype c, c_group c, c_type c with BKube, [], KEvent => true | _, _, _ => false end.

Lemma object_iff_keep_event c jqf keep obj rest :
  is_event c = true -> c_objects c = Stored jqf keep obj :: rest ->
  jget k_object (JObj (map_v1 c)) = if keep then Some obj else None.
Proof.
  unfold is_event, map_v1. intros He Ho. rewrite Ho.
  destruct (c_btype c); try discriminate He. destruct (c_group c); try discriminate He.
  destruct (c_type c); try discriminate He. cbn [is_nil negb].
  unfold ofr_of_item, apply_filter.
  destruct (includes c), (c_wev c), jqf, keep; reflexivity.
Qed.

(* ---- filterResult = the jq result, for object-valued results ---- *)

Lemma filter_result_item keep obj m :
  sorted_strict m = true ->
  jget k_filterResult (render_item (Stored (Some [JObj m]) keep obj)) = Some (JObj m).
Proof.
  intros Hm. unfold render_item, ofr_of_item, apply_filter. rewrite (glue_single _ Hm).
  destruct keep; reflexivity.
Qed.

Lemma filter_result_event c keep obj m rest :
  is_event c = true -> c_objects c = Stored (Some [JObj m]) keep obj :: rest ->
  sorted_strict m = true ->
  jget k_filterResult (JObj (map_v1 c)) = Some (JObj m).
Proof.
  unfold is_event, map_v1. intros He Ho Hm. rewrite Ho.
  destruct (c_btype c); try discriminate He. destruct (c_group c); try discriminate He.
  destruct (c_type c); try discriminate He. cbn [is_nil negb].
  unfold ofr_of_item, apply_filter. rewrite (glue_single _ Hm).
  destruct (includes c), (c_wev c), keep; reflexivity.
Qed.

Lemma filter_result_absent_event c keep obj rest :
  is_event c = true -> c_objects c = Stored None keep obj :: rest ->
  jget k_filterResult (JObj (map_v1 c)) = None.
Proof.
  unfold is_event, map_v1. intros He Ho. rewrite Ho.
  destruct (c_btype c); try discriminate He. destruct (c_group c); try discriminate He.
  destruct (c_type c); try discriminate He. cbn [is_nil negb].
  destruct (includes c), (c_wev c), keep; reflexivity.
Qed.

(* ---- v0 ---- *)

Lemma jstr_at_spec p obj : jstr_at p obj = str_or_empty (jpath p obj).
Proof. reflexivity. Qed.

Lemma binding_rendered_v0 c m : map_v0 c = Some m -> jget k_binding (JObj m) = Some (JStr (c_binding c)).
Proof.
  unfold map_v0, jget. intros H.
  destruct (c_btype c); try (inversion H; subst; reflexivity).
  destruct (c_objects c) as [|i r]; [inversion H; subst; reflexivity|].
  destruct (o_object (ofr_of_item i)); inversion H; subst. reflexivity.
Qed.

(* a v0 context never crashes when full objects are kept, and then has the v0 shape *)
Lemma v0_shape c : wf0 c = true -> exists m, map_v0 c = Some m /\ doc_v0 c (JObj m) = true.
Proof.
  unfold wf0, map_v0, doc_v0. intros Hwf.
  destruct (c_btype c); try (eexists; split; [reflexivity|reflexivity]).
  destruct (c_objects c) as [|[jqf keep obj|o] r]; try discriminate Hwf.
  - eexists; split; [reflexivity|]. destruct (c_wev c); cbn; now rewrite ?json_eqb_refl.
  - subst keep. cbn [ofr_of_item apply_filter o_object].
    eexists; split; [reflexivity|]. rewrite !jstr_at_spec.
    destruct (c_wev c); cbn; now rewrite ?json_eqb_refl.
Qed.

Lemma P_item_v0_rendered c m : map_v0 c = Some m -> P_item V0 c (JObj m) = true.
Proof.
  intros Hm. unfold P_item, binding_ok. rewrite (has_intro _ _ _ (binding_rendered_v0 c m Hm)). simpl.
  destruct (wf0 c) eqn:Hwf; [|reflexivity].
  destruct (v0_shape c Hwf) as [m' [Hm' Hd]]. rewrite Hm in Hm'. inversion Hm'; subst. exact Hd.
Qed.

(* ---- whole files ---- *)

Lemma render_all_length v cs js : render_all v cs = Some js -> length js = length cs.
Proof.
  revert js. induction cs as [|c cs IH]; simpl; intros js H; [inversion H; reflexivity|].
  destruct (render v c); [|discriminate]. destruct (render_all v cs); [|discriminate].
  inversion H; subst; simpl. now rewrite (IH l).
Qed.

(* every file the model produces conforms, outside the trigger of F8 *)
Lemma contract_partial v cs out :
  render_list v cs = Some out -> T v cs = false -> P v cs (Some out) = true.
Proof.
  unfold render_list. destruct (render_all v cs) as [js|] eqn:Hr; [|discriminate].
  intros H Ht. inversion H; subst out. unfold P. clear H.
  revert js Hr Ht. induction cs as [|c cs IH]; simpl; intros js Hr Ht; [inversion Hr; reflexivity|].
  destruct (render v c) as [j|] eqn:Hc; [|discriminate].
  destruct (render_all v cs) as [js'|] eqn:Hcs; [|discriminate].
  inversion Hr; subst js. simpl.
  assert (Htc : T v cs = false /\ (v = V1 -> ctx_trigger c = false)).
  { destruct v; simpl in Ht; try (split; [reflexivity|discriminate]).
    apply orb_false_iff in Ht as [H1 H2]. now split. }
  destruct Htc as [Htcs Htc]. rewrite (IH js' eq_refl Htcs), andb_true_r.
  destruct v; simpl in Hc.
  - destruct (map_v0 c) as [m|] eqn:Hm; [|discriminate]. inversion Hc; subst.
    now apply P_item_v0_rendered.
  - inversion Hc; subst. apply P_item_v1_rendered. now apply Htc.
  - reflexivity.
Qed.

(* v1 files are always produced; v0 files are produced when full objects are kept *)
Lemma v1_total cs : exists out, render_list V1 cs = Some out.
Proof.
  unfold render_list. induction cs as [|c cs [out IH]]; simpl; [eexists; reflexivity|].
  destruct (render_all V1 cs); [|discriminate]. eexists; reflexivity.
Qed.

Lemma v0_total cs : forallb wf0 cs = true -> exists out, render_list V0 cs = Some out.
Proof.
  unfold render_list. induction cs as [|c cs IH]; simpl; intros H; [eexists; reflexivity|].
  apply andb_true_iff in H as [Hc Hcs]. destruct (IH Hcs) as [out Hout].
  destruct (v0_shape c Hc) as [m [Hm _]]. rewrite Hm.
  destruct (render_all V0 cs); [|discriminate]. eexists; reflexivity.
Qed.

(* ---- the witnesses ---- *)

Module Wit.
Import String.
Local Open Scope string_scope.

Definition pod : json :=
  JObj [(k_kind, JStr (bs "Pod"));
        (k_metadata, JObj [(k_name, JStr (bs "p")); (k_namespace, JStr (bs "default"))]);
        (bs "spec", JObj [(bs "replicas", JNum 3%Z)])].

(* F8 seen through C09: jqFilter .spec.replicas, the jq result 3 is rendered as {} *)
Definition witness_F8 : ctx :=
  mkCtx BKube true [] false [] (bs "monitor-pods") KEvent WAdded [Stored (Some [JNum 3%Z]) true pod] []
        None None [] [].

Lemma refuted :
  wf1 witness_F8 = true /\ T V1 [witness_F8] = true
  /\ P V1 [witness_F8] (render_list V1 [witness_F8]) = false.
Proof. vm_compute. repeat split. Qed.

(* MapV0 dereferences the full object: a kubernetes context whose first object has none panics.
   Unreachable for v0 hooks since the repair of F15 (config v0 keeps full objects). *)
Definition witness_v0_nil : ctx :=
  mkCtx BKube false [] false [] (bs "onKubernetesEvent") KEvent WAdded [Stored None false pod] []
        None None [] [].

Lemma v0_nil_object_crashes : render_list V0 [witness_v0_nil] = None /\ wf0 witness_v0_nil = false.
Proof. vm_compute. split; reflexivity. Qed.

(* non-vacuity of the hypotheses: a documented Event context with an object-valued filter *)
Definition example_event : ctx :=
  mkCtx BKube true [bs "cm"] false [] (bs "monitor-pods") KEvent WModified
        [Stored (Some [JObj [(bs "replicas", JNum 3%Z)]]) true pod]
        [(bs "cm", [Stored None false pod])] None None [] [].

Lemma example_event_ok :
  wf1 example_event = true /\ T V1 [example_event] = false /\ is_event example_event = true
  /\ render_list V1 [example_event]
     = Some (JArr [JObj [(k_binding, JStr (bs "monitor-pods"));
                         (k_filterResult, JObj [(bs "replicas", JNum 3%Z)]);
                         (k_object, pod);
                         (k_snapshots, JObj [(bs "cm", JArr [JObj []])]);
                         (k_type, JStr s_Event);
                         (k_watchEvent, JStr s_Modified)]]).
Proof. vm_compute. repeat split. Qed.

Definition example_v0 : ctx :=
  mkCtx BKube false [] false [] (bs "onKubernetesEvent") KEvent WAdded [Stored None true pod] []
        None None [] [].

Lemma example_v0_ok :
  wf0 example_v0 = true
  /\ render_list V0 [example_v0]
     = Some (JArr [JObj [(k_binding, JStr (bs "onKubernetesEvent"));
                         (k_resourceEvent, JStr s_add);
                         (k_resourceKind, JStr (bs "Pod"));
                         (k_resourceName, JStr (bs "p"));
                         (k_resourceNamespace, JStr (bs "default"))]]).
Proof. vm_compute. split; reflexivity. Qed.
End Wit.
