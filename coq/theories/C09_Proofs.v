(* C09_Proofs.v — lemmas and proofs for C09. *)
From Verif Require Import Common Json C09_Model C09_Spec.

(* ---- facts about the bytewise order ---- *)

Lemma bytes_ltb_irrefl a : bytes_ltb a a = false.
Proof.
  induction a as [|x a IH]; simpl; [reflexivity|].
  rewrite N.ltb_irrefl, N.eqb_refl. exact IH.
Qed.

Lemma bytes_ltb_asym a : forall b, bytes_ltb a b = true -> bytes_ltb b a = false.
Proof.
  induction a as [|x a IH]; intros [|y b] H; simpl in *; try reflexivity; try discriminate.
  destruct (N.ltb x y) eqn:Hxy.
  - apply N.ltb_lt in Hxy.
    destruct (N.ltb y x) eqn:Hyx; [apply N.ltb_lt in Hyx; lia|].
    destruct (N.eqb y x) eqn:Heq; [apply N.eqb_eq in Heq; lia|reflexivity].
  - destruct (N.eqb x y) eqn:Heq; [|discriminate].
    apply N.eqb_eq in Heq; subst y. rewrite N.ltb_irrefl, N.eqb_refl. now apply IH.
Qed.

Lemma bytes_ltb_neq a b : bytes_ltb a b = true -> bytes_eqb b a = false.
Proof.
  intros H. destruct (bytes_eqb b a) eqn:E; [|reflexivity].
  apply bytes_eqb_eq in E; subst. now rewrite bytes_ltb_irrefl in H.
Qed.

(* ---- obj_set on sorted lists ---- *)

Lemma obj_set_append k v acc :
  Forall (fun p => bytes_ltb (fst p) k = true) acc -> obj_set k v acc = acc ++ [(k, v)].
Proof.
  induction acc as [|[k' v'] acc IH]; intros H; simpl; [reflexivity|].
  inversion H as [|? ? Hk Hr]; subst; simpl in Hk.
  rewrite (bytes_ltb_neq _ _ Hk), (bytes_ltb_asym _ _ Hk). now rewrite IH.
Qed.

Lemma fold_obj_set_sorted A (g : bytes * A -> json) (l : list (bytes * A)) :
  forall acc, sorted_strict l = true ->
  Forall (fun p => forall q, In q l -> bytes_ltb (fst p) (fst q) = true) acc ->
  fold_left (fun a kv => obj_set (fst kv) (g kv) a) l acc = acc ++ map (fun kv => (fst kv, g kv)) l.
Proof.
  induction l as [|[k x] r IH]; intros acc Hs Hacc; simpl.
  - now rewrite app_nil_r.
  - simpl in Hs. apply andb_true_iff in Hs as [Hk Hr].
    rewrite obj_set_append.
    + rewrite IH; [now rewrite <- app_assoc | exact Hr |].
      apply Forall_app; split.
      * eapply Forall_impl; [|exact Hacc]. intros p Hp q Hq. apply Hp. now right.
      * constructor; [|constructor]. intros q Hq. simpl.
        rewrite forallb_forall in Hk. now apply Hk.
    + eapply Forall_impl; [|exact Hacc]. intros p Hp. apply (Hp (k, x)). now left.
Qed.

Lemma map_pair_eta A B (m : list (A * B)) : map (fun kv => (fst kv, snd kv)) m = m.
Proof. induction m as [|[a b] m IH]; simpl; [reflexivity|now rewrite IH]. Qed.

Lemma copy_sorted m : sorted_strict m = true -> copy m [] = m.
Proof.
  intros H. unfold copy.
  rewrite (fold_obj_set_sorted _ (fun kv => snd kv) m [] H (Forall_nil _)). simpl. apply map_pair_eta.
Qed.

(* a single object-valued jq result is stored as it is *)
Lemma glue_single m : sorted_strict m = true -> glue [JObj m] = m.
Proof. intros H. unfold glue; simpl. now apply copy_sorted. Qed.

Lemma snapshots_json_sorted l :
  sorted_strict l = true ->
  snapshots_json l = JObj (map (fun p => (fst p, JArr (map render_item (snd p)))) l).
Proof.
  intros H. unfold snapshots_json.
  now rewrite (fold_obj_set_sorted _ (fun p => JArr (map render_item (snd p))) l [] H (Forall_nil _)).
Qed.

(* ---- one watched object ---- *)

Local Arguments json_eqb : simpl never.
Local Arguments snapshots_json : simpl never.
Local Arguments render_item : simpl never.
Local Arguments glue : simpl never.

(* what Map() yields for an element stored by the informer path whose jq result is one object *)
Lemma item_trigger_false_inv outs keep obj :
  item_trigger (Stored (Some outs) keep obj) = false -> exists m, outs = [JObj m].
Proof.
  destruct outs as [|[| | | | | |m] [|? ?]]; simpl; try discriminate. intros _. now exists m.
Qed.

Lemma item_fields_rendered jq i :
  wf_item jq i = true -> item_trigger i = false -> item_fields_ok i (render_item i) = true.
Proof.
  destruct i as [jqf keep obj|o]; [|discriminate].
  intros Hwf Ht. unfold wf_item in Hwf. apply andb_true_iff in Hwf as [_ Hc].
  destruct jqf as [outs|].
  - destruct (item_trigger_false_inv _ _ _ Ht) as [m ->].
    simpl in Hc. rewrite andb_true_r in Hc.
    unfold render_item, ofr_of_item, apply_filter. rewrite (glue_single _ Hc).
    destruct keep; cbn; now rewrite ?json_eqb_refl.
  - unfold render_item, ofr_of_item, apply_filter.
    destruct keep; cbn; now rewrite ?json_eqb_refl.
Qed.

Lemma item_keys_rendered i :
  forallb (fun k => bytes_eqb k k_object || bytes_eqb k k_filterResult) (jkeys (render_item i)) = true.
Proof.
  unfold render_item.
  destruct i as [[outs|] [|] obj|[[|] [|] ob [|t p|v]]]; reflexivity.
Qed.

Lemma item_doc_rendered jq i :
  wf_item jq i = true -> item_trigger i = false -> item_doc_ok i (render_item i) = true.
Proof.
  intros Hwf Ht. unfold item_doc_ok.
  now rewrite (item_fields_rendered jq i Hwf Ht), item_keys_rendered.
Qed.

Lemma items_doc_rendered jq l :
  forallb (wf_item jq) l = true -> existsb item_trigger l = false ->
  items_doc_ok l (JArr (map render_item l)) = true.
Proof.
  unfold items_doc_ok.
  induction l as [|i l IH]; simpl; intros Hwf Ht; [reflexivity|].
  apply andb_true_iff in Hwf as [Hi Hl]. apply orb_false_iff in Ht as [Hti Htl].
  now rewrite (item_doc_rendered jq i Hi Hti), IH.
Qed.

Lemma snapshots_doc_rendered l :
  sorted_strict l = true ->
  forallb (fun p => forallb (wf_item None) (snd p)) l = true ->
  existsb (fun p => existsb item_trigger (snd p)) l = false ->
  snapshots_doc_ok l (snapshots_json l) = true.
Proof.
  intros Hs Hwf Ht. rewrite (snapshots_json_sorted _ Hs). unfold snapshots_doc_ok. clear Hs.
  induction l as [|[n its] l IH]; simpl in *; [reflexivity|].
  apply andb_true_iff in Hwf as [Hi Hl]. apply orb_false_iff in Ht as [Hti Htl].
  pose proof (items_doc_rendered None its Hi Hti) as Hits. unfold items_doc_ok in Hits.
  now rewrite bytes_eqb_refl, Hits, IH.
Qed.

(* ---- one context, v1 ---- *)

Local Arguments items_doc_ok : simpl never.
Local Arguments snapshots_doc_ok : simpl never.
Local Arguments item_fields_ok : simpl never.
Local Arguments opt_json : simpl never.
Local Arguments wev_str : simpl never.

Ltac proj := cbn [c_btype c_jq c_incl c_incl_all c_group c_binding c_type c_wev c_objects c_snapshots
                  c_areview c_creview c_from c_to].
Ltac proj_in H := cbn [c_btype c_jq c_incl c_incl_all c_group c_binding c_type c_wev c_objects c_snapshots
                       c_areview c_creview c_from c_to] in H.

Lemma doc_v1_rendered c :
  wf1 c = true -> ctx_trigger c = false -> doc_v1 c (JObj (map_v1 c)) = true.
Proof.
  destruct c as [bt jq incl inclall grp bnd kt wev objs snaps arev crev from to].
  unfold wf1, wf_snapshots, ctx_trigger; proj.
  intros Hwf Ht. apply andb_true_iff in Hwf as [Hsn Hk]. apply andb_true_iff in Hsn as [Hss Hsw].
  apply orb_false_iff in Ht as [Hto Hts].
  pose proof (snapshots_doc_rendered snaps Hss Hsw Hts) as Hsnap.
  unfold doc_v1, documented_keys, doc_kind, grouped, includes, map_v1, first_keep in *; proj; proj_in Hk.
  destruct bt.
  - (* onStartup *)
    destruct incl, inclall; try discriminate Hk; cbn; now rewrite ?json_eqb_refl.
  - (* schedule *)
    destruct incl, inclall, grp; cbn; now rewrite ?Hsnap, ?json_eqb_refl.
  - (* kubernetes *)
    destruct grp as [|g0 grp].
    + cbn [is_nil negb] in Hk. cbn [is_nil negb].
      destruct kt; [discriminate Hk| |].
      * (* Synchronization *)
        destruct wev; try discriminate Hk.
        pose proof (items_doc_rendered (Some jq) objs Hk Hto) as Hobjs.
        destruct incl, inclall; cbn; now rewrite ?Hsnap, ?Hobjs, ?json_eqb_refl.
      * (* Event *)
        assert (Hev : exists i, objs = [i] /\ wf_item (Some jq) i = true /\ wev <> WNone).
        { destruct wev; try discriminate Hk; destruct objs as [|i [|i2 objs]]; try discriminate Hk;
            exists i; repeat split; try assumption; discriminate. }
        destruct Hev as [i [-> [Hi Hw]]]. clear Hk.
        cbn [existsb] in Hto. rewrite orb_false_r in Hto.
        destruct i as [jqf keep obj|o]; [|discriminate Hi].
        unfold wf_item in Hi. apply andb_true_iff in Hi as [Hjq Hc].
        apply Bool.eqb_prop in Hjq. subst jq.
        unfold ofr_of_item, apply_filter.
        destruct jqf as [outs|].
        -- destruct (item_trigger_false_inv _ _ _ Hto) as [m ->].
           simpl in Hc. rewrite andb_true_r in Hc. rewrite (glue_single _ Hc).
           unfold item_fields_ok.
           destruct wev; [congruence| | |]; destruct keep, incl, inclall; cbn;
             now rewrite ?Hsnap, ?json_eqb_refl.
        -- unfold item_fields_ok.
           destruct wev; [congruence| | |]; destruct keep, incl, inclall; cbn;
             now rewrite ?Hsnap, ?json_eqb_refl.
    + destruct incl, inclall; cbn; now rewrite ?Hsnap, ?json_eqb_refl.
  - destruct incl, inclall; cbn; now rewrite ?Hsnap, ?json_eqb_refl.
  - destruct incl, inclall; cbn; now rewrite ?Hsnap, ?json_eqb_refl.
  - destruct incl, inclall; cbn; now rewrite ?Hsnap, ?json_eqb_refl.
  - discriminate Hk.
Qed.

(* ---- lookups through obj_set / copy ---- *)

Lemma assoc_obj_set_same k v m : assoc k (obj_set k v m) = Some v.
Proof.
  induction m as [|[k2 v2] m IH]; simpl; [now rewrite bytes_eqb_refl|].
  destruct (bytes_eqb k k2) eqn:E; simpl; [now rewrite bytes_eqb_refl|].
  destruct (bytes_ltb k k2); simpl; [now rewrite bytes_eqb_refl|].
  now rewrite E.
Qed.

Lemma assoc_obj_set_other k k' v m :
  bytes_eqb k k' = false -> assoc k (obj_set k' v m) = assoc k m.
Proof.
  intros H. induction m as [|[k2 v2] m IH]; simpl; [now rewrite H|].
  destruct (bytes_eqb k' k2) eqn:E; simpl.
  - apply bytes_eqb_eq in E; subst k2. now rewrite H.
  - destruct (bytes_ltb k' k2); simpl; [now rewrite H|].
    destruct (bytes_eqb k k2); [reflexivity|exact IH].
Qed.

Lemma assoc_copy_other k m : forall acc,
  forallb (fun kv => negb (bytes_eqb k (fst kv))) m = true -> assoc k (copy m acc) = assoc k acc.
Proof.
  unfold copy. induction m as [|[k2 v2] m IH]; intros acc H; simpl; [reflexivity|].
  simpl in H. apply andb_true_iff in H as [H1 H2]. rewrite IH by exact H2.
  apply assoc_obj_set_other. now apply negb_true_iff.
Qed.

Lemma map_ofr_no_key k o :
  bytes_eqb k k_object = false -> bytes_eqb k k_filterResult = false ->
  forallb (fun kv => negb (bytes_eqb k (fst kv))) (map_ofr o) = true.
Proof.
  intros H1 H2.
  destruct o as [[|] [|] ob [|t p|v]]; cbn; now rewrite ?H1, ?H2.
Qed.

Ltac case_all :=
  repeat match goal with
         | |- context [match ?x with _ => _ end] => destruct x
         end.

Ltac lookup_other :=
  repeat first
    [ rewrite assoc_obj_set_other by reflexivity
    | rewrite assoc_copy_other by (apply map_ofr_no_key; reflexivity) ].

(* `binding` is always there, whatever the context *)
Lemma binding_rendered c : jget k_binding (JObj (map_v1 c)) = Some (JStr (c_binding c)).
Proof.
  unfold jget, map_v1. case_all; lookup_other; apply assoc_obj_set_same.
Qed.

Lemma has_intro k v j : jget k j = Some v -> has k v j = true.
Proof. intros H. unfold has. rewrite H. simpl. apply json_eqb_refl. Qed.

Lemma P_item_v1_rendered c : ctx_trigger c = false -> P_item V1 c (JObj (map_v1 c)) = true.
Proof.
  intros Ht. unfold P_item, binding_ok. rewrite (has_intro _ _ _ (binding_rendered c)). simpl.
  destruct (wf1 c) eqn:Hwf; [|reflexivity]. now apply doc_v1_rendered.
Qed.

(* ---- the key set (no assumption on the jq results) ---- *)

Lemma fields_exact c : wf1 c = true -> jkeys (JObj (map_v1 c)) = documented_keys c.
Proof.
  destruct c as [bt jq incl inclall grp bnd kt wev objs snaps arev crev from to].
  unfold wf1, wf_snapshots; proj. intros Hwf. apply andb_true_iff in Hwf as [_ Hk].
  unfold documented_keys, doc_kind, grouped, includes, map_v1, first_keep in *; proj; proj_in Hk.
  destruct bt.
  - destruct incl, inclall; try discriminate Hk; reflexivity.
  - destruct incl, inclall, grp; reflexivity.
  - destruct grp as [|g0 grp].
    + cbn [is_nil negb] in Hk. cbn [is_nil negb].
      destruct kt; [discriminate Hk| |].
      * destruct wev; try discriminate Hk. destruct incl, inclall; reflexivity.
      * assert (Hev : exists i, objs = [i] /\ wf_item (Some jq) i = true /\ wev <> WNone).
        { destruct wev; try discriminate Hk; destruct objs as [|i [|i2 objs]]; try discriminate Hk;
            exists i; repeat split; try assumption; discriminate. }
        destruct Hev as [i [-> [Hi Hw]]]. clear Hk.
        destruct i as [jqf keep obj|o]; [|discriminate Hi].
        unfold wf_item in Hi. apply andb_true_iff in Hi as [Hjq _].
        apply Bool.eqb_prop in Hjq. subst jq.
        destruct wev; [congruence| | |]; destruct jqf, keep, incl, inclall; reflexivity.
    + destruct incl, inclall; reflexivity.
  - destruct incl, inclall; reflexivity.
  - destruct incl, inclall; reflexivity.
  - destruct incl, inclall; reflexivity.
  - discriminate Hk.
Qed.

(* ---- snapshots present exactly when the binding includes snapshots ---- *)

Lemma snapshots_iff_any c :
  c_btype c <> BOnStartup -> is_some (jget k_snapshots (JObj (map_v1 c))) = includes c.
Proof.
  intros Hb. unfold jget, map_v1. destruct (includes c); case_all; try congruence;
    lookup_other; try (rewrite assoc_obj_set_same); reflexivity.
Qed.

Lemma snapshots_iff c : wf1 c = true -> is_some (jget k_snapshots (JObj (map_v1 c))) = includes c.
Proof.
  intros Hwf. destruct (c_btype c) eqn:Hb; try (apply snapshots_iff_any; congruence).
  unfold wf1 in Hwf. rewrite Hb in Hwf. apply andb_true_iff in Hwf as [_ Hi].
  apply negb_true_iff in Hi. rewrite Hi. unfold map_v1. now rewrite Hb.
Qed.

Lemma snapshots_value c :
  includes c = true -> c_btype c <> BOnStartup ->
  jget k_snapshots (JObj (map_v1 c)) = Some (snapshots_json (c_snapshots c)).
Proof.
  intros Hi Hb. unfold jget, map_v1. rewrite Hi. case_all; try congruence;
    lookup_other; apply assoc_obj_set_same.
Qed.

(* ---- the full object is there exactly when full objects are kept ---- *)

Lemma object_iff_keep_item jqf keep obj :
  jget k_object (render_item (Stored jqf keep obj)) = if keep then Some obj else None.
Proof. destruct jqf, keep; reflexivity. Qed.

Lemma filter_result_iff_jq_item jqf keep obj :
  is_some (jget k_filterResult (render_item (Stored jqf keep obj))) = is_some jqf.
Proof. destruct jqf, keep; reflexivity. Qed.

Definition is_event (c : ctx) : bool :=
  match c_btype c, c_group c, c_type c with BKube, [], KEvent => true | _, _, _ => false end.

Lemma object_iff_keep_event c jqf keep obj rest :
  is_event c = true -> c_objects c = Stored jqf keep obj :: rest ->
  jget k_object (JObj (map_v1 c)) = if keep then Some obj else None.
Proof.
  unfold is_event, map_v1. intros He Ho. rewrite Ho.
  destruct (c_btype c); try discriminate He. destruct (c_group c); try discriminate He.
  destruct (c_type c); try discriminate He. cbn [is_nil negb].
  unfold ofr_of_item, apply_filter.
  destruct (includes c), (c_wev c), jqf, keep; reflexivity.
Qed.

(* ---- filterResult = the jq result, for object-valued results ---- *)

Lemma filter_result_item keep obj m :
  sorted_strict m = true ->
  jget k_filterResult (render_item (Stored (Some [JObj m]) keep obj)) = Some (JObj m).
Proof.
  intros Hm. unfold render_item, ofr_of_item, apply_filter. rewrite (glue_single _ Hm).
  destruct keep; reflexivity.
Qed.

Lemma filter_result_event c keep obj m rest :
  is_event c = true -> c_objects c = Stored (Some [JObj m]) keep obj :: rest ->
  sorted_strict m = true ->
  jget k_filterResult (JObj (map_v1 c)) = Some (JObj m).
Proof.
  unfold is_event, map_v1. intros He Ho Hm. rewrite Ho.
  destruct (c_btype c); try discriminate He. destruct (c_group c); try discriminate He.
  destruct (c_type c); try discriminate He. cbn [is_nil negb].
  unfold ofr_of_item, apply_filter. rewrite (glue_single _ Hm).
  destruct (includes c), (c_wev c), keep; reflexivity.
Qed.

Lemma filter_result_absent_event c keep obj rest :
  is_event c = true -> c_objects c = Stored None keep obj :: rest ->
  jget k_filterResult (JObj (map_v1 c)) = None.
Proof.
  unfold is_event, map_v1. intros He Ho. rewrite Ho.
  destruct (c_btype c); try discriminate He. destruct (c_group c); try discriminate He.
  destruct (c_type c); try discriminate He. cbn [is_nil negb].
  destruct (includes c), (c_wev c), keep; reflexivity.
Qed.

(* ---- v0 ---- *)

Lemma jstr_at_spec p obj : jstr_at p obj = str_or_empty (jpath p obj).
Proof. reflexivity. Qed.

Lemma binding_rendered_v0 c m : map_v0 c = Some m -> jget k_binding (JObj m) = Some (JStr (c_binding c)).
Proof.
  unfold map_v0, jget. intros H.
  destruct (c_btype c); try (inversion H; subst; reflexivity).
  destruct (c_objects c) as [|i r]; [inversion H; subst; reflexivity|].
  destruct (o_object (ofr_of_item i)); inversion H; subst. reflexivity.
Qed.

(* a v0 context never crashes when full objects are kept, and then has the v0 shape *)
Lemma v0_shape c : wf0 c = true -> exists m, map_v0 c = Some m /\ doc_v0 c (JObj m) = true.
Proof.
  unfold wf0, map_v0, doc_v0. intros Hwf.
  destruct (c_btype c); try (eexists; split; [reflexivity|reflexivity]).
  destruct (c_objects c) as [|[jqf keep obj|o] r]; try discriminate Hwf.
  - eexists; split; [reflexivity|]. destruct (c_wev c); cbn; now rewrite ?json_eqb_refl.
  - subst keep. cbn [ofr_of_item apply_filter o_object].
    eexists; split; [reflexivity|]. rewrite !jstr_at_spec.
    destruct (c_wev c); cbn; now rewrite ?json_eqb_refl.
Qed.

Lemma P_item_v0_rendered c m : map_v0 c = Some m -> P_item V0 c (JObj m) = true.
Proof.
  intros Hm. unfold P_item, binding_ok. rewrite (has_intro _ _ _ (binding_rendered_v0 c m Hm)). simpl.
  destruct (wf0 c) eqn:Hwf; [|reflexivity].
  destruct (v0_shape c Hwf) as [m' [Hm' Hd]]. rewrite Hm in Hm'. inversion Hm'; subst. exact Hd.
Qed.

(* ---- whole files ---- *)

Lemma render_all_length v cs js : render_all v cs = Some js -> length js = length cs.
Proof.
  revert js. induction cs as [|c cs IH]; simpl; intros js H; [inversion H; reflexivity|].
  destruct (render v c); [|discriminate]. destruct (render_all v cs); [|discriminate].
  inversion H; subst; simpl. now rewrite (IH l).
Qed.

(* every file the model produces conforms, outside the trigger of F8 *)
Lemma contract_partial v cs out :
  render_list v cs = Some out -> T v cs = false -> P v cs (Some out) = true.
Proof.
  unfold render_list. destruct (render_all v cs) as [js|] eqn:Hr; [|discriminate].
  intros H Ht. inversion H; subst out. unfold P. clear H.
  revert js Hr Ht. induction cs as [|c cs IH]; simpl; intros js Hr Ht; [inversion Hr; reflexivity|].
  destruct (render v c) as [j|] eqn:Hc; [|discriminate].
  destruct (render_all v cs) as [js'|] eqn:Hcs; [|discriminate].
  inversion Hr; subst js. simpl.
  assert (Htc : T v cs = false /\ (v = V1 -> ctx_trigger c = false)).
  { destruct v; simpl in Ht; try (split; [reflexivity|discriminate]).
    apply orb_false_iff in Ht as [H1 H2]. now split. }
  destruct Htc as [Htcs Htc]. rewrite (IH js' eq_refl Htcs), andb_true_r.
  destruct v; simpl in Hc.
  - destruct (map_v0 c) as [m|] eqn:Hm; [|discriminate]. inversion Hc; subst.
    now apply P_item_v0_rendered.
  - inversion Hc; subst. apply P_item_v1_rendered. now apply Htc.
  - reflexivity.
Qed.

(* v1 files are always produced; v0 files are produced when full objects are kept *)
Lemma v1_total cs : exists out, render_list V1 cs = Some out.
Proof.
  unfold render_list. induction cs as [|c cs [out IH]]; simpl; [eexists; reflexivity|].
  destruct (render_all V1 cs); [|discriminate]. eexists; reflexivity.
Qed.

Lemma v0_total cs : forallb wf0 cs = true -> exists out, render_list V0 cs = Some out.
Proof.
  unfold render_list. induction cs as [|c cs IH]; simpl; intros H; [eexists; reflexivity|].
  apply andb_true_iff in H as [Hc Hcs]. destruct (IH Hcs) as [out Hout].
  destruct (v0_shape c Hc) as [m [Hm _]]. rewrite Hm.
  destruct (render_all V0 cs); [|discriminate]. eexists; reflexivity.
Qed.

(* ====================================================================================
   The informer path (flow cases)
   ==================================================================================== *)

Local Arguments render_list : simpl never.

(* ---- string-keyed maps ---- *)

Lemma bytes_eqb_sym a b : bytes_eqb a b = bytes_eqb b a.
Proof.
  destruct (bytes_eqb a b) eqn:E1, (bytes_eqb b a) eqn:E2; try reflexivity.
  - apply bytes_eqb_eq in E1; subst. now rewrite bytes_eqb_refl in E2.
  - apply bytes_eqb_eq in E2; subst. now rewrite bytes_eqb_refl in E1.
Qed.

Lemma aget_aset_same A k (v : A) m : aget k (aset k v m) = Some v.
Proof. unfold aget, aset; simpl. now rewrite bytes_eqb_refl. Qed.

Lemma aget_adel_other A k k' (m : list (bytes * A)) :
  bytes_eqb k' k = false -> aget k' (adel k m) = aget k' m.
Proof.
  intros H. unfold aget, adel. induction m as [|[k2 v2] m IH]; simpl; [reflexivity|].
  destruct (bytes_eqb k k2) eqn:E; simpl.
  - apply bytes_eqb_eq in E; subst k2. rewrite H. exact IH.
  - destruct (bytes_eqb k' k2); [reflexivity|exact IH].
Qed.

Lemma aget_aset_other A k k' (v : A) m :
  bytes_eqb k' k = false -> aget k' (aset k v m) = aget k' m.
Proof.
  intros H. unfold aset. unfold aget at 1. simpl. rewrite H. now apply aget_adel_other.
Qed.

Lemma In_adel A k (m : list (bytes * A)) p : In p (adel k m) -> In p m /\ bytes_eqb (fst p) k = false.
Proof.
  unfold adel. intros H. apply filter_In in H as [H1 H2]. split; [exact H1|].
  apply negb_true_iff in H2. now rewrite bytes_eqb_sym.
Qed.

(* every binding of the list is the one a lookup finds *)
Definition consistent {A} (m : list (bytes * A)) : Prop := forall k v, In (k, v) m -> aget k m = Some v.

Lemma consistent_nil A : consistent (@nil (bytes * A)).
Proof. intros k v []. Qed.

Lemma consistent_adel A k (m : list (bytes * A)) : consistent m -> consistent (adel k m).
Proof.
  intros Hm k' v' Hin. apply In_adel in Hin as [Hin Hk]. simpl in Hk.
  rewrite aget_adel_other by exact Hk. now apply Hm.
Qed.

Lemma consistent_aset A k (v : A) m : consistent m -> consistent (aset k v m).
Proof.
  intros Hm k' v' Hin. destruct Hin as [Heq|Hin].
  - inversion Heq; subst. apply aget_aset_same.
  - apply In_adel in Hin as [Hin Hk]. simpl in Hk.
    rewrite aget_aset_other by exact Hk. now apply Hm.
Qed.

Lemma Forall_adel A (Q : bytes * A -> Prop) k m : Forall Q m -> Forall Q (adel k m).
Proof.
  intros H. apply Forall_forall. intros p Hp. apply In_adel in Hp as [Hp _].
  rewrite Forall_forall in H. now apply H.
Qed.

Lemma Forall_aset A (Q : bytes * A -> Prop) k v m : Q (k, v) -> Forall Q m -> Forall Q (aset k v m).
Proof. intros Hv H. constructor; [exact Hv|now apply Forall_adel]. Qed.

(* mapping the values commutes with the map operations *)
Definition vmap {A B} (g : A -> B) (m : list (bytes * A)) : list (bytes * B) :=
  map (fun p => (fst p, g (snd p))) m.

Lemma vmap_adel A B (g : A -> B) k m : vmap g (adel k m) = adel k (vmap g m).
Proof.
  unfold vmap, adel. induction m as [|[k2 v2] m IH]; simpl; [reflexivity|].
  destruct (bytes_eqb k k2); simpl; now rewrite IH.
Qed.

Lemma vmap_aset A B (g : A -> B) k v m : vmap g (aset k v m) = aset k (g v) (vmap g m).
Proof. unfold aset. simpl. now rewrite vmap_adel. Qed.

Lemma aget_vmap A B (g : A -> B) k m :
  aget k (vmap g m) = match aget k m with Some v => Some (g v) | None => None end.
Proof.
  unfold aget, vmap. induction m as [|[k2 v2] m IH]; simpl; [reflexivity|].
  destruct (bytes_eqb k k2); [reflexivity|exact IH].
Qed.

(* ---- what the informer stores for an object ---- *)

Definition jqf_of (b : binding) (w : wobj) : option (list json) :=
  if b_jq b then Some (w_outs w) else None.

Definition entry_of (b : binding) (w : wobj) : entry :=
  let e := apply_filter_go (b_jq b) w in if b_keep b then e else remove_full_object e.

Lemma entry_of_id b w : en_id (entry_of b w) = w_id w.
Proof. unfold entry_of, apply_filter_go. destruct (b_jq b), (b_keep b); reflexivity. Qed.

(* the stored ObjectAndFilterResult is the filter result with the full object kept exactly
   when the binding keeps full objects *)
Lemma entry_of_ofr b w :
  en_ofr (entry_of b w) = apply_filter (jqf_of b w) (b_keep b) (w_obj w).
Proof. unfold entry_of, apply_filter_go, jqf_of, apply_filter. destruct (b_jq b), (b_keep b); reflexivity. Qed.

Lemma spec_item_ofr b w : ofr_of_item (spec_item b w) = en_ofr (entry_of b w).
Proof. rewrite entry_of_ofr. reflexivity. Qed.

Definition img (b : binding) (a : list (bytes * wobj)) : cache := vmap (entry_of b) a.

Lemma load_existing_img b ws a :
  load_existing b ws (img b a) = img b (fold_left (fun a w => aset (w_id w) w a) ws a).
Proof.
  unfold load_existing. revert a. induction ws as [|w ws IH]; intros a; simpl; [reflexivity|].
  change (if b_keep b then apply_filter_go (b_jq b) w else remove_full_object (apply_filter_go (b_jq b) w))
    with (entry_of b w).
  rewrite entry_of_id. unfold img at 1. rewrite <- vmap_aset. apply IH.
Qed.

Lemma handle_cache b a t w :
  fst (handle b (img b a) t w) = img b (alive_step a (t, w)).
Proof.
  unfold handle.
  change (if b_keep b then apply_filter_go (b_jq b) w else remove_full_object (apply_filter_go (b_jq b) w))
    with (entry_of b w).
  rewrite entry_of_id. unfold alive_step, img. simpl.
  destruct t; simpl; now rewrite ?vmap_aset, ?vmap_adel.
Qed.

(* every KubeEvent the informer fires — Added, Modified and Deleted alike — carries the
   object's filter result, with the full object exactly when the binding keeps full objects *)
Lemma handle_event b c t w c' ev :
  handle b c t w = (c', Some ev) ->
  t <> WNone
  /\ ev = mkKev KEvent [t] [(w_id w, apply_filter (jqf_of b w) (b_keep b) (w_obj w))].
Proof.
  unfold handle.
  change (if b_keep b then apply_filter_go (b_jq b) w else remove_full_object (apply_filter_go (b_jq b) w))
    with (entry_of b w).
  rewrite entry_of_id, entry_of_ofr. intros H.
  destruct t; try discriminate H.
  - destruct (match aget (w_id w) c with Some old => _ | None => false end); [discriminate H|].
    destruct (should_fire b WAdded); inversion H; subst. split; [discriminate|reflexivity].
  - destruct (match aget (w_id w) c with Some old => _ | None => false end); [discriminate H|].
    destruct (should_fire b WModified); inversion H; subst. split; [discriminate|reflexivity].
  - destruct (should_fire b WDeleted); inversion H; subst. split; [discriminate|reflexivity].
Qed.

(* ---- sorting keeps the elements ---- *)

Lemma In_insert_by A (lt : A -> A -> bool) x y l : In x (insert_by lt y l) -> x = y \/ In x l.
Proof.
  induction l as [|z l IH]; simpl.
  - intros [H|[]]; now left.
  - destruct (lt y z); simpl.
    + intros [H|H]; [now left|now right].
    + intros [H|H]; [right; now left|]. destruct (IH H) as [H1|H1]; [now left|right; now right].
Qed.

Lemma In_sort_by A (lt : A -> A -> bool) x l : In x (sort_by lt l) -> In x l.
Proof.
  induction l as [|y l IH]; simpl; [tauto|].
  intros H. apply In_insert_by in H as [H|H]; [now left|right; now apply IH].
Qed.

(* ---- rendering depends on the elements only through their ObjectAndFilterResult ---- *)

Definition norm_item (i : item) : item := Raw (ofr_of_item i).

Definition norm_ctx (c : ctx) : ctx :=
  mkCtx (c_btype c) (c_jq c) (c_incl c) (c_incl_all c) (c_group c) (c_binding c) (c_type c) (c_wev c)
        (map norm_item (c_objects c))
        (map (fun p => (fst p, map norm_item (snd p))) (c_snapshots c))
        (c_areview c) (c_creview c) (c_from c) (c_to c).

Lemma render_items_norm l : map render_item (map norm_item l) = map render_item l.
Proof. rewrite map_map. apply map_ext. reflexivity. Qed.

Lemma snapshots_json_norm l :
  snapshots_json (map (fun p => (fst p, map norm_item (snd p))) l) = snapshots_json l.
Proof.
  unfold snapshots_json. f_equal. generalize (@nil (bytes * json)).
  induction l as [|[n its] l IH]; intros acc; simpl; [reflexivity|].
  rewrite render_items_norm. apply IH.
Qed.

Lemma map_v1_norm c : map_v1 (norm_ctx c) = map_v1 c.
Proof.
  destruct c as [bt jq incl inclall grp bnd kt wev objs snaps arev crev from to].
  unfold map_v1, norm_ctx, includes; proj.
  rewrite snapshots_json_norm, render_items_norm.
  destruct objs as [|i r]; reflexivity.
Qed.

Lemma map_v0_norm c : map_v0 (norm_ctx c) = map_v0 c.
Proof.
  destruct c as [bt jq incl inclall grp bnd kt wev objs snaps arev crev from to].
  unfold map_v0, norm_ctx; proj.
  destruct objs as [|i r]; reflexivity.
Qed.

Lemma render_norm v c : render v (norm_ctx c) = render v c.
Proof. destruct v; simpl; now rewrite ?map_v1_norm, ?map_v0_norm. Qed.

Lemma render_list_norm1 v c : render_list v [norm_ctx c] = render_list v [c].
Proof. unfold render_list. simpl. now rewrite render_norm. Qed.

(* ---- a snapshot, element by element ---- *)

(* the objects of the cluster as the invariant sees them *)
Definition keyed (a : list (bytes * wobj)) : Prop := Forall (fun p => fst p = w_id (snd p)) a.

Lemma resolve_entries b a es :
  consistent a -> keyed a ->
  Forall (fun e => exists w, In (w_id w, w) a /\ e = entry_of b w) es ->
  exists ws, resolve a (map en_id es) = Some ws
             /\ Forall (fun w => In (w_id w, w) a) ws
             /\ map (fun e => Raw (en_ofr e)) es = map norm_item (map (spec_item b) ws).
Proof.
  intros Hc Hk. induction 1 as [|e es [w [Hin He]] _ [ws [Hr [Hws Hm]]]].
  - exists []. repeat split; constructor.
  - exists (w :: ws). subst e. simpl. rewrite entry_of_id, (Hc _ _ Hin), Hr.
    split; [reflexivity|]. split; [now constructor|].
    unfold norm_item at 1. rewrite spec_item_ofr. now rewrite Hm.
Qed.

Lemma snapshot_entries b a :
  keyed a ->
  Forall (fun e => exists w, In (w_id w, w) a /\ e = entry_of b w) (snapshot (img b a)).
Proof.
  intros Hk. apply Forall_forall. intros e He. unfold snapshot in He. apply In_sort_by in He.
  unfold img, vmap in He. rewrite map_map in He. simpl in He.
  apply in_map_iff in He as [[k w] [He Hin]]. simpl in He. exists w. split; [|now symmetry].
  unfold keyed in Hk. rewrite Forall_forall in Hk. specialize (Hk _ Hin). simpl in Hk. now subst k.
Qed.

Lemma snapshot_resolved b a name :
  consistent a -> keyed a ->
  exists ws, resolve a (snapshot_ids b (img b a) name) = Some ws
             /\ Forall (fun w => In (w_id w, w) a) ws
             /\ snapshot_items b (img b a) name = map norm_item (map (spec_item b) ws).
Proof.
  intros Hc Hk. unfold snapshot_ids, snapshot_items, snapshots_for.
  destruct (bytes_eqb name (b_name b)).
  - apply (resolve_entries b a _ Hc Hk (snapshot_entries b a Hk)).
  - exists []. repeat split; constructor.
Qed.

Lemma snapshots_resolved b a names :
  consistent a -> keyed a ->
  exists snaps,
    resolve_snaps a (map (fun n => (n, snapshot_ids b (img b a) n)) names) = Some snaps
    /\ map fst snaps = names
    /\ Forall (fun p => Forall (fun w => In (w_id w, w) a) (snd p)) snaps
    /\ map (fun n => (n, snapshot_items b (img b a) n)) names
       = map (fun p => (fst p, map norm_item (snd p)))
             (map (fun p => (fst p, map (spec_item b) (snd p))) snaps).
Proof.
  intros Hc Hk. induction names as [|n names [snaps [Hr [Hn [Hf Hm]]]]].
  - exists []. repeat split; constructor.
  - destruct (snapshot_resolved b a n Hc Hk) as [ws [Hw [Hwf Hi]]].
    exists ((n, ws) :: snaps). simpl. rewrite Hw, Hr, Hn, Hi, Hm.
    repeat split; try reflexivity. now constructor.
Qed.

(* ---- well-formedness of a flow ---- *)

(* an object whose jq answer is printed canonically *)
Definition wobj_wf (b : binding) (w : wobj) : bool := wf_item (Some (b_jq b)) (spec_item b w).

Definition flow_wf (f : flow) : bool :=
  let b := f_bind f in
  sorted_strict (map (fun n => (n, tt)) (b_incl b))            (* includeSnapshotsFrom sorted, no duplicates *)
  && forallb (wobj_wf b) (f_initial f)
  && forallb (fun op => wobj_wf b (snd op)) (f_ops f)
  && match f_version f with V0 => b_keep b | _ => true end.   (* a v0 config keeps full objects (F15) *)

Lemma wf_item_any jq i : wf_item (Some jq) i = true -> wf_item None i = true.
Proof.
  destruct i as [jqf keep obj|o]; [|discriminate]. unfold wf_item.
  intros H. apply andb_true_iff in H as [_ H]. exact H.
Qed.

Lemma sorted_strict_keys A B (m : list (bytes * A)) (m' : list (bytes * B)) :
  map fst m = map fst m' -> sorted_strict m = sorted_strict m'.
Proof.
  revert m'. induction m as [|[k v] m IH]; intros [|[k' v'] m'] H; try discriminate; [reflexivity|].
  simpl in H. inversion H as [[Hk Hm]]. subst k'. simpl. rewrite (IH m' Hm). f_equal.
  clear IH H. revert m' Hm. induction m as [|[k2 v2] m IH]; intros [|[k2' v2'] m'] Hm; try discriminate; [reflexivity|].
  simpl in Hm. inversion Hm as [[Hk Hm']]. subst k2'. simpl. now rewrite (IH m' Hm').
Qed.

Lemma canon_names_sorted l :
  sorted_strict (map (fun n => (n, tt)) l) = true -> canon_names l = l.
Proof.
  intros Hs. unfold canon_names.
  assert (E : forall acc, fold_left (fun acc n => obj_set n JNull acc) l acc
                          = fold_left (fun a (kv : bytes * unit) => obj_set (fst kv) JNull a)
                                      (map (fun n => (n, tt)) l) acc).
  { clear Hs. induction l as [|n l IH]; intros acc; simpl; [reflexivity|apply IH]. }
  rewrite E, (fold_obj_set_sorted _ (fun _ => JNull) _ [] Hs (Forall_nil _)). simpl.
  rewrite !map_map. simpl. apply map_id.
Qed.

(* ---- one file ---- *)

Definition all_ok (b : binding) (v : version) (a : list (bytes * wobj)) : Prop :=
  Forall (fun p => wobj_wf b (snd p) = true /\ (v = V1 -> wobj_trigger b (snd p) = false)) a.

Lemma items_wf b v ws jq :
  Forall (fun w => wobj_wf b w = true /\ (v = V1 -> wobj_trigger b w = false)) ws ->
  (jq = None \/ jq = Some (b_jq b)) ->
  forallb (wf_item jq) (map (spec_item b) ws) = true
  /\ (v = V1 -> existsb item_trigger (map (spec_item b) ws) = false).
Proof.
  intros H Hjq. induction H as [|w ws [Hw Ht] _ [IH1 IH2]]; cbn [map forallb existsb]; [split; reflexivity|].
  split.
  - rewrite IH1, andb_true_r. destruct Hjq as [->| ->]; [now apply wf_item_any with (jq := b_jq b)|exact Hw].
  - intros Hv. rewrite (IH2 Hv), orb_false_r. now apply Ht.
Qed.

Lemma in_all_ok b v a ws :
  all_ok b v a -> Forall (fun w => In (w_id w, w) a) ws ->
  Forall (fun w => wobj_wf b w = true /\ (v = V1 -> wobj_trigger b w = false)) ws.
Proof.
  intros Ha. unfold all_ok in Ha. rewrite Forall_forall in Ha.
  apply Forall_impl. intros w Hin. apply (Ha _ Hin).
Qed.

(* the contexts the documentation describes are well-formed, trigger-free and rendered *)
Lemma expected_ctx_ok f a kt wev objs snaps :
  let b := f_bind f in let v := f_version f in
  flow_wf f = true -> all_ok b v a ->
  Forall (fun w => In (w_id w, w) a) objs \/ Forall (fun w => wobj_wf b w = true /\ (v = V1 -> wobj_trigger b w = false)) objs ->
  Forall (fun p => Forall (fun w => In (w_id w, w) a) (snd p)) snaps ->
  map fst snaps = b_incl b ->
  (kt = KSync /\ wev = WNone \/ kt = KEvent /\ wev <> WNone /\ exists w, objs = [w]) ->
  let c := expected_ctx b kt wev objs snaps in
  wfv v c = true /\ P v [c] (render_list v [c]) = true.
Proof.
  intros b v Hwf Ha Hobjs Hsn Hnames Hkind c.
  unfold flow_wf in Hwf. fold b in Hwf. fold v in Hwf.
  apply andb_true_iff in Hwf as [Hwf Hv0]. apply andb_true_iff in Hwf as [Hwf _].
  apply andb_true_iff in Hwf as [Hincl _].
  assert (Hobjs' : Forall (fun w => wobj_wf b w = true /\ (v = V1 -> wobj_trigger b w = false)) objs).
  { destruct Hobjs as [H|H]; [now apply (in_all_ok b v a)|exact H]. }
  destruct (items_wf b v objs (Some (b_jq b)) Hobjs' (or_intror eq_refl)) as [Ho1 Ho2].
  assert (Hs : forallb (fun p => forallb (wf_item None) (snd p))
                       (map (fun p => (fst p, map (spec_item b) (snd p))) snaps) = true
               /\ (v = V1 -> existsb (fun p => existsb item_trigger (snd p))
                                      (map (fun p => (fst p, map (spec_item b) (snd p))) snaps) = false)).
  { clear Hnames. induction Hsn as [|[n ws] snaps Hp _ [IH1 IH2]]; simpl; [split; reflexivity|].
    simpl in Hp. destruct (items_wf b v ws None (in_all_ok b v a ws Ha Hp) (or_introl eq_refl)) as [H1 H2].
    split; [now rewrite H1, IH1|]. intros Hv. now rewrite (H2 Hv), (IH2 Hv). }
  destruct Hs as [Hs1 Hs2].
  assert (Hss : sorted_strict (map (fun p => (fst p, map (spec_item b) (snd p))) snaps) = true).
  { rewrite <- Hincl. apply sorted_strict_keys. rewrite !map_map. simpl. rewrite <- Hnames.
    rewrite map_map. reflexivity. }
  assert (Hw1 : wf1 c = true).
  { unfold wf1, wf_snapshots, c, expected_ctx, grouped; proj. rewrite Hss, Hs1. simpl.
    destruct (negb (is_nil (b_group b))); [reflexivity|].
    destruct Hkind as [[-> ->]|[-> [Hw [w ->]]]].
    - exact Ho1.
    - simpl in Ho1. rewrite andb_true_r in Ho1. destruct wev; [congruence| | |]; exact Ho1. }
  assert (Hw0 : v = V0 -> wf0 c = true).
  { intros Hv. rewrite Hv in Hv0. unfold wf0, c, expected_ctx; proj.
    destruct objs as [|w r]; [reflexivity|]. simpl. exact Hv0. }
  assert (Ht : T v [c] = false).
  { unfold T. destruct v; try reflexivity. simpl. rewrite orb_false_r.
    unfold ctx_trigger, c, expected_ctx; proj. now rewrite (Ho2 eq_refl), (Hs2 eq_refl). }
  split.
  - unfold wfv. destruct v; [now apply Hw0|exact Hw1|reflexivity].
  - assert (Hr : exists out, render_list v [c] = Some out).
    { destruct v eqn:Ev.
      - apply v0_total. simpl. now rewrite (Hw0 eq_refl).
      - apply v1_total.
      - unfold render_list. simpl. eexists; reflexivity. }
    destruct Hr as [out Hr]. rewrite Hr. now apply contract_partial.
Qed.

(* the file the model writes for a fired event / for the Synchronization *)
Lemma file_event_ok f pre t w r a :
  let b := f_bind f in let v := f_version f in
  flow_wf f = true ->
  f_ops f = pre ++ (t, w) :: r ->
  a = alive_at f (S (length pre)) ->
  consistent a -> keyed a -> all_ok b v a ->
  wobj_wf b w = true -> (v = V1 -> wobj_trigger b w = false) -> t <> WNone ->
  P_file f (file_of v b (img b a) (N.of_nat (S (length pre)))
                    (mkKev KEvent [t] [(w_id w, apply_filter (jqf_of b w) (b_keep b) (w_obj w))])) = true.
Proof.
  intros b v Hwf Hops Ha Hc Hk Hok Hww Hwt Ht.
  assert (Hincl : canon_names (b_incl b) = b_incl b).
  { apply canon_names_sorted. unfold flow_wf in Hwf. fold b in Hwf.
    apply andb_true_iff in Hwf as [Hwf _]. apply andb_true_iff in Hwf as [Hwf _].
    now apply andb_true_iff in Hwf as [Hwf _]. }
  destruct (snapshots_resolved b a (b_incl b) Hc Hk) as [snaps [Hr [Hn [Hf Hm]]]].
  assert (Hctx : map (update_snapshots b (img b a))
                     (convert_kube_event b (mkKev KEvent [t] [(w_id w, apply_filter (jqf_of b w) (b_keep b) (w_obj w))]))
                 = [norm_ctx (expected_ctx b KEvent t [w] snaps)]).
  { unfold convert_kube_event, update_snapshots, norm_ctx, expected_ctx, include_from; simpl.
    rewrite bytes_eqb_refl, Hm. reflexivity. }
  unfold P_file, file_of. cbn [fo_step fo_ids fo_snaps fo_out ke_type ke_objs ke_wevs]. fold b. fold v.
  rewrite Hctx, render_list_norm1.
  rewrite Nat2N.id. rewrite <- Ha.
  unfold include_from. rewrite bytes_eqb_refl, Hincl.
  rewrite map_map. simpl. rewrite map_id, list_eqb_refl by apply bytes_eqb_refl. simpl.
  rewrite Hr, Hops, nth_error_app2, Nat.sub_diag by lia. simpl.
  rewrite bytes_eqb_refl. simpl.
  destruct (expected_ctx_ok f a KEvent t [w] snaps Hwf Hok) as [H1 H2].
  - right. constructor; [split; assumption|constructor].
  - exact Hf.
  - exact Hn.
  - right. split; [reflexivity|]. split; [exact Ht|now exists w].
  - fold b in H1, H2. fold v in H1, H2. now rewrite H1, H2.
Qed.

Lemma file_sync_ok f a :
  let b := f_bind f in let v := f_version f in
  flow_wf f = true ->
  a = alive_at f 0 ->
  consistent a -> keyed a -> all_ok b v a ->
  P_file f (file_of v b (img b a) 0 (mkKev KSync [] [])) = true.
Proof.
  intros b v Hwf Ha Hc Hk Hok.
  assert (Hincl : canon_names (b_incl b) = b_incl b).
  { apply canon_names_sorted. unfold flow_wf in Hwf. fold b in Hwf.
    apply andb_true_iff in Hwf as [Hwf _]. apply andb_true_iff in Hwf as [Hwf _].
    now apply andb_true_iff in Hwf as [Hwf _]. }
  destruct (snapshots_resolved b a (b_incl b) Hc Hk) as [snaps [Hr [Hn [Hf Hm]]]].
  destruct (snapshot_resolved b a (b_name b) Hc Hk) as [ws [Hw [Hwf' Hi]]].
  assert (Hctx : map (update_snapshots b (img b a)) (convert_kube_event b (mkKev KSync [] []))
                 = [norm_ctx (expected_ctx b KSync WNone ws snaps)]).
  { unfold convert_kube_event, update_snapshots, norm_ctx, expected_ctx, include_from; simpl.
    rewrite bytes_eqb_refl, Hm, Hi. reflexivity. }
  unfold P_file, file_of. cbn [fo_step fo_ids fo_snaps fo_out ke_type ke_objs ke_wevs]. fold b. fold v.
  rewrite Hctx, render_list_norm1.
  change (N.to_nat 0) with O. rewrite <- Ha.
  unfold include_from. rewrite bytes_eqb_refl, Hincl.
  rewrite map_map. simpl. rewrite map_id, list_eqb_refl by apply bytes_eqb_refl. simpl.
  rewrite Hr, Hw.
  destruct (expected_ctx_ok f a KSync WNone ws snaps Hwf Hok) as [H1 H2].
  - left. exact Hwf'.
  - exact Hf.
  - exact Hn.
  - left. split; reflexivity.
  - fold b in H1, H2. fold v in H1, H2. now rewrite H1, H2.
Qed.

(* ---- the invariant along a history ---- *)

Definition inv (b : binding) (v : version) (a : list (bytes * wobj)) : Prop :=
  consistent a /\ keyed a /\ all_ok b v a.

Definition wobj_good (b : binding) (v : version) (w : wobj) : Prop :=
  wobj_wf b w = true /\ (v = V1 -> wobj_trigger b w = false).

Lemma inv_aset b v a w : inv b v a -> wobj_good b v w -> inv b v (aset (w_id w) w a).
Proof.
  intros [Hc [Hk Ho]] Hw. split; [now apply consistent_aset|].
  split; [apply Forall_aset; [reflexivity|exact Hk] | apply Forall_aset; [exact Hw|exact Ho]].
Qed.

Lemma inv_adel b v a k : inv b v a -> inv b v (adel k a).
Proof.
  intros [Hc [Hk Ho]]. split; [now apply consistent_adel|].
  split; now apply Forall_adel.
Qed.

Lemma inv_step b v a t w : inv b v a -> wobj_good b v w -> inv b v (alive_step a (t, w)).
Proof.
  intros Hi Hw. unfold alive_step. simpl.
  destruct t; [exact Hi | now apply inv_aset | now apply inv_aset | now apply inv_adel].
Qed.

Lemma inv_init b v ws : Forall (wobj_good b v) ws -> inv b v (alive_init ws).
Proof.
  unfold alive_init. intros H.
  assert (G : forall a, inv b v a -> inv b v (fold_left (fun a w => aset (w_id w) w a) ws a)).
  { induction H as [|w ws Hw _ IH]; intros a Ha; simpl; [exact Ha|]. apply IH. now apply inv_aset. }
  apply G. split; [apply consistent_nil|]. split; constructor.
Qed.

Lemma flow_objs_good f :
  flow_wf f = true -> T_flow f = false ->
  Forall (wobj_good (f_bind f) (f_version f)) (f_initial f)
  /\ Forall (fun op => wobj_good (f_bind f) (f_version f) (snd op)) (f_ops f).
Proof.
  unfold flow_wf, T_flow. intros Hwf Ht.
  apply andb_true_iff in Hwf as [Hwf _]. apply andb_true_iff in Hwf as [Hwf Hops].
  apply andb_true_iff in Hwf as [_ Hini].
  rewrite forallb_forall in Hini, Hops.
  split; apply Forall_forall; intros x Hx; (split; [auto|]); intros Hv; rewrite Hv in Ht;
    apply orb_false_iff in Ht as [T1 T2].
  - destruct (wobj_trigger (f_bind f) x) eqn:E; [|reflexivity].
    assert (existsb (wobj_trigger (f_bind f)) (f_initial f) = true) by (apply existsb_exists; eauto). congruence.
  - destruct (wobj_trigger (f_bind f) (snd x)) eqn:E; [|reflexivity].
    assert (existsb (fun op => wobj_trigger (f_bind f) (snd op)) (f_ops f) = true) by (apply existsb_exists; eauto).
    congruence.
Qed.

Lemma alive_at_prefix f pre r :
  f_ops f = pre ++ r ->
  alive_at f (length pre) = fold_left alive_step pre (alive_init (f_initial f)).
Proof.
  intros H. unfold alive_at. rewrite H, firstn_app, Nat.sub_diag, firstn_all. simpl. now rewrite app_nil_r.
Qed.

Lemma alive_at_snoc f pre x r :
  f_ops f = pre ++ x :: r ->
  alive_at f (S (length pre)) = alive_step (alive_at f (length pre)) x.
Proof.
  intros H. rewrite (alive_at_prefix f pre (x :: r) H).
  assert (H' : f_ops f = (pre ++ [x]) ++ r) by (now rewrite <- app_assoc).
  replace (S (length pre)) with (length (pre ++ [x])) by (rewrite app_length; simpl; lia).
  rewrite (alive_at_prefix f (pre ++ [x]) r H'). now rewrite fold_left_app.
Qed.

Lemma run_ops_ok f :
  let b := f_bind f in let v := f_version f in
  flow_wf f = true -> T_flow f = false ->
  forall r pre a,
    f_ops f = pre ++ r -> a = alive_at f (length pre) -> inv b v a ->
    forallb (P_file f) (run_ops v b (img b a) (N.of_nat (S (length pre))) r) = true.
Proof.
  intros b v Hwf Ht.
  destruct (flow_objs_good f Hwf Ht) as [_ Hgood]. fold b in Hgood. fold v in Hgood.
  induction r as [|[t w] r IH]; intros pre a Hops Ha Hinv; [reflexivity|].
  assert (Hw : wobj_good b v w).
  { rewrite Forall_forall in Hgood. apply (Hgood (t, w)). rewrite Hops. apply in_or_app. right. now left. }
  cbn [run_ops].
  destruct (handle b (img b a) t w) as [c' ev] eqn:Hh.
  pose proof (handle_cache b a t w) as Hc'. rewrite Hh in Hc'. simpl in Hc'. subst c'.
  set (a' := alive_step a (t, w)) in *.
  assert (Ha' : a' = alive_at f (S (length pre))).
  { unfold a'. rewrite Ha. symmetry. now apply (alive_at_snoc f pre (t, w) r). }
  assert (Hinv' : inv b v a') by (now apply inv_step).
  rewrite forallb_app. apply andb_true_iff. split.
  - destruct ev as [ev|]; [|reflexivity].
    destruct (handle_event b _ t w _ ev Hh) as [Htn ->].
    cbn [forallb]. rewrite andb_true_r.
    destruct Hinv' as [Hc [Hk Ho]]. destruct Hw as [Hw1 Hw2].
    now apply (file_event_ok f pre t w r a').
  - rewrite <- Nat2N.inj_succ.
    replace (S (length pre)) with (length (pre ++ [(t, w)])) by (rewrite app_length; simpl; lia).
    apply IH.
    + now rewrite <- app_assoc.
    + rewrite Ha'. f_equal. rewrite app_length; simpl; lia.
    + exact Hinv'.
Qed.

(* every file the model produces for a well-formed flow conforms, outside the trigger of F8 *)
Lemma flow_contract_partial f :
  flow_wf f = true -> T_flow f = false -> P_flow f (Some (run_flow f)) = true.
Proof.
  intros Hwf Ht. unfold P_flow, run_flow.
  destruct (flow_objs_good f Hwf Ht) as [Hini _].
  pose proof (inv_init _ _ _ Hini) as Hinv.
  assert (Hc0 : load_existing (f_bind f) (f_initial f) [] = img (f_bind f) (alive_init (f_initial f))).
  { apply (load_existing_img (f_bind f) (f_initial f) []). }
  rewrite Hc0. rewrite forallb_app. apply andb_true_iff. split.
  - destruct (b_sync (f_bind f)); [|reflexivity]. cbn [forallb]. rewrite andb_true_r.
    destruct Hinv as [Hc [Hk Ho]]. now apply file_sync_ok.
  - apply (run_ops_ok f Hwf Ht (f_ops f) [] (alive_init (f_initial f))); [reflexivity|reflexivity|exact Hinv].
Qed.

(* the cache after any history holds, for every object of the cluster, its filter result
   with the full object exactly when the binding keeps full objects *)
Lemma cache_after b ws ops :
  fold_left (fun c op => fst (handle b c (fst op) (snd op))) ops (load_existing b ws [])
  = img b (fold_left alive_step ops (alive_init ws)).
Proof.
  change (load_existing b ws []) with (load_existing b ws (img b [])).
  rewrite (load_existing_img b ws []). fold (alive_init ws). generalize (alive_init ws).
  induction ops as [|[t w] ops IH]; intros a; simpl; [reflexivity|].
  rewrite handle_cache. apply IH.
Qed.

Lemma cache_entry_ofr b a id e :
  In (id, e) (img b a) ->
  exists w, In (id, w) a /\ en_ofr e = apply_filter (jqf_of b w) (b_keep b) (w_obj w).
Proof.
  unfold img, vmap. intros H. apply in_map_iff in H as [[k w] [He Hin]]. simpl in He.
  inversion He; subst. exists w. split; [exact Hin|apply entry_of_ofr].
Qed.

(* ---- the witnesses ---- *)

Module Wit.
Import String.
Local Open Scope string_scope.

Definition pod : json :=
  JObj [(k_kind, JStr (bs "Pod"));
        (k_metadata, JObj [(k_name, JStr (bs "p")); (k_namespace, JStr (bs "default"))]);
        (bs "spec", JObj [(bs "replicas", JNum 3%Z)])].

(* F8 seen through C09: jqFilter .spec.replicas, the jq result 3 is rendered as {} *)
Definition witness_F8 : ctx :=
  mkCtx BKube true [] false [] (bs "monitor-pods") KEvent WAdded [Stored (Some [JNum 3%Z]) true pod] []
        None None [] [].

Lemma refuted :
  wf1 witness_F8 = true /\ T V1 [witness_F8] = true
  /\ P V1 [witness_F8] (render_list V1 [witness_F8]) = false.
Proof. vm_compute. repeat split. Qed.

(* MapV0 dereferences the full object: a kubernetes context whose first object has none panics.
   Unreachable for v0 hooks since the repair of F15 (config v0 keeps full objects). *)
Definition witness_v0_nil : ctx :=
  mkCtx BKube false [] false [] (bs "onKubernetesEvent") KEvent WAdded [Stored None false pod] []
        None None [] [].

Lemma v0_nil_object_crashes : render_list V0 [witness_v0_nil] = None /\ wf0 witness_v0_nil = false.
Proof. vm_compute. split; reflexivity. Qed.

(* non-vacuity of the hypotheses: a documented Event context with an object-valued filter *)
Definition example_event : ctx :=
  mkCtx BKube true [bs "cm"] false [] (bs "monitor-pods") KEvent WModified
        [Stored (Some [JObj [(bs "replicas", JNum 3%Z)]]) true pod]
        [(bs "cm", [Stored None false pod])] None None [] [].

Lemma example_event_ok :
  wf1 example_event = true /\ T V1 [example_event] = false /\ is_event example_event = true
  /\ render_list V1 [example_event]
     = Some (JArr [JObj [(k_binding, JStr (bs "monitor-pods"));
                         (k_filterResult, JObj [(bs "replicas", JNum 3%Z)]);
                         (k_object, pod);
                         (k_snapshots, JObj [(bs "cm", JArr [JObj []])]);
                         (k_type, JStr s_Event);
                         (k_watchEvent, JStr s_Modified)]]).
Proof. vm_compute. repeat split. Qed.

Definition example_v0 : ctx :=
  mkCtx BKube false [] false [] (bs "onKubernetesEvent") KEvent WAdded [Stored None true pod] []
        None None [] [].

Lemma example_v0_ok :
  wf0 example_v0 = true
  /\ render_list V0 [example_v0]
     = Some (JArr [JObj [(k_binding, JStr (bs "onKubernetesEvent"));
                         (k_resourceEvent, JStr s_add);
                         (k_resourceKind, JStr (bs "Pod"));
                         (k_resourceName, JStr (bs "p"));
                         (k_resourceNamespace, JStr (bs "default"))]]).
Proof. vm_compute. split; reflexivity. Qed.
(* ---- flows ---- *)

Definition cm (name : string) (v : Z) : json :=
  JObj [(bs "apiVersion", JStr (bs "v1"));
        (bs "data", JObj [(bs "v", JNum v)]);
        (k_kind, JStr (bs "ConfigMap"));
        (k_metadata, JObj [(k_name, JStr (bs name)); (k_namespace, JStr (bs "d"))])].

(* jqFilter {data: .data} *)
Definition wcm (name : string) (v : Z) : wobj :=
  mkWobj (bs "d") (bs name) (bs ("d/ConfigMap/" ++ name)) (cm name v)
         [JObj [(bs "data", JObj [(bs "v", JNum v)])]].

(* keepFullObjectsInMemory: false, all three event types, includeSnapshotsFrom itself *)
Definition bind_nokeep : binding :=
  mkBinding (bs "cms") true false [WAdded; WModified; WDeleted] [bs "cms"] [] true.

Definition example_flow : flow :=
  mkFlow V1 bind_nokeep [wcm "a" 1]
         [(WModified, wcm "a" 2); (WAdded, wcm "b" 1); (WDeleted, wcm "a" 2)].

Definition fr (v : Z) : json := JObj [(bs "data", JObj [(bs "v", JNum v)])].
Definition only_fr (v : Z) : json := JObj [(k_filterResult, fr v)].

Lemma example_flow_ok :
  flow_wf example_flow = true /\ T_flow example_flow = false
  /\ map fo_out (run_flow example_flow)
     = [Some (JArr [JObj [(k_binding, JStr (bs "cms")); (k_objects, JArr [only_fr 1]);
                          (k_snapshots, JObj [(bs "cms", JArr [only_fr 1])]); (k_type, JStr s_Synchronization)]]);
        Some (JArr [JObj [(k_binding, JStr (bs "cms")); (k_filterResult, fr 2);
                          (k_snapshots, JObj [(bs "cms", JArr [only_fr 2])]); (k_type, JStr s_Event);
                          (k_watchEvent, JStr s_Modified)]]);
        Some (JArr [JObj [(k_binding, JStr (bs "cms")); (k_filterResult, fr 1);
                          (k_snapshots, JObj [(bs "cms", JArr [only_fr 2; only_fr 1])]); (k_type, JStr s_Event);
                          (k_watchEvent, JStr s_Added)]]);
        Some (JArr [JObj [(k_binding, JStr (bs "cms")); (k_filterResult, fr 2);
                          (k_snapshots, JObj [(bs "cms", JArr [only_fr 1])]); (k_type, JStr s_Event);
                          (k_watchEvent, JStr s_Deleted)]])].
Proof. vm_compute. repeat split. Qed.

(* the predicate is not satisfied by everything: the same Deleted file with the full object
   of the deleted resource in it does not conform when the binding does not keep full objects *)
Definition leaking_file : fobs :=
  mkFobs 3 [bs "d/ConfigMap/a"] [(bs "cms", [bs "d/ConfigMap/b"])]
         (Some (JArr [JObj [(k_binding, JStr (bs "cms")); (k_filterResult, fr 2); (k_object, cm "a" 2);
                            (k_snapshots, JObj [(bs "cms", JArr [only_fr 1])]); (k_type, JStr s_Event);
                            (k_watchEvent, JStr s_Deleted)]])).

Lemma leaking_file_rejected :
  P_file example_flow leaking_file = false
  /\ P_file example_flow (mkFobs 3 (fo_ids leaking_file) (fo_snaps leaking_file)
                                 (fo_out (nth 3 (run_flow example_flow) leaking_file))) = true.
Proof. vm_compute. split; reflexivity. Qed.

(* F8 on a flow: jqFilter .data.v, the number is rendered as {} *)
Definition witness_flow_F8 : flow :=
  mkFlow V1 (mkBinding (bs "cms") true true [WAdded; WModified; WDeleted] [] [] true) []
         [(WAdded, mkWobj (bs "d") (bs "a") (bs "d/ConfigMap/a") (cm "a" 3) [JNum 3%Z])].

Lemma flow_refuted :
  flow_wf witness_flow_F8 = true /\ T_flow witness_flow_F8 = true
  /\ P_flow witness_flow_F8 (Some (run_flow witness_flow_F8)) = false.
Proof. vm_compute. repeat split. Qed.
End Wit.

(* ====================================================================================
   Hooks with several bindings: combined arrays (hook cases)
   ==================================================================================== *)


(* ---- the bytewise order is a strict total order ---- *)

Lemma bytes_ltb_cons x a y b :
  bytes_ltb (x :: a) (y :: b) = true <-> (x < y)%N \/ (x = y /\ bytes_ltb a b = true).
Proof.
  cbn [bytes_ltb]. destruct (N.ltb_spec x y) as [Hlt|Hge].
  - split; [intros _; left; exact Hlt | reflexivity].
  - destruct (N.eqb_spec x y) as [E|NE].
    + split; [intros H; right; split; assumption | intros [H|[_ H]]; [lia | exact H]].
    + split; [discriminate | intros [H|[H _]]; [lia | contradiction]].
Qed.

Lemma bytes_ltb_trans a : forall b c,
  bytes_ltb a b = true -> bytes_ltb b c = true -> bytes_ltb a c = true.
Proof.
  induction a as [|x a IH]; intros [|y b] [|z c] Hab Hbc; try discriminate; try reflexivity.
  apply bytes_ltb_cons in Hab. apply bytes_ltb_cons in Hbc. apply bytes_ltb_cons.
  destruct Hab as [Hab|[Exy Hab]], Hbc as [Hbc|[Eyz Hbc]].
  - left; lia.
  - left; lia.
  - left; lia.
  - right; split; [congruence | eapply IH; eassumption].
Qed.

Lemma bytes_ltb_total a : forall b, a = b \/ bytes_ltb a b = true \/ bytes_ltb b a = true.
Proof.
  induction a as [|x a IH]; intros [|y b].
  - left; reflexivity.
  - right; left; reflexivity.
  - right; right; reflexivity.
  - destruct (N.lt_trichotomy x y) as [H|[H|H]].
    + right; left; apply bytes_ltb_cons; left; exact H.
    + subst y. destruct (IH b) as [E|[L|G]].
      * left; congruence.
      * right; left; apply bytes_ltb_cons; right; split; [reflexivity | exact L].
      * right; right; apply bytes_ltb_cons; right; split; [reflexivity | exact G].
    + right; right; apply bytes_ltb_cons; left; exact H.
Qed.

(* ---- obj_set keeps a sorted object sorted; its shape depends on the keys only ---- *)

Lemma In_obj_set k v m p : In p (obj_set k v m) -> p = (k, v) \/ In p m.
Proof.
  induction m as [|[k' v'] m IH]; simpl.
  - intros [H|[]]. now left.
  - destruct (bytes_eqb k k').
    + intros [H|H]; [now left|right; now right].
    + destruct (bytes_ltb k k').
      * intros [H|H]; [now left|now right].
      * intros [H|H]; [right; now left|]. destruct (IH H) as [H1|H1]; [now left|right; now right].
Qed.

Lemma obj_set_sorted k v m : sorted_strict m = true -> sorted_strict (obj_set k v m) = true.
Proof.
  induction m as [|[k' v'] m IH]; intros Hs; [reflexivity|].
  simpl in Hs. apply andb_true_iff in Hs as [Hk Hm]. simpl.
  destruct (bytes_eqb k k') eqn:E.
  - apply bytes_eqb_eq in E; subst k'. simpl. now rewrite Hk, Hm.
  - destruct (bytes_ltb k k') eqn:L.
    + simpl. rewrite L, Hk, Hm. simpl. rewrite andb_true_r.
      rewrite forallb_forall in Hk. apply forallb_forall. intros p Hp.
      apply (bytes_ltb_trans _ _ _ L). now apply Hk.
    + simpl. rewrite (IH Hm), andb_true_r.
      assert (G : bytes_ltb k' k = true).
      { destruct (bytes_ltb_total k k') as [H|[H|H]]; [|congruence|exact H].
        subst k'. now rewrite bytes_eqb_refl in E. }
      rewrite forallb_forall in Hk. apply forallb_forall. intros p Hp.
      apply In_obj_set in Hp as [->|Hp]; [exact G|now apply Hk].
Qed.

Definition relabel (g : bytes -> json) (m : list (bytes * json)) : list (bytes * json) :=
  map (fun kv => (fst kv, g (fst kv))) m.

Lemma relabel_obj_set g k v m : relabel g (obj_set k v m) = obj_set k (g k) (relabel g m).
Proof.
  induction m as [|[k' v'] m IH]; simpl; [reflexivity|].
  destruct (bytes_eqb k k'); [reflexivity|].
  destruct (bytes_ltb k k'); [reflexivity|]. simpl. now rewrite IH.
Qed.

Lemma fold_obj_set_relabel g l : forall acc,
  fold_left (fun a n => obj_set n (g n) a) l (relabel g acc)
  = relabel g (fold_left (fun a n => obj_set n JNull a) l acc).
Proof.
  induction l as [|n l IH]; intros acc; simpl; [reflexivity|].
  rewrite <- IH. now rewrite relabel_obj_set.
Qed.

Lemma canon_fold_sorted l : forall acc,
  sorted_strict acc = true -> sorted_strict (fold_left (fun a n => obj_set n JNull a) l acc) = true.
Proof.
  induction l as [|n l IH]; intros acc H; simpl; [exact H|]. apply IH. now apply obj_set_sorted.
Qed.

Lemma canon_names_sorted_any A (f : bytes -> A) l :
  sorted_strict (map (fun n => (n, f n)) (canon_names l)) = true.
Proof.
  unfold canon_names.
  rewrite (sorted_strict_keys _ _ (map (fun n => (n, f n)) (map fst (fold_left (fun a n => obj_set n JNull a) l [])))
                              (fold_left (fun a n => obj_set n JNull a) l [])).
  - now apply canon_fold_sorted.
  - rewrite !map_map. simpl. reflexivity.
Qed.

(* the rendered `snapshots` object depends on the included names only as a set *)
Lemma snapshots_json_canon (f : bytes -> list item) l :
  snapshots_json (map (fun n => (n, f n)) l) = snapshots_json (map (fun n => (n, f n)) (canon_names l)).
Proof.
  rewrite (snapshots_json_sorted _ (canon_names_sorted_any _ f l)).
  unfold snapshots_json. f_equal.
  set (G := fun n => JArr (map render_item (f n))).
  assert (E : forall acc, fold_left (fun acc p => obj_set (fst p) (JArr (map render_item (snd p))) acc)
                                    (map (fun n => (n, f n)) l) acc
                          = fold_left (fun a n => obj_set n (G n) a) l acc).
  { induction l as [|n l IH]; intros acc; simpl; [reflexivity|apply IH]. }
  rewrite E. change (@nil (bytes * json)) with (relabel G []) at 1.
  rewrite fold_obj_set_relabel. unfold relabel, canon_names. rewrite !map_map. reflexivity.
Qed.


(* ---- UpdateSnapshots: the per-call cache is not observable ---- *)

Definition update_pure (inc : btype -> bytes -> list bytes) (sf : bytes -> option (list entry)) (x : ctx) : ctx :=
  set_fresh x (if is_sync x then entries_items (sf (c_binding x)) else c_objects x)
            (map (fun n => (n, entries_items (sf n))) (inc (c_btype x) (c_binding x))).

Definition sc_ok (sf : bytes -> option (list entry)) (sc : scache) : Prop :=
  forall n v, aget n sc = Some v -> v = sf n.

Lemma cached_for_ok sf sc n :
  sc_ok sf sc -> snd (cached_for sf sc n) = sf n /\ sc_ok sf (fst (cached_for sf sc n)).
Proof.
  intros Hok. unfold cached_for. destruct (aget n sc) as [v|] eqn:E; simpl.
  - split; [now apply Hok|exact Hok].
  - split; [reflexivity|]. intros n' v' H.
    destruct (bytes_eqb n' n) eqn:En.
    + apply bytes_eqb_eq in En; subst n'. rewrite aget_aset_same in H. now inversion H.
    + rewrite aget_aset_other in H by exact En. now apply Hok.
Qed.

Lemma fill_snapshots_ok sf names : forall sc,
  sc_ok sf sc ->
  snd (fill_snapshots sf sc names) = map (fun n => (n, entries_items (sf n))) names
  /\ sc_ok sf (fst (fill_snapshots sf sc names)).
Proof.
  induction names as [|n r IH]; intros sc Hok; simpl; [split; [reflexivity|exact Hok]|].
  destruct (cached_for_ok sf sc n Hok) as [Hv Hsc].
  destruct (cached_for sf sc n) as [sc1 v]. simpl in Hv, Hsc. subst v.
  destruct (IH sc1 Hsc) as [Hs Hsc2].
  destruct (fill_snapshots sf sc1 r) as [sc2 rest]. simpl in *. subst rest. now split.
Qed.

Lemma update_ctx_ok inc sf sc x :
  sc_ok sf sc ->
  snd (update_ctx inc sf sc x) = update_pure inc sf x /\ sc_ok sf (fst (update_ctx inc sf sc x)).
Proof.
  intros Hok. unfold update_ctx, update_pure.
  destruct (fill_snapshots_ok sf (inc (c_btype x) (c_binding x)) sc Hok) as [Hs Hsc].
  destruct (fill_snapshots sf sc (inc (c_btype x) (c_binding x))) as [sc1 snaps]. simpl in Hs, Hsc. subst snaps.
  destruct (is_sync x).
  - destruct (cached_for_ok sf sc1 (c_binding x) Hsc) as [Hv Hsc2].
    destruct (cached_for sf sc1 (c_binding x)) as [sc2 v]. simpl in *. subst v. now split.
  - simpl. now split.
Qed.

Lemma update_all_pure inc sf xs : forall sc,
  sc_ok sf sc -> update_all inc sf sc xs = map (update_pure inc sf) xs.
Proof.
  induction xs as [|x r IH]; intros sc Hok; simpl; [reflexivity|].
  destruct (update_ctx_ok inc sf sc x Hok) as [Hx Hsc].
  destruct (update_ctx inc sf sc x) as [sc' x']. simpl in *. subst x'. now rewrite (IH sc' Hsc).
Qed.

Lemma sc_ok_nil sf : sc_ok sf [].
Proof. intros n v H. discriminate H. Qed.

(* ---- small list facts ---- *)

Lemma forall2b_map A B C (f : B -> C -> bool) (g : A -> B) (h : A -> C) l :
  forall2b f (map g l) (map h l) = forallb (fun x => f (g x) (h x)) l.
Proof. induction l as [|x l IH]; simpl; [reflexivity|now rewrite IH]. Qed.

Lemma find_in_some A (f : A -> bool) l x : In x l -> f x = true -> exists y, find f l = Some y.
Proof.
  induction l as [|z l IH]; intros Hin Hf; [destruct Hin|]. simpl.
  destruct (f z) eqn:E; [now exists z|].
  destruct Hin as [->|Hin]; [congruence|now apply IH].
Qed.

Lemma render_list_v1 cs : render_list V1 cs = Some (JArr (map (fun c => JObj (map_v1 c)) cs)).
Proof.
  unfold render_list.
  assert (E : render_all V1 cs = Some (map (fun c => JObj (map_v1 c)) cs)).
  { induction cs as [|c cs IH]; simpl; [reflexivity|now rewrite IH]. }
  now rewrite E.
Qed.

(* rendering sees the snapshots only through the rendered `snapshots` object, and the
   objects only through their ObjectAndFilterResult *)
Lemma map_v1_ext bt jq incl ia grp bnd kt wev objs s1 s2 ar cr fr to :
  snapshots_json s1 = snapshots_json s2 ->
  map_v1 (mkCtx bt jq incl ia grp bnd kt wev (map norm_item objs) s1 ar cr fr to)
  = map_v1 (mkCtx bt jq incl ia grp bnd kt wev objs s2 ar cr fr to).
Proof.
  intros H. unfold map_v1, includes.
  cbn [c_btype c_jq c_incl c_incl_all c_group c_binding c_type c_wev c_objects c_snapshots c_areview c_creview c_from c_to].
  rewrite H, render_items_norm. destruct objs as [|i r]; reflexivity.
Qed.

Lemma canon_names_nil_inv l : canon_names l = [] -> l = [].
Proof.
  destruct l as [|n l]; [reflexivity|]. unfold canon_names. simpl. intros H.
  assert (G : forall l acc, acc <> [] -> fold_left (fun a n => obj_set n JNull a) l acc <> []).
  { clear. induction l as [|n l IH]; intros acc Ha; simpl; [exact Ha|]. apply IH.
    destruct acc as [|[k v] acc]; simpl; [discriminate|].
    destruct (bytes_eqb n k); [discriminate|]. destruct (bytes_ltb n k); discriminate. }
  exfalso. apply (G l [(n, JNull)]); [discriminate|].
  destruct (fold_left (fun a n => obj_set n JNull a) l [(n, JNull)]); [reflexivity|discriminate H].
Qed.


Local Arguments json_eqb : simpl never.
Local Arguments snapshots_json : simpl never.
Local Arguments render_item : simpl never.
Local Arguments render_list : simpl never.
Local Arguments canon_names : simpl never.

(* ---- well-formedness of a hook case ---- *)

Definition obind_kind_ok (o : obind) : bool :=
  match ob_type o with BSchedule | BValidating | BMutating | BConversion => true | _ => false end.

Definition hook_wf (hc : hcase) : bool :=
  (* the other bindings are schedule / validating / mutating / conversion bindings *)
  forallb obind_kind_ok (hk_other hc)
  (* config.CheckIncludeSnapshots: an included name is the name of a kubernetes binding *)
  && forallb (fun o => forallb (fun n => is_some (kube_named n (hk_kube hc))) (ob_incl o)) (hk_other hc)
  (* jq answers are printed canonically *)
  && forallb (fun p => forallb (wobj_wf (fst p)) (snd p)) (hk_kube hc)
  && forallb (fun ev => match ev with
                        | HWatch n _ w => match kube_named n (hk_kube hc) with
                                          | Some (b, _) => wobj_wf b w
                                          | None => true
                                          end
                        | _ => true
                        end) (hk_evs hc).

Lemma kube_named_in A n (l : list (binding * A)) b x :
  kube_named n l = Some (b, x) -> In (b, x) l /\ b_name b = n.
Proof.
  unfold kube_named. intros H. apply find_some in H as [H1 H2]. simpl in H2.
  apply bytes_eqb_eq in H2. now split.
Qed.

Lemma hook_objs_good hc n b ws :
  hook_wf hc = true -> T_hook hc = false -> kube_named n (hk_kube hc) = Some (b, ws) ->
  Forall (wobj_good b V1) ws
  /\ Forall (fun op => wobj_good b V1 (snd op)) (watch_ops n (hk_evs hc)).
Proof.
  unfold hook_wf, T_hook. intros Hwf Ht Hn.
  apply andb_true_iff in Hwf as [Hwf Hevs]. apply andb_true_iff in Hwf as [_ Hini].
  apply orb_false_iff in Ht as [Tini Tevs].
  destruct (kube_named_in _ _ _ _ _ Hn) as [Hin _].
  rewrite forallb_forall in Hini, Hevs.
  split; apply Forall_forall.
  - intros w Hw. split.
    + specialize (Hini _ Hin). simpl in Hini. rewrite forallb_forall in Hini. now apply Hini.
    + intros _. destruct (wobj_trigger b w) eqn:E; [|reflexivity].
      assert (X : existsb (fun p => existsb (wobj_trigger (fst p)) (snd p)) (hk_kube hc) = true).
      { apply existsb_exists. exists (b, ws). split; [exact Hin|]. simpl. apply existsb_exists. eauto. }
      congruence.
  - intros [t w] Hop. unfold watch_ops in Hop. apply in_flat_map in Hop as [ev [Hev Hop]].
    destruct ev as [n0|n0 t0 w0|k r|cr r f t']; try (destruct Hop).
    destruct (bytes_eqb n0 n) eqn:En; [|destruct Hop].
    apply bytes_eqb_eq in En; subst n0. destruct Hop as [Hop|[]]. inversion Hop; subst t0 w0. simpl.
    split.
    + specialize (Hevs _ Hev). simpl in Hevs. now rewrite Hn in Hevs.
    + intros _. destruct (wobj_trigger b w) eqn:E; [|reflexivity].
      assert (X : existsb (fun ev => match ev with
                        | HWatch n _ w => match kube_named n (hk_kube hc) with
                                          | Some (b, _) => wobj_trigger b w
                                          | None => false
                                          end
                        | _ => false
                        end) (hk_evs hc) = true).
      { apply existsb_exists. exists (HWatch n t w). split; [exact Hev|]. now rewrite Hn. }
      congruence.
Qed.

Lemma inv_fold b v ops : forall a,
  inv b v a -> Forall (fun op => wobj_good b v (snd op)) ops -> inv b v (fold_left alive_step ops a).
Proof.
  induction ops as [|[t w] ops IH]; intros a Ha Hops; simpl; [exact Ha|].
  inversion Hops as [|? ? Hw Hr]; subst. apply IH; [|exact Hr]. now apply inv_step.
Qed.

(* the snapshot of a kubernetes binding when the hook runs, element by element *)
Lemma hook_snapshot_resolved hc n b ws0 :
  hook_wf hc = true -> T_hook hc = false -> kube_named n (hk_kube hc) = Some (b, ws0) ->
  let v := hk_snapshots_for hc (hk_evs hc) n in
  exists objs, resolve (hk_alive hc n) (entries_ids v) = Some objs
               /\ entries_items v = map norm_item (map (spec_item b) objs)
               /\ Forall (wobj_good b V1) objs.
Proof.
  intros Hwf Ht Hn. destruct (hook_objs_good hc n b ws0 Hwf Ht Hn) as [Hini Hops].
  unfold hk_snapshots_for, hk_alive. rewrite Hn. unfold run_cache. rewrite cache_after.
  set (a := fold_left alive_step (watch_ops n (hk_evs hc)) (alive_init ws0)).
  assert (Hinv : inv b V1 a) by (apply inv_fold; [now apply inv_init|exact Hops]).
  destruct Hinv as [Hc [Hk Ho]].
  destruct (resolve_entries b a _ Hc Hk (snapshot_entries b a Hk)) as [objs [Hr [Hin Hm]]].
  exists objs. simpl. split; [exact Hr|]. split; [exact Hm|].
  apply (in_all_ok b V1 a objs Ho Hin).
Qed.

Lemma hook_snaps_resolved hc names :
  hook_wf hc = true -> T_hook hc = false ->
  let sf := hk_snapshots_for hc (hk_evs hc) in
  exists S, hk_resolve_snaps hc (map (fun n => (n, entries_ids (sf n))) names) = Some S
    /\ map fst S = names
    /\ map (fun n => (n, entries_items (sf n))) names = map (fun p => (fst p, map norm_item (snd p))) S
    /\ forallb (fun p => forallb (wf_item None) (snd p)) S = true
    /\ existsb (fun p => existsb item_trigger (snd p)) S = false.
Proof.
  intros Hwf Ht sf. induction names as [|n names [S [Hr [Hn [Hm [Hw Htr]]]]]].
  - exists []. repeat split; reflexivity.
  - assert (Hone : exists its, hk_resolve_items hc n (entries_ids (sf n)) = Some its
                               /\ entries_items (sf n) = map norm_item its
                               /\ forallb (wf_item None) its = true
                               /\ existsb item_trigger its = false).
    { unfold hk_resolve_items. destruct (kube_named n (hk_kube hc)) as [[b ws0]|] eqn:Hk.
      - destruct (hook_snapshot_resolved hc n b ws0 Hwf Ht Hk) as [objs [H1 [H2 H3]]].
        fold sf in H1, H2. rewrite H1. exists (map (spec_item b) objs).
        destruct (items_wf b V1 objs None H3 (or_introl eq_refl)) as [G1 G2].
        repeat split; [exact H2|exact G1|now apply G2].
      - unfold sf, hk_snapshots_for. rewrite Hk. simpl. exists []. repeat split; reflexivity. }
    destruct Hone as [its [H1 [H2 [H3 H4]]]].
    exists ((n, its) :: S). cbn [map hk_resolve_snaps fst snd forallb existsb].
    rewrite H1, Hr, Hn, H2, Hm, H3, Hw, H4, Htr. repeat split; reflexivity.
Qed.

Lemma fresh_snapshots_json (g : bytes -> list item) L L' S :
  canon_names L' = canon_names L ->
  map (fun n => (n, g n)) (canon_names L) = map (fun p => (fst p, map norm_item (snd p))) S ->
  snapshots_json (map (fun n => (n, g n)) L') = snapshots_json S.
Proof.
  intros Hc Hm. rewrite snapshots_json_canon, Hc, Hm. apply snapshots_json_norm.
Qed.

Lemma sorted_by_canon A (S : list (bytes * A)) L : map fst S = canon_names L -> sorted_strict S = true.
Proof.
  intros H. rewrite (sorted_strict_keys _ _ S (map (fun n => (n, tt)) (canon_names L))).
  - apply canon_names_sorted_any.
  - rewrite H, map_map. simpl. now rewrite map_id.
Qed.

(* what has to be shown of one item *)
Lemma P_hook_item_intro hc i ev ids snapids S c j :
  nth_error (hk_evs hc) i = Some ev ->
  hk_resolve_snaps hc snapids = Some S ->
  In c (hk_expected hc ev ids S) ->
  map fst snapids = canon_names (c_incl c) ->
  wf1 c = true -> ctx_trigger c = false -> j = JObj (map_v1 c) ->
  P_hook_item hc (mkHitem (N.of_nat i) ids snapids) j = true.
Proof.
  intros Hev Hs Hc Hn Hwf Ht ->. unfold P_hook_item. cbn [hi_ev hi_ids hi_snaps].
  rewrite Nat2N.id, Hev, Hs. apply existsb_exists. exists c. split; [exact Hc|].
  rewrite Hn, Hwf, list_eqb_refl by apply bytes_eqb_refl.
  simpl. now apply P_item_v1_rendered.
Qed.


Local Arguments json_eqb : simpl never.
Local Arguments snapshots_json : simpl never.
Local Arguments render_item : simpl never.
Local Arguments render_list : simpl never.
Local Arguments canon_names : simpl never.
Local Arguments map_v1 : simpl never.


(* UpdateSnapshots as a function of one context *)
Definition U (hc : hcase) (x : ctx) : ctx :=
  if is_nil (hk_kube hc) then x
  else update_pure (hk_include_from hc) (hk_snapshots_for hc (hk_evs hc)) x.

Lemma hk_update_map hc xs : hk_update_snapshots hc xs = map (U hc) xs.
Proof.
  unfold hk_update_snapshots, U. destruct (is_nil (hk_kube hc)).
  - now rewrite map_id.
  - apply update_all_pure, sc_ok_nil.
Qed.

Lemma hk_collect_in hc evs : forall pre i q,
  In (i, q) (hk_collect hc pre evs) ->
  exists mid ev r, evs = mid ++ ev :: r /\ i = length (pre ++ mid) /\ In q (hk_contexts hc (pre ++ mid) ev).
Proof.
  induction evs as [|ev evs IH]; intros pre i q Hin; [destruct Hin|].
  cbn [hk_collect] in Hin. apply in_app_or in Hin as [Hin|Hin].
  - apply in_map_iff in Hin as [p [Hp Hin]]. inversion Hp; subst.
    exists [], ev, evs. rewrite app_nil_r. repeat split. exact Hin.
  - destruct (IH _ _ _ Hin) as [mid [ev' [r [He [Hi Hq]]]]].
    exists (ev :: mid), ev', r. rewrite <- app_assoc in Hi, Hq. simpl in Hi, Hq.
    subst evs. repeat split; assumption.
Qed.

Lemma kube_named_not_nil A n (l : list (binding * A)) p : kube_named n l = Some p -> is_nil l = false.
Proof. destruct l; [discriminate|reflexivity]. Qed.

Lemma btype_eqb_refl t : btype_eqb t t = true.
Proof. destruct t; reflexivity. Qed.

Lemma btype_eqb_eq a b : btype_eqb a b = true -> a = b.
Proof. destruct a, b; simpl; intros H; try discriminate H; reflexivity. Qed.

Lemma obind_eqb_eq a b : obind_eqb a b = true -> a = b.
Proof.
  destruct a as [t1 n1 i1 g1 c1 r1], b as [t2 n2 i2 g2 c2 r2]. unfold obind_eqb. simpl. intros H.
  apply andb_true_iff in H as [H Hr]. apply andb_true_iff in H as [H Hc].
  apply andb_true_iff in H as [H Hg]. apply andb_true_iff in H as [H Hi]. apply andb_true_iff in H as [Ht Hn].
  apply btype_eqb_eq in Ht. apply bytes_eqb_eq in Hn. apply bytes_eqb_eq in Hg. apply bytes_eqb_eq in Hc.
  apply (list_eqb_eq bytes_eqb bytes_eqb_eq) in Hi.
  apply (list_eqb_eq _ (pair_eqb_eq bytes_eqb bytes_eqb bytes_eqb_eq bytes_eqb_eq)) in Hr. now subst.
Qed.

Lemma include_from_other hc o :
  obind_kind_ok o = true ->
  hk_include_from hc (ob_type o) (ob_name o)
  = match find (okey_eqb o) (hk_other hc) with Some o' => ob_incl o' | None => [] end.
Proof.
  destruct o as [ty nm inc grp crd rules]. unfold obind_kind_ok, hk_include_from. simpl.
  destruct ty; try discriminate; reflexivity.
Qed.

(* a kubernetes context: wf1 and the trigger *)
Lemma kube_ctx_ok b kt wev objs S L :
  map fst S = canon_names L ->
  forallb (fun p => forallb (wf_item None) (snd p)) S = true ->
  existsb (fun p => existsb item_trigger (snd p)) S = false ->
  Forall (wobj_good b V1) objs ->
  (kt = KSync /\ wev = WNone \/ kt = KEvent /\ wev <> WNone /\ exists w, objs = [w]) ->
  let c := mkCtx BKube (b_jq b) (b_incl b) false (b_group b) (b_name b) kt wev (map (spec_item b) objs) S
                 None None [] [] in
  wf1 c = true /\ ctx_trigger c = false.
Proof.
  intros Hn Hw Ht Hobjs Hkind c.
  destruct (items_wf b V1 objs (Some (b_jq b)) Hobjs (or_intror eq_refl)) as [Ho1 Ho2].
  split.
  - unfold wf1, wf_snapshots, c, grouped; proj. rewrite (sorted_by_canon _ S L Hn), Hw. simpl.
    destruct (negb (is_nil (b_group b))); [reflexivity|].
    destruct Hkind as [[-> ->]|[-> [Hwev [w ->]]]].
    + exact Ho1.
    + simpl in Ho1. rewrite andb_true_r in Ho1. simpl. destruct wev; [congruence| | |]; exact Ho1.
  - unfold ctx_trigger, c; proj. now rewrite (Ho2 eq_refl), Ht.
Qed.

(* the context of a schedule / validating / mutating / conversion binding [o] *)
Lemma obind_item_ok hc pre ev r o x ar cr fr to :
  hook_wf hc = true -> T_hook hc = false ->
  hk_evs hc = pre ++ ev :: r ->
  In o (hk_other hc) -> obind_kind_ok o = true ->
  first_namesake_differs hc o = false ->
  x = mkCtx (ob_type o) false (ob_incl o) false (ob_group o) (ob_name o) KEmpty WNone [] [] ar cr fr to ->
  match ob_type o with BValidating | BMutating => is_some ar | BConversion => is_some cr | _ => true end = true ->
  (forall S, In (set_fresh x [] S) (hk_expected hc ev [] S)) ->
  P_hook_item hc (hk_item hc (length pre, ([], x))) (JObj (map_v1 (U hc x))) = true.
Proof.
  intros Hwf Ht Hevs Hino Hkind Hfd Hx Hrev Hexp.
  assert (Hnth : nth_error (hk_evs hc) (length pre) = Some ev).
  { rewrite Hevs, nth_error_app2, Nat.sub_diag by lia. reflexivity. }
  set (sf := hk_snapshots_for hc (hk_evs hc)).
  assert (Hknown : forallb (fun n => is_some (kube_named n (hk_kube hc))) (ob_incl o) = true).
  { unfold hook_wf in Hwf. apply andb_true_iff in Hwf as [Hwf _]. apply andb_true_iff in Hwf as [Hwf _].
    apply andb_true_iff in Hwf as [_ H2]. rewrite forallb_forall in H2. auto. }
  destruct (find_in_some _ (okey_eqb o) _ o Hino) as [o' Hfind].
  { unfold okey_eqb. now rewrite btype_eqb_refl, bytes_eqb_refl. }
  assert (Hcanon : canon_names (ob_incl o') = canon_names (ob_incl o)).
  { unfold first_namesake_differs in Hfd. rewrite Hfind in Hfd. apply negb_false_iff in Hfd.
    now apply (list_eqb_eq bytes_eqb bytes_eqb_eq) in Hfd. }
  pose proof (include_from_other hc o Hkind) as Hinc. rewrite Hfind in Hinc.
  assert (Hsync : is_sync x = false).
  { rewrite Hx. unfold is_sync; proj. destruct (ob_type o); reflexivity. }
  assert (Hbt : c_btype x = ob_type o) by (now rewrite Hx).
  assert (Hbn : c_binding x = ob_name o) by (now rewrite Hx).
  assert (Hwfk : forall S, map fst S = canon_names (ob_incl o) ->
                           forallb (fun p => forallb (wf_item None) (snd p)) S = true ->
                           wf1 (set_fresh x [] S) = true).
  { intros S Hns Hw. rewrite Hx. unfold wf1, wf_snapshots, set_fresh; proj.
    rewrite (sorted_by_canon _ S (ob_incl o) Hns), Hw. simpl.
    unfold obind_kind_ok in Hkind. destruct (ob_type o); try discriminate Hkind; try reflexivity; exact Hrev. }
  destruct (is_nil (hk_kube hc)) eqn:Hnil.
  - (* no kubernetes controller: the context is handed over as it is *)
    assert (Hno : ob_incl o = []).
    { destruct (hk_kube hc); [|discriminate Hnil]. destruct (ob_incl o); [reflexivity|discriminate Hknown]. }
    assert (Hxx : set_fresh x [] [] = x) by (now rewrite Hx).
    unfold hk_item. cbn [fst snd]. rewrite Hnil, andb_false_r.
    apply (P_hook_item_intro hc (length pre) ev [] [] [] (set_fresh x [] [])).
    + exact Hnth.
    + reflexivity.
    + apply Hexp.
    + rewrite Hx. unfold set_fresh; proj. now rewrite Hno.
    + apply Hwfk; [now rewrite Hno|reflexivity].
    + rewrite Hx. reflexivity.
    + f_equal. unfold U. now rewrite Hnil, Hxx.
  - destruct (hook_snaps_resolved hc (canon_names (ob_incl o)) Hwf Ht) as [S [Hr [Hns [Hm [Hw Htr]]]]].
    fold sf in Hr, Hm.
    unfold hk_item. cbn [fst snd]. rewrite Hnil, Hsync, Hbt, Hbn. cbn [andb negb].
    rewrite Hinc, Hcanon. fold sf.
    apply (P_hook_item_intro hc (length pre) ev [] _ S (set_fresh x [] S)).
    + exact Hnth.
    + exact Hr.
    + apply Hexp.
    + rewrite Hx. unfold set_fresh; proj. rewrite map_map. simpl. now rewrite map_id.
    + now apply Hwfk.
    + rewrite Hx. unfold ctx_trigger, set_fresh; proj. exact Htr.
    + f_equal. unfold U. rewrite Hnil. unfold update_pure. rewrite Hsync, Hbt, Hbn, Hinc. fold sf.
      rewrite Hx. unfold set_fresh; proj.
      change (@nil item) with (map norm_item []) at 1.
      apply map_v1_ext. apply (fresh_snapshots_json _ (ob_incl o)); [exact Hcanon|exact Hm].
Qed.

Lemma hook_item_ok hc pre ev r q :
  hook_wf hc = true -> T_hook hc = false -> T_same_type_name hc = false ->
  T_admission_same_name hc = false ->
  hk_evs hc = pre ++ ev :: r -> In q (hk_contexts hc pre ev) ->
  P_hook_item hc (hk_item hc (length pre, q)) (JObj (map_v1 (U hc (snd q)))) = true.
Proof.
  intros Hwf Ht Hts Hta Hevs Hin.
  assert (Hnth : nth_error (hk_evs hc) (length pre) = Some ev).
  { rewrite Hevs, nth_error_app2, Nat.sub_diag by lia. reflexivity. }
  set (sf := hk_snapshots_for hc (hk_evs hc)).
  destruct ev as [name|name t w|k review|crd review from to]; cbn [hk_contexts] in Hin.
  - (* Synchronization *)
    destruct (kube_named name (hk_kube hc)) as [[b ws0]|] eqn:Hn; [|destruct Hin].
    destruct (kube_named_in _ _ _ _ _ Hn) as [_ Hname]. subst name.
    pose proof (kube_named_not_nil _ _ _ _ Hn) as Hnil.
    simpl in Hin. destruct Hin as [<-|[]].
    destruct (hook_snapshot_resolved hc (b_name b) b ws0 Hwf Ht Hn) as [objs [Hres [Hitems Hgood]]].
    fold sf in Hres, Hitems.
    destruct (hook_snaps_resolved hc (canon_names (b_incl b)) Hwf Ht) as [S [Hr [Hns [Hm [Hw Htr]]]]].
    fold sf in Hr, Hm.
    destruct (kube_ctx_ok b KSync WNone objs S (b_incl b) Hns Hw Htr Hgood) as [Hwf1 Htrig];
      [left; now split|].
    unfold hk_item, is_sync. cbn [fst snd]. proj. rewrite Hnil. cbn [negb andb].
    unfold hk_include_from. rewrite Hn. cbn [fst].
    fold sf.
    eapply (P_hook_item_intro hc (length pre) (HSync (b_name b)) _ _ S); try eassumption.
    + unfold hk_expected. rewrite Hn, Hres. now left.
    + proj. rewrite map_map. simpl. now rewrite map_id.
    + f_equal. unfold U. rewrite Hnil. unfold update_pure, set_fresh, is_sync. proj.
      unfold hk_include_from. rewrite Hn. cbn [fst]. fold sf. rewrite Hitems.
      apply map_v1_ext. apply (fresh_snapshots_json _ (b_incl b)); [reflexivity|exact Hm].
  - (* a watch event *)
    destruct (kube_named name (hk_kube hc)) as [[b ws0]|] eqn:Hn; [|destruct Hin].
    destruct (kube_named_in _ _ _ _ _ Hn) as [_ Hname]. subst name.
    pose proof (kube_named_not_nil _ _ _ _ Hn) as Hnil.
    destruct (handle b (run_cache b ws0 (watch_ops (b_name b) pre)) t w) as [c' [kev|]] eqn:Hh;
      cbn [snd] in Hin; [|destruct Hin].
    destruct (handle_event _ _ _ _ _ _ Hh) as [Htn ->].
    simpl in Hin. destruct Hin as [<-|[]].
    assert (Hgood : wobj_good b V1 w).
    { destruct (hook_objs_good hc (b_name b) b ws0 Hwf Ht Hn) as [_ Hops].
      rewrite Forall_forall in Hops. apply (Hops (t, w)).
      unfold watch_ops. apply in_flat_map. exists (HWatch (b_name b) t w). split.
      - rewrite Hevs. apply in_or_app. right. now left.
      - rewrite bytes_eqb_refl. now left. }
    destruct (hook_snaps_resolved hc (canon_names (b_incl b)) Hwf Ht) as [S [Hr [Hns [Hm [Hw Htr]]]]].
    fold sf in Hr, Hm.
    destruct (kube_ctx_ok b KEvent t [w] S (b_incl b) Hns Hw Htr) as [Hwf1 Htrig];
      [constructor; [exact Hgood|constructor] | right; split; [reflexivity|split; [exact Htn|now exists w]] |].
    unfold hk_item, is_sync. cbn [fst snd]. proj. cbn [andb].
    rewrite Hnil. unfold hk_include_from. rewrite Hn. cbn [fst]. fold sf.
    eapply (P_hook_item_intro hc (length pre) (HWatch (b_name b) t w) _ _ S); try eassumption.
    + unfold hk_expected. rewrite Hn. rewrite list_eqb_refl by apply bytes_eqb_refl. now left.
    + proj. rewrite map_map. simpl. now rewrite map_id.
    + f_equal. unfold U. rewrite Hnil. unfold update_pure, set_fresh, is_sync. proj.
      unfold hk_include_from. rewrite Hn. cbn [fst]. fold sf.
      replace [Raw (apply_filter (jqf_of b w) (b_keep b) (w_obj w))] with (map norm_item [spec_item b w]).
      * apply map_v1_ext. apply (fresh_snapshots_json _ (b_incl b)); [reflexivity|exact Hm].
      * simpl. unfold norm_item. now rewrite spec_item_ofr, entry_of_ofr.
  - (* a schedule / validating / mutating binding *)
    destruct (nth_error (hk_other hc) k) as [o|] eqn:Hk; [|destruct Hin].
    pose proof (nth_error_In _ _ Hk) as Hino.
    assert (Hkind : obind_kind_ok o = true).
    { unfold hook_wf in Hwf. apply andb_true_iff in Hwf as [Hwf _]. apply andb_true_iff in Hwf as [Hwf _].
      apply andb_true_iff in Hwf as [H1 _]. rewrite forallb_forall in H1. auto. }
    assert (Hlink : (if is_adm (ob_type o) then adm_link hc o else o) = o).
    { destruct (is_adm (ob_type o)) eqn:Ha; [|reflexivity].
      destruct (obind_eqb (adm_link hc o) o) eqn:E; [now apply obind_eqb_eq in E|].
      exfalso. unfold T_admission_same_name in Hta. rewrite <- Bool.not_true_iff_false in Hta. apply Hta.
      apply existsb_exists. exists (HOther k review). split.
      - rewrite Hevs. apply in_or_app. right. now left.
      - now rewrite Hk, Ha, E. }
    assert (Hfd : first_namesake_differs hc o = false).
    { destruct (first_namesake_differs hc o) eqn:E; [|reflexivity].
      exfalso. unfold T_same_type_name in Hts. rewrite <- Bool.not_true_iff_false in Hts. apply Hts.
      apply existsb_exists. exists (HOther k review). split.
      - rewrite Hevs. apply in_or_app. right. now left.
      - now rewrite Hk. }
    assert (Hq : ob_type o <> BConversion /\ q = ([], ctx_of_obind o review)).
    { revert Hin Hlink. destruct (ob_type o) eqn:Hty; cbn [is_adm]; intros Hin Hlink;
        try (destruct Hin; fail); (split; [discriminate|]); rewrite ?Hlink in Hin;
        destruct Hin as [<-|[]]; reflexivity. }
    destruct Hq as [Hnc ->]. cbn [snd].
    apply (obind_item_ok hc pre (HOther k review) r o (ctx_of_obind o review)
                         (if is_adm (ob_type o) then Some review else None) None [] []); try assumption.
    + reflexivity.
    + destruct (ob_type o); try reflexivity. congruence.
    + intros S. unfold hk_expected. rewrite Hk. unfold obind_kind_ok in Hkind.
      destruct o as [ty nm inc grp crd rules]; simpl in Hkind, Hnc |- *.
      destruct ty; try discriminate Hkind; try congruence; now left.
  - (* a conversion request resolved to a rule *)
    destruct (conv_link hc crd from to) as [[o rr]|] eqn:Hl; [|destruct Hin].
    destruct Hin as [<-|[]]. cbn [snd].
    unfold conv_link in Hl.
    destruct (find (conv_match crd from to) (rev (hk_other hc))) as [o0|] eqn:Hf; [|discriminate Hl].
    destruct (find (rule_eqb from to) (ob_rules o0)) as [r0|] eqn:Hr0; [|discriminate Hl].
    inversion Hl; subst o0 r0. clear Hl.
    apply find_some in Hf as [Hino Hm]. apply in_rev in Hino.
    apply find_some in Hr0 as [_ Hre]. unfold rule_eqb in Hre.
    apply andb_true_iff in Hre as [Hfrom Hto]. apply bytes_eqb_eq in Hfrom. apply bytes_eqb_eq in Hto.
    assert (Hty : ob_type o = BConversion).
    { unfold conv_match in Hm. apply andb_true_iff in Hm as [Hm _]. apply andb_true_iff in Hm as [Hm _].
      now apply btype_eqb_eq in Hm. }
    assert (Hfd : first_namesake_differs hc o = false).
    { destruct (first_namesake_differs hc o) eqn:E; [|reflexivity].
      exfalso. unfold T_same_type_name in Hts. rewrite <- Bool.not_true_iff_false in Hts. apply Hts.
      apply existsb_exists. exists (HConv crd review from to). split.
      - rewrite Hevs. apply in_or_app. right. now left.
      - apply existsb_exists. exists o. split; [exact Hino|now rewrite Hm, E]. }
    apply (obind_item_ok hc pre (HConv crd review from to) r o (ctx_of_conv o rr review)
                         None (Some review) (fst rr) (snd rr)); try assumption.
    + unfold obind_kind_ok. now rewrite Hty.
    + unfold ctx_of_conv. now rewrite Hty.
    + now rewrite Hty.
    + intros S. unfold hk_expected. apply in_map_iff. exists o. split.
      * unfold set_fresh, ctx_of_conv; proj. now rewrite <- Hfrom, <- Hto.
      * apply filter_In. now split.
Qed.

(* every combined array the model produces for a well-formed hook conforms, outside the trigger
   of F8 and unless two bindings of ONE type — or a validating and a mutating binding — share a name *)
Lemma hook_contract_partial hc :
  hook_wf hc = true -> T_hook hc = false -> T_same_type_name hc = false ->
  T_admission_same_name hc = false ->
  P_hook hc (Some (run_hook hc)) = true.
Proof.
  intros Hwf Ht Hts Hta. unfold P_hook, run_hook.
  rewrite hk_update_map, render_list_v1, !map_map.
  rewrite forall2b_map. apply forallb_forall. intros [i q] Hin.
  destruct (hk_collect_in hc _ _ _ _ Hin) as [mid [ev [r [Hevs [Hi Hq]]]]].
  simpl in Hi, Hq. subst i. cbn [snd].
  now apply (hook_item_ok hc mid ev r q).
Qed.

(* the Conversion context of a request that was resolved to the rule from->to carries exactly
   these two versions, and belongs to a binding of that CRD that declares the rule *)
Lemma conv_versions hc crd from to o r review :
  conv_link hc crd from to = Some (o, r) ->
  In o (hk_other hc) /\ conv_match crd from to o = true
  /\ jget k_fromVersion (JObj (map_v1 (ctx_of_conv o r review))) = Some (JStr from)
  /\ jget k_toVersion (JObj (map_v1 (ctx_of_conv o r review))) = Some (JStr to).
Proof.
  unfold conv_link. intros Hl.
  destruct (find (conv_match crd from to) (rev (hk_other hc))) as [o0|] eqn:Hf; [|discriminate Hl].
  destruct (find (rule_eqb from to) (ob_rules o0)) as [r0|] eqn:Hr0; [|discriminate Hl].
  inversion Hl; subst o0 r0. clear Hl.
  apply find_some in Hf as [Hino Hm]. apply in_rev in Hino.
  apply find_some in Hr0 as [_ Hre]. unfold rule_eqb in Hre.
  apply andb_true_iff in Hre as [Hfrom Hto]. apply bytes_eqb_eq in Hfrom. apply bytes_eqb_eq in Hto.
  split; [exact Hino|]. split; [exact Hm|]. subst from to.
  unfold ctx_of_conv, jget, map_v1, includes; proj.
  destruct (negb (is_nil (ob_incl o)) || false); split; reflexivity.
Qed.

(* ---- the witnesses of the hook cases ---- *)

Module WitHook.
Import String.
Local Open Scope string_scope.

Definition all_types : list wevent := [WAdded; WModified; WDeleted].

(* kubernetes binding "pods" (includes nothing), kubernetes binding "cm" (jqFilter {data: .data},
   keepFullObjectsInMemory: false), and a SCHEDULE binding that is also called "pods" and
   includes the snapshot of "cm" *)
Definition kube_pods : binding := mkBinding (bs "pods") false true all_types [] [] true.
Definition kube_cm : binding := mkBinding (bs "cm") true false all_types [] [] true.

Definition wpod (name : string) : wobj :=
  mkWobj (bs "d") (bs name) (bs ("d/ConfigMap/" ++ name)) (Wit.cm name 1) [].

Definition example_hook : hcase :=
  mkHcase [(kube_pods, [wpod "p0"]); (kube_cm, [Wit.wcm "settings" 7])]
          [mkObind BSchedule (bs "pods") [bs "cm"] [] [] []]
          [HWatch (bs "pods") WAdded (wpod "p1"); HOther 0 JNull].

Definition schedule_item (snaps : list (bytes * json)) : json :=
  JObj [(k_binding, JStr (bs "pods")); (k_snapshots, JObj snaps); (k_type, JStr s_Schedule)].

Lemma example_hook_ok :
  hook_wf example_hook = true /\ T_hook example_hook = false /\ T_same_type_name example_hook = false
  /\ T_admission_same_name example_hook = false
  /\ run_hook example_hook
     = mkHobs [mkHitem 0 [bs "d/ConfigMap/p1"] [];
               mkHitem 1 [] [(bs "cm", [bs "d/ConfigMap/settings"])]]
              (Some (JArr [JObj [(k_binding, JStr (bs "pods")); (k_object, Wit.cm "p1" 1);
                                 (k_type, JStr s_Event); (k_watchEvent, JStr s_Added)];
                           schedule_item [(bs "cm", JArr [Wit.only_fr 7])]])).
Proof. vm_compute. repeat split. Qed.

(* the predicate is not satisfied by everything: the same array in which the Schedule item got
   the (empty) include list of its kubernetes namesake does not conform *)
Definition confused_obs : hobs :=
  mkHobs [mkHitem 0 [bs "d/ConfigMap/p1"] []; mkHitem 1 [] []]
         (Some (JArr [JObj [(k_binding, JStr (bs "pods")); (k_object, Wit.cm "p1" 1);
                            (k_type, JStr s_Event); (k_watchEvent, JStr s_Added)];
                      schedule_item []])).

Lemma confused_obs_rejected : P_hook example_hook (Some confused_obs) = false.
Proof. vm_compute. reflexivity. Qed.

(* two SCHEDULE bindings called "tick": the second one includes the snapshot of "cm", the first
   one nothing.  getIncludeSnapshotsFrom(Schedule, "tick") finds the first one: the context of
   the second binding is rendered with `snapshots: {}` *)
Definition witness_same_type_name : hcase :=
  mkHcase [(kube_cm, [Wit.wcm "settings" 7])]
          [mkObind BSchedule (bs "tick") [] [] [] []; mkObind BSchedule (bs "tick") [bs "cm"] [] [] []]
          [HOther 1 JNull].

Lemma same_type_name_refuted :
  hook_wf witness_same_type_name = true /\ T_hook witness_same_type_name = false
  /\ T_same_type_name witness_same_type_name = true
  /\ P_hook witness_same_type_name (Some (run_hook witness_same_type_name)) = false.
Proof. vm_compute. repeat split. Qed.

(* a VALIDATING and a MUTATING binding called "x": both get the webhook id "x", the mutating link
   replaces the validating one, and the admission request for the validating webhook is rendered
   as `type: Mutating` *)
Definition witness_admission_same_name : hcase :=
  mkHcase [] [mkObind BValidating (bs "x") [] [] [] []; mkObind BMutating (bs "x") [] [] [] []]
          [HOther 0 (JObj [(bs "request", JNull)])].

Lemma admission_same_name_refuted :
  hook_wf witness_admission_same_name = true /\ T_hook witness_admission_same_name = false
  /\ T_same_type_name witness_admission_same_name = false
  /\ T_admission_same_name witness_admission_same_name = true
  /\ P_hook witness_admission_same_name (Some (run_hook witness_admission_same_name)) = false.
Proof. vm_compute. repeat split. Qed.

(* a conversion binding with the rules a->b and b->c (and a second binding of the same CRD with
   c->d): a request resolved to the FIRST rule is rendered with fromVersion a, toVersion b *)
Definition example_conv : hcase :=
  mkHcase [(kube_cm, [Wit.wcm "settings" 7])]
          [mkObind BConversion (bs "up") [bs "cm"] [] (bs "crd") [(bs "a", bs "b"); (bs "b", bs "c")];
           mkObind BConversion (bs "up2") [] [] (bs "crd") [(bs "c", bs "d")]]
          [HConv (bs "crd") JNull (bs "a") (bs "b"); HConv (bs "crd") JNull (bs "c") (bs "d")].

Definition conv_item (name from to : string) (rest : list (bytes * json)) : json :=
  JObj ([(k_binding, JStr (bs name)); (k_fromVersion, JStr (bs from)); (k_review, JNull)] ++ rest
        ++ [(k_toVersion, JStr (bs to)); (k_type, JStr s_Conversion)]).

Lemma example_conv_ok :
  hook_wf example_conv = true /\ T_hook example_conv = false /\ T_same_type_name example_conv = false
  /\ T_admission_same_name example_conv = false
  /\ run_hook example_conv
     = mkHobs [mkHitem 0 [] [(bs "cm", [bs "d/ConfigMap/settings"])]; mkHitem 1 [] []]
              (Some (JArr [conv_item "up" "a" "b" [(k_snapshots, JObj [(bs "cm", JArr [Wit.only_fr 7])])];
                           conv_item "up2" "c" "d" []])).
Proof. vm_compute. repeat split. Qed.

Definition example_conv_link := conv_link example_conv (bs "crd") (bs "a") (bs "b").
Lemma example_conv_link_some : example_conv_link <> None.
Proof. vm_compute. discriminate. Qed.

(* the same array with the versions of the binding's LAST rule in the first item does not conform *)
Lemma conv_wrong_rule_rejected :
  P_hook example_conv
         (Some (mkHobs [mkHitem 0 [] [(bs "cm", [bs "d/ConfigMap/settings"])]; mkHitem 1 [] []]
                       (Some (JArr [conv_item "up" "b" "c" [(k_snapshots, JObj [(bs "cm", JArr [Wit.only_fr 7])])];
                                    conv_item "up2" "c" "d" []])))) = false.
Proof. vm_compute. reflexivity. Qed.
End WitHook.
