(* C11_IdProofs.v — proofs about the IDENTITY under which schedule bindings are registered
   (C11_Hm: hm_load / load_input; C11_HmSpec: B_from / P_op): the loader gives one id per
   (hook, binding); with such ids the (crontab, id) registry of C11_Spec is the set of the
   bindings of the enabled hooks plus what was registered by hand, so a crontab has its cron
   entry iff some enabled (hook, binding) has it - after every interleaving of enable /
   disable / add / remove / firings, whatever names, positions and crontabs hooks share. *)
From Coq Require Import Permutation.
From Verif Require Import Common C11_Model C11_Spec C11_Proofs C11_Hm C11_HmSpec C11_HmProofs.

(* ------------------------------------------------------------------ lists *)

Lemma nth_set_nth_same A n (x d : A) : forall l, (n < length l)%nat -> nth n (set_nth n x l) d = x.
Proof.
  induction n as [|n IH]; intros [|y l] H; simpl in *; try lia; [reflexivity|]. apply IH. lia.
Qed.

Lemma nth_set_nth_other A n m (x d : A) : n <> m -> forall l, nth m (set_nth n x l) d = nth m l d.
Proof.
  revert m. induction n as [|n IH]; intros m Hnm [|y l]; simpl; try reflexivity.
  - destruct m; [contradiction | reflexivity].
  - destruct m; [reflexivity|]. apply IH. lia.
Qed.

Lemma set_nth_overflow A n (x : A) : forall l, (length l <= n)%nat -> set_nth n x l = l.
Proof.
  induction n as [|n IH]; intros [|y l] H; simpl in *; try reflexivity; try lia.
  f_equal. apply IH. lia.
Qed.

Lemma length_set_nth A n (x : A) : forall l, length (set_nth n x l) = length l.
Proof. induction n as [|n IH]; intros [|y l]; simpl; try reflexivity. f_equal. apply IH. Qed.

Lemma nth_const_false A (l : list A) n : nth n (map (fun _ => false) l) false = false.
Proof. revert n. induction l as [|x l IH]; intros [|n]; simpl; auto. Qed.

Lemma NoDup_app_disjoint A (l1 l2 : list A) x : NoDup (l1 ++ l2) -> In x l1 -> In x l2 -> False.
Proof.
  induction l1 as [|y l1 IH]; simpl; intros Hn H1 H2; [contradiction|].
  inversion Hn as [|? ? Hy Hl]; subst. destruct H1 as [->|H1].
  - apply Hy. apply in_or_app. now right.
  - now apply IH.
Qed.

Lemma NoDup_app_l A (l1 l2 : list A) : NoDup (l1 ++ l2) -> NoDup l1.
Proof.
  induction l1 as [|y l1 IH]; simpl; intros Hn; [constructor|].
  inversion Hn as [|? ? Hy Hl]; subst. constructor; [|now apply IH].
  intros H. apply Hy. apply in_or_app. now left.
Qed.

Lemma NoDup_app_r A (l1 l2 : list A) : NoDup (l1 ++ l2) -> NoDup l2.
Proof.
  induction l1 as [|y l1 IH]; simpl; intros Hn; [assumption|].
  inversion Hn; subst. now apply IH.
Qed.

(* ------------------------------------------------------------------ the ids of the bindings of all hooks *)

Lemma in_binding_ids hooks : forall h b, In b (nth h hooks []) -> In (b_id b) (binding_ids hooks).
Proof.
  induction hooks as [|bs hr IH]; intros h b Hb.
  - destruct h; contradiction.
  - unfold binding_ids. cbn [flat_map]. apply in_or_app. destruct h as [|h]; cbn [nth] in Hb.
    + left. now apply in_map.
    + right. exact (IH h b Hb).
Qed.

(* one id per (hook, binding): bindings of two different hooks never share an id ... *)
Lemma ids_across hooks : NoDup (binding_ids hooks) -> forall h h' b b',
  h <> h' -> In b (nth h hooks []) -> In b' (nth h' hooks []) -> b_id b <> b_id b'.
Proof.
  induction hooks as [|bs hr IH]; intros Hn h h' b b' Hh Hb Hb'.
  - destruct h; contradiction.
  - unfold binding_ids in Hn. cbn [flat_map] in Hn. intros E.
    destruct h as [|h], h' as [|h']; cbn [nth] in Hb, Hb'.
    + now apply Hh.
    + apply (NoDup_app_disjoint _ _ _ (b_id b) Hn); [now apply in_map|].
      rewrite E. exact (in_binding_ids hr h' b' Hb').
    + apply (NoDup_app_disjoint _ _ _ (b_id b') Hn); [now apply in_map|].
      rewrite <- E. exact (in_binding_ids hr h b Hb).
    + apply (IH (NoDup_app_r _ _ _ Hn) h h' b b'); auto.
Qed.

(* ... nor do two bindings of one hook *)
Lemma ids_within hooks : NoDup (binding_ids hooks) -> ids_distinct hooks = true.
Proof.
  induction hooks as [|bs hr IH]; intros Hn; [reflexivity|].
  unfold binding_ids in Hn. cbn [flat_map] in Hn. unfold ids_distinct. cbn [forallb].
  apply andb_true_iff. split; [|exact (IH (NoDup_app_r _ _ _ Hn))].
  pose proof (NoDup_app_l _ _ _ Hn) as H. clear -H.
  induction (map b_id bs) as [|x l IHl]; [reflexivity|]. inversion H; subst. cbn [nodupb].
  apply andb_true_iff. split; [|now apply IHl].
  destruct (mem_N x l) eqn:M; [|reflexivity]. apply mem_N_In in M. contradiction.
Qed.

(* ------------------------------------------------------------------ the loader *)

Fixpoint nseq (n : N) (k : nat) : list N :=
  match k with
  | O => []
  | S k' => n :: nseq (N.succ n) k'
  end.

Lemma nseq_ge k : forall n x, In x (nseq n k) -> (n <= x)%N.
Proof.
  induction k as [|k IH]; intros n x H; [contradiction|]. destruct H as [<-|H]; [lia|].
  apply IH in H. lia.
Qed.

Lemma nseq_nodup k : forall n, NoDup (nseq n k).
Proof.
  induction k as [|k IH]; intros n; [constructor|]. cbn [nseq]. constructor; [|apply IH].
  intros H. apply nseq_ge in H. lia.
Qed.

Lemma nseq_app a : forall n b, nseq n (a + b) = nseq n a ++ nseq (n + N.of_nat a) b.
Proof.
  induction a as [|a IH]; intros n b.
  - cbn [Nat.add nseq app]. now rewrite N.add_0_r.
  - cbn [Nat.add nseq app]. rewrite IH. do 3 f_equal. lia.
Qed.

Lemma load_bs_ids bs : forall n, map b_id (load_bs n bs) = nseq n (length bs).
Proof. induction bs as [|b r IH]; intros n; [reflexivity|]. cbn [load_bs map length nseq b_id set_id]. now rewrite IH. Qed.

Lemma load_from_ids hooks : forall n,
  binding_ids (load_from n hooks) = nseq n (length (concat hooks)).
Proof.
  induction hooks as [|bs hr IH]; intros n; [reflexivity|].
  unfold binding_ids in *. cbn [load_from flat_map concat]. rewrite app_length, nseq_app, load_bs_ids, IH.
  reflexivity.
Qed.

(* one id per (hook, binding), whatever the bindings are configured with *)
Lemma load_one_id_each hooks : NoDup (binding_ids (hm_load hooks)).
Proof. unfold hm_load. rewrite load_from_ids. apply nseq_nodup. Qed.

(* loading changes nothing but the ids *)
Lemma set_id_idem n m b : set_id n (set_id m b) = set_id n b.
Proof. reflexivity. Qed.

Lemma load_bs_keeps bs : forall n, map (set_id 0) (load_bs n bs) = map (set_id 0) bs.
Proof. induction bs as [|b r IH]; intros n; [reflexivity|]. cbn [load_bs map]. now rewrite IH, set_id_idem. Qed.

Lemma load_keeps hooks : map (map (set_id 0)) (hm_load hooks) = map (map (set_id 0)) hooks.
Proof.
  unfold hm_load. generalize first_id. induction hooks as [|bs hr IH]; intros n; [reflexivity|].
  cbn [load_from map]. now rewrite load_bs_keeps, IH.
Qed.

Lemma load_one_id_each_and_keeps hooks :
  NoDup (binding_ids (hm_load hooks))
  /\ map (map (set_id 0)) (hm_load hooks) = map (map (set_id 0)) hooks.
Proof. split; [apply load_one_id_each | apply load_keeps]. Qed.

(* ------------------------------------------------------------------ the registry, by (hook, binding) *)

(* the pair an enabled hook's binding is registered under *)
Definition owned (hooks : list (list binding)) (en : list bool) (p : ct * N) : Prop :=
  exists h b, nth h en false = true /\ In b (nth h hooks []) /\ p = (b_crontab b, b_id b).

(* [reg]: the (crontab, id) registry of C11_Spec; [en]: which hooks are enabled; [hand]: the
   pairs registered by hand *)
Definition J (hooks : list (list binding)) (reg : list (ct * N)) (en : list bool) (hand : list (ct * N)) : Prop :=
  length en = length hooks
  /\ (forall p, In p reg <-> In p hand \/ owned hooks en p)
  /\ (forall p, In p hand -> ~ In (snd p) (binding_ids hooks)).

Lemma J_init hooks : J hooks [] (map (fun _ => false) hooks) [].
Proof.
  split; [apply map_length|]. split.
  - intros p. split; [contradiction|]. intros [[]|(h & b & He & _)]. rewrite nth_const_false in He. discriminate.
  - intros p [].
Qed.

Lemma In_fold_adds bs : forall reg p,
  In p (fold_left reg_step (map (fun b => Add (b_crontab b) (b_id b)) bs) reg)
  <-> In p reg \/ exists b, In b bs /\ p = (b_crontab b, b_id b).
Proof.
  induction bs as [|b r IH]; intros reg p; cbn [map fold_left].
  - split; [now left | intros [H|(b & [] & _)]; exact H].
  - rewrite IH. cbn [reg_step]. rewrite In_reg_add. split.
    + intros [[->|H]|(b' & Hb' & E)].
      * right. exists b. split; [now left | reflexivity].
      * now left.
      * right. exists b'. split; [now right | exact E].
    + intros [H|(b' & [<-|Hb'] & E)].
      * left. now right.
      * left. now left.
      * right. eauto.
Qed.

Lemma In_fold_removes bs : forall reg p,
  In p (fold_left reg_step (map (fun b => Remove (b_crontab b) (b_id b)) bs) reg)
  <-> In p reg /\ forall b, In b bs -> p <> (b_crontab b, b_id b).
Proof.
  induction bs as [|b r IH]; intros reg p; cbn [map fold_left].
  - split; [intros H; split; [exact H | intros b []] | intros [H _]; exact H].
  - rewrite IH. cbn [reg_step]. rewrite In_reg_remove. split.
    + intros [[H1 H2] H3]. split; [exact H1|]. intros b' [<-|Hb']; [exact H2 | now apply H3].
    + intros [H1 H2]. split; [split; [exact H1 | apply H2; now left]|]. intros b' Hb'. apply H2. now right.
Qed.

Lemma spec_step_snd hooks st o : snd (spec_step hooks st o) = en_step (snd st) o.
Proof. reflexivity. Qed.

Lemma J_step hooks reg en hand o :
  NoDup (binding_ids hooks) -> J hooks reg en hand -> meddles hooks o = false ->
  J hooks (fold_left reg_step (induced hooks o) reg) (en_step en o) (hand_step hand o).
Proof.
  intros Hn (HL & HR & HH) Hm.
  destruct o as [c id|c id|h|h|c|n| |ns| | |]; cbn [induced en_step hand_step fold_left reg_step];
    try (split; [exact HL | split; [exact HR | exact HH]]).
  - (* OAdd by hand *)
    cbn [meddles] in Hm.
    assert (Hid : ~ In id (binding_ids hooks)) by (intros H; apply mem_N_In in H; rewrite H in Hm; discriminate).
    split; [exact HL|]. split.
    + intros p. rewrite !In_reg_add, HR. tauto.
    + intros p Hp. apply In_reg_add in Hp as [->|Hp]; [exact Hid | now apply HH].
  - (* ORemove by hand *)
    cbn [meddles] in Hm.
    assert (Hid : ~ In id (binding_ids hooks)) by (intros H; apply mem_N_In in H; rewrite H in Hm; discriminate).
    split; [exact HL|]. split.
    + intros p. rewrite !In_reg_remove, HR. split.
      * intros [[H|H] Hne]; [left; now split | now right].
      * intros [[H Hne]|H]; [split; [now left | exact Hne]|]. split; [now right|].
        destruct H as (h & b & _ & Hb & ->). intros E. inversion E; subst. apply Hid. exact (in_binding_ids _ _ _ Hb).
    + intros p Hp. apply In_reg_remove in Hp as [Hp _]. now apply HH.
  - (* OEnable h *)
    split; [now rewrite length_set_nth|]. split; [|exact HH].
    intros p. rewrite In_fold_adds, HR.
    destruct (Nat.lt_ge_cases (N.to_nat h) (length en)) as [Hlt|Hge].
    + split.
      * intros [[H|(h1 & b & He & Hb & E)]|(b & Hb & E)].
        -- now left.
        -- right. exists h1, b. split; [|now split].
           destruct (Nat.eq_dec (N.to_nat h) h1) as [<-|Hne]; [now apply nth_set_nth_same | now rewrite nth_set_nth_other].
        -- right. exists (N.to_nat h), b. split; [now apply nth_set_nth_same | now split].
      * intros [H|(h1 & b & He & Hb & E)]; [left; now left|].
        destruct (Nat.eq_dec (N.to_nat h) h1) as [<-|Hne].
        -- right. eauto.
        -- rewrite nth_set_nth_other in He by assumption. left. right. exists h1, b. now split.
    + rewrite set_nth_overflow by assumption. rewrite (nth_overflow hooks) by lia.
      split; [intros [H|(b & [] & _)]; exact H | now left].
  - (* ODisable h *)
    split; [now rewrite length_set_nth|]. split; [|exact HH].
    intros p. rewrite In_fold_removes, HR.
    destruct (Nat.lt_ge_cases (N.to_nat h) (length en)) as [Hlt|Hge].
    + split.
      * intros [[H|(h1 & b & He & Hb & E)] Hne]; [now left|]. right. exists h1, b. split; [|now split].
        destruct (Nat.eq_dec (N.to_nat h) h1) as [<-|Hd]; [exfalso; exact (Hne b Hb E)|].
        now rewrite nth_set_nth_other.
      * intros [H|(h1 & b & He & Hb & E)].
        -- split; [now left|]. intros b Hb E. apply (HH p H). rewrite E. exact (in_binding_ids _ _ _ Hb).
        -- destruct (Nat.eq_dec (N.to_nat h) h1) as [<-|Hd].
           { rewrite nth_set_nth_same in He by assumption. discriminate. }
           rewrite nth_set_nth_other in He by assumption. split; [right; exists h1, b; now split|].
           intros b' Hb' E'. rewrite E in E'. inversion E' as [[Ec Ei]].
           apply (ids_across hooks Hn h1 (N.to_nat h) b b'); auto.
    + rewrite set_nth_overflow by assumption. rewrite (nth_overflow hooks) by lia.
      split; [intros [H _]; exact H | intros H; split; [exact H | intros b []]].
Qed.

Lemma enabled_has_iff c hooks : forall en,
  enabled_has c hooks en = true
  <-> exists h b, nth h en false = true /\ In b (nth h hooks []) /\ b_crontab b = c.
Proof.
  induction hooks as [|bs hr IH]; intros en.
  - split; [discriminate | intros (h & b & _ & Hb & _); destruct h; contradiction].
  - destruct en as [|e er].
    + split; [discriminate | intros (h & b & He & _); destruct h; discriminate].
    + cbn [enabled_has]. rewrite orb_true_iff, andb_true_iff, existsb_exists, IH. split.
      * intros [[-> (b & Hb & Hc)]|(h & b & He & Hb & Hc)].
        -- exists O, b. apply ct_eqb_eq in Hc. now split.
        -- exists (S h), b. now split.
      * intros (h & b & He & Hb & Hc). destruct h as [|h]; cbn [nth] in He, Hb.
        -- left. split; [exact He|]. exists b. split; [exact Hb | subst c; apply ct_eqb_refl].
        -- right. eauto.
Qed.

(* with one id per (hook, binding): some id is registered for c iff some enabled (hook,
   binding) has c or a pair was registered for it by hand *)
Lemma J_has_binding hooks reg en hand c :
  J hooks reg en hand -> has_binding c reg = enabled_has c hooks en || has_binding c hand.
Proof.
  intros (_ & HR & _). apply Bool.eq_iff_eq_true.
  rewrite orb_true_iff, !has_binding_In, enabled_has_iff. split.
  - intros [id H]. apply HR in H as [H|(h & b & He & Hb & E)]; [right; eauto|].
    inversion E; subst. left. eauto.
  - intros [(h & b & He & Hb & Hc)|[id H]].
    + exists (b_id b). apply HR. right. exists h, b. subst c. now split.
    + exists id. apply HR. now left.
Qed.

Lemma check_cron_bind_ok i s f reg en hand :
  Inv (valid_of (i_invalid i)) (s_sm s) reg -> J (i_hooks i) reg en hand ->
  check_cron_bind (valid_of (i_invalid i)) (i_alphabet i) (i_hooks i) en hand (observe i s f) = true.
Proof.
  intros HI HJ. unfold check_cron_bind. apply forallb_forall. intros c _. rewrite o_cron_observe.
  change (count_fires c (cron (s_sm s))) with (cron_count c (s_sm s)).
  rewrite (inv_count_exact _ _ _ c HI), (J_has_binding _ _ _ _ c HJ). apply Nat.eqb_refl.
Qed.

Lemma run_hm_from_length i : forall ops s, length (run_hm_from i s ops) = length ops.
Proof.
  induction ops as [|o ops IH]; intros s; [reflexivity|]. cbn [run_hm_from].
  destruct (sys_step i s o) as [s' f]. cbn [length]. now rewrite IH.
Qed.

Lemma B_from_holds i : NoDup (binding_ids (i_hooks i)) ->
  forall ops s st hand stopped,
  Rel i s st -> J (i_hooks i) (fst st) (snd st) hand ->
  B_from i (snd st) hand stopped ops (run_hm_from i s ops) = true.
Proof.
  intros Hn. induction ops as [|o ops IH]; intros s st hand stopped HR HJ; [reflexivity|].
  cbn [run_hm_from]. pose proof (step_rel i s st o HR) as HR'.
  destruct (sys_step i s o) as [s' f] eqn:Es. cbn [fst] in HR'. cbn [B_from h_obs].
  destruct (meddles (i_hooks i) o) eqn:M.
  - rewrite run_hm_from_length. apply Nat.eqb_refl.
  - pose proof (J_step _ _ _ _ o Hn HJ M) as HJ'. destruct HR' as [HI' HL'].
    change (fold_left reg_step (induced (i_hooks i) o) (fst st)) with (fst (spec_step (i_hooks i) st o)) in HJ'.
    rewrite (check_cron_bind_ok i s' f _ _ _ HI' HJ'), orb_true_r. cbn [andb].
    rewrite <- spec_step_snd with (hooks := i_hooks i).
    apply IH; [split; assumption|]. rewrite spec_step_snd. exact HJ'.
Qed.

(* the predicate of the operator-level class holds of the model whenever the ids are one per
   (hook, binding) ... *)
Lemma P_op_holds_nodup i : NoDup (binding_ids (i_hooks i)) -> P_op i (run_hm i) = true.
Proof.
  intros Hn. unfold P_op. rewrite P_hm_holds. cbn [andb].
  change (map (fun _ : list binding => false) (i_hooks i)) with (snd (spec_init (i_hooks i))).
  unfold run_hm. apply (B_from_holds i Hn); [apply rel_init | apply J_init].
Qed.

(* ... which they are once the configurations are loaded: on EVERY input *)
Lemma P_op_holds i : P_op (load_input i) (run_op i) = true.
Proof. apply P_op_holds_nodup. cbn [load_input i_hooks]. apply load_one_id_each. Qed.

(* ------------------------------------------------------------------ the statement in words *)

Definition no_meddling (hooks : list (list binding)) (ops : list op) : Prop :=
  forall o, In o ops -> meddles hooks o = false.

Lemma J_fold hooks : NoDup (binding_ids hooks) -> forall ops st hand,
  no_meddling hooks ops -> J hooks (fst st) (snd st) hand ->
  J hooks (fst (fold_left (spec_step hooks) ops st)) (snd (fold_left (spec_step hooks) ops st))
          (fold_left hand_step ops hand).
Proof.
  intros Hn. induction ops as [|o ops IH]; intros st hand Hm HJ; [exact HJ|]. cbn [fold_left].
  apply IH; [intros o' Ho'; apply Hm; now right|].
  rewrite spec_step_snd. apply (J_step _ _ _ _ o Hn HJ). apply Hm. now left.
Qed.

Lemma spec_en_fold_from hooks ops : forall st,
  snd (fold_left (spec_step hooks) ops st) = fold_left en_step ops (snd st).
Proof. induction ops as [|o ops IH]; intros st; [reflexivity|]. cbn [fold_left]. now rewrite IH, spec_step_snd. Qed.

Lemma spec_en_fold hooks ops :
  snd (fold_left (spec_step hooks) ops (spec_init hooks)) = fold_left en_step ops (map (fun _ => false) hooks).
Proof. apply spec_en_fold_from. Qed.

(* after ANY sequence of operations in which nobody removes or adds a binding's own pair by
   hand: crontab c has a cron entry - exactly one - iff it is parsable and some ENABLED
   (hook, binding) has it or an id registered for it by hand is still there *)
Lemma entry_iff_enabled_binding i ops c :
  let s := fold_left (fun s o => fst (sys_step i s o)) ops (sys_init i) in
  let en := fold_left en_step ops (map (fun _ => false) (i_hooks i)) in
  let hand := fold_left hand_step ops [] in
  NoDup (binding_ids (i_hooks i)) -> no_meddling (i_hooks i) ops ->
  ((exists e, In (e, c) (cron (s_sm s)))
   <-> valid_of (i_invalid i) c = true
       /\ ((exists h b, nth h en false = true /\ In b (nth h (i_hooks i) []) /\ b_crontab b = c)
           \/ exists id, In (c, id) hand))
  /\ cron_count c (s_sm s)
     = (if valid_of (i_invalid i) c && (enabled_has c (i_hooks i) en || has_binding c hand) then 1 else 0)%nat.
Proof.
  cbv zeta. intros Hn Hm.
  destruct (rel_fold i ops _ _ (rel_init i)) as [HI _].
  pose proof (J_fold (i_hooks i) Hn ops (spec_init (i_hooks i)) [] Hm (J_init _)) as HJ.
  rewrite spec_en_fold in HJ.
  set (s := fold_left (fun s o => fst (sys_step i s o)) ops (sys_init i)) in *.
  set (st := fold_left (spec_step (i_hooks i)) ops (spec_init (i_hooks i))) in *.
  split.
  - rewrite (inv_refcount _ _ _ c HI).
    pose proof (J_has_binding _ _ _ _ c HJ) as HB. apply Bool.eq_iff_eq_true in HB.
    rewrite orb_true_iff, !has_binding_In, enabled_has_iff in HB. now rewrite HB.
  - rewrite (inv_count_exact _ _ _ c HI). now rewrite (J_has_binding _ _ _ _ c HJ).
Qed.

(* "keeps firing while at least one binding is registered ... stops when the last one is
   removed", for hooks that share a crontab: disabling one of them leaves the cron entry as long
   as another enabled hook has a binding on that crontab - also when the two bindings have the
   same name and the same position in their hooks' schedule lists - and a round of firings then
   yields that binding's task *)
Lemma sharer_keeps_firing i ops h b :
  let s := fold_left (fun s o => fst (sys_step i s o)) ops (sys_init i) in
  let en := fold_left en_step ops (map (fun _ => false) (i_hooks i)) in
  NoDup (binding_ids (i_hooks i)) -> no_meddling (i_hooks i) ops ->
  nth h en false = true -> In b (nth h (i_hooks i) []) ->
  valid_of (i_invalid i) (b_crontab b) = true ->
  cron_count (b_crontab b) (s_sm s) = 1%nat
  /\ In (task_of_binding (N.of_nat h) b) (hm_tasks (i_hooks i) (s_links s) (map snd (cron (s_sm s)))).
Proof.
  cbv zeta. intros Hn Hm He Hb Hv.
  pose proof (entry_iff_enabled_binding i ops (b_crontab b)) as X. cbv zeta in X.
  destruct (X Hn Hm) as [X1 X2]. clear X.
  assert (Hex : exists e, In (e, b_crontab b) (cron (s_sm (fold_left (fun s o => fst (sys_step i s o)) ops (sys_init i))))).
  { apply X1. split; [exact Hv|]. left. exists h, b. now split. }
  split.
  - rewrite X2, Hv. cbn [andb].
    assert (E : enabled_has (b_crontab b) (i_hooks i) (fold_left en_step ops (map (fun _ => false) (i_hooks i))) = true).
    { apply enabled_has_iff. exists h, b. now split. }
    now rewrite E.
  - destruct Hex as [e Hin]. destruct (rel_fold i ops _ _ (rel_init i)) as [_ HL].
    unfold hm_tasks. apply in_flat_map. exists (b_crontab b). split.
    + change (b_crontab b) with (snd (e, b_crontab b)). now apply in_map.
    + unfold hm_handle. rewrite (hm_from_expected _ _ _ _ _ (ids_within _ Hn) HL).
      rewrite spec_en_fold.
      pose proof (expected_from_In (b_crontab b) (i_hooks i) 0%N _ h b He Hb eq_refl) as Y.
      now rewrite N.add_0_l in Y.
Qed.
