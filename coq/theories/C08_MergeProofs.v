(* C08_MergeProofs.v — jqFilter results with SEVERAL outputs of mixed kinds.
   1. The merge rule of jq.Filter.ApplyFilter ([glue]): what the merged object shows for a
      key is what the last object output binding the key says; outputs that are no objects
      contribute nothing and hide nothing, wherever they stand.
   2. The trigger decision on such results: a change in the part an object output produces
      triggers and shows in the snapshot.
   3. The property P for ALL histories outside the narrowed trigger [T_F8m] (and F16). *)
From Verif Require Import Common Json C08_Model C08_Spec C08_Proofs.

(* ---- 1. the merge rule ---- *)

Lemma assoc_obj_set_same k v m : assoc k (obj_set k v m) = Some v.
Proof.
  induction m as [|[k' v'] r IH]; cbn [obj_set assoc].
  - rewrite bytes_eqb_refl. reflexivity.
  - destruct (bytes_eqb k k') eqn:E.
    + cbn [assoc]. rewrite bytes_eqb_refl. reflexivity.
    + destruct (bytes_ltb k k'); cbn [assoc].
      * rewrite bytes_eqb_refl. reflexivity.
      * rewrite E. exact IH.
Qed.

Lemma assoc_obj_set_other k k2 v m : bytes_eqb k2 k = false -> assoc k2 (obj_set k v m) = assoc k2 m.
Proof.
  intros Hne. induction m as [|[k' v'] r IH]; cbn [obj_set assoc].
  - rewrite Hne. reflexivity.
  - destruct (bytes_eqb k k') eqn:E.
    + apply bytes_eqb_eq in E. subst k'. cbn [assoc]. rewrite Hne. reflexivity.
    + destruct (bytes_ltb k k'); cbn [assoc].
      * rewrite Hne. reflexivity.
      * destruct (bytes_eqb k2 k'); [reflexivity | exact IH].
Qed.

(* maps.Copy: later bindings win, the rest of the destination stays *)
Lemma assoc_maps_copy k m : forall acc,
  assoc k (maps_copy acc m) = match last_binding k m with Some v => Some v | None => assoc k acc end.
Proof.
  unfold maps_copy. induction m as [|[k' v] r IH]; intros acc; [reflexivity|].
  cbn [fold_left fst snd last_binding]. rewrite IH.
  destruct (last_binding k r) as [w|]; [reflexivity|].
  destruct (bytes_eqb k k') eqn:E.
  - apply bytes_eqb_eq in E. subst k'. apply assoc_obj_set_same.
  - apply assoc_obj_set_other. exact E.
Qed.

Definition glue_step (acc : list (bytes * json)) (v : json) : list (bytes * json) :=
  match v with JObj m => maps_copy acc m | _ => acc end.

Lemma glue_unfold outs : glue outs = JObj (fold_left glue_step outs []).
Proof. reflexivity. Qed.

Lemma assoc_glue_fold k outs : forall acc,
  assoc k (fold_left glue_step outs acc)
  = match last_out k outs with Some v => Some v | None => assoc k acc end.
Proof.
  induction outs as [|v r IH]; intros acc; [reflexivity|].
  cbn [fold_left last_out]. rewrite IH.
  destruct (last_out k r) as [w|]; [reflexivity|].
  destruct v; cbn [glue_step]; try reflexivity.
  apply assoc_maps_copy.
Qed.

(* THE MERGE RULE: for every sequence of outputs and every key *)
Lemma glue_get outs k : jget k (glue outs) = last_out k outs.
Proof.
  rewrite glue_unfold. cbn [jget]. rewrite assoc_glue_fold. cbn [assoc].
  destruct (last_out k outs); reflexivity.
Qed.

Definition is_object (v : json) : bool := match v with JObj _ => true | _ => false end.

(* an output that is no object can be taken out of (put into) the sequence anywhere *)
Lemma glue_skips_nonobject pre v post :
  is_object v = false -> glue (pre ++ v :: post) = glue (pre ++ post).
Proof.
  intros Hv. rewrite !glue_unfold, !fold_left_app. cbn [fold_left].
  destruct v; try reflexivity. discriminate.
Qed.

Lemma glue_only_objects outs : glue outs = glue (List.filter is_object outs).
Proof.
  rewrite !glue_unfold. f_equal. generalize (@nil (bytes * json)) as acc.
  induction outs as [|v r IH]; intros acc; [reflexivity|].
  cbn [List.filter fold_left]. destruct v; cbn [is_object glue_step fold_left]; apply IH.
Qed.

Lemma last_out_app k a b :
  last_out k (a ++ b) = match last_out k b with Some w => Some w | None => last_out k a end.
Proof.
  induction a as [|v r IH]; cbn [app last_out].
  - destruct (last_out k b); reflexivity.
  - rewrite IH. destruct (last_out k b); reflexivity.
Qed.

(* precedence between object outputs: an object output's binding of [k] shows unless a LATER
   object output binds [k] too - then that one shows -, whatever stands before, between, after *)
Lemma glue_precedence pre m post k v :
  last_binding k m = Some v ->
  jget k (glue (pre ++ JObj m :: post))
  = match last_out k post with Some w => Some w | None => Some v end.
Proof.
  intros Hm. rewrite glue_get, last_out_app. cbn [last_out].
  destruct (last_out k post); [reflexivity|]. rewrite Hm. reflexivity.
Qed.

(* an object output's keys are in the merged object, whatever surrounds the output *)
Lemma glue_keeps_object_keys pre m post k v :
  last_binding k m = Some v -> jget k (glue (pre ++ JObj m :: post)) <> None.
Proof.
  intros Hm. rewrite (glue_precedence pre m post k v Hm).
  destruct (last_out k post); discriminate.
Qed.

(* ... and only such keys *)
Lemma last_binding_in k m : forall v, last_binding k m = Some v -> In k (map fst m).
Proof.
  induction m as [|[k' v'] r IH]; intros v; cbn [last_binding]; [discriminate|].
  destruct (last_binding k r) as [w|].
  - intros _. right. apply (IH w). reflexivity.
  - destruct (bytes_eqb k k') eqn:E; [|discriminate]. intros _. left. cbn [fst].
    apply bytes_eqb_eq in E. congruence.
Qed.

Lemma last_out_in k outs : forall v, last_out k outs = Some v -> In k (out_keys outs).
Proof.
  unfold out_keys. induction outs as [|x r IH]; intros v; cbn [last_out]; [discriminate|].
  cbn [flat_map]. destruct (last_out k r) as [w|].
  - intros _. apply in_or_app. right. apply (IH w). reflexivity.
  - destruct x; try discriminate. intros H. apply in_or_app. left. cbn [jkeys].
    apply (last_binding_in _ _ _ H).
Qed.

Lemma glue_no_foreign_key outs k : ~ In k (out_keys outs) -> jget k (glue outs) = None.
Proof.
  intros Hn. rewrite glue_get. destruct (last_out k outs) as [v|] eqn:E; [|reflexivity].
  exfalso. apply Hn. apply (last_out_in _ _ _ E).
Qed.

Lemma ojson_refl (a : option json) : option_eqb json_eqb a a = true.
Proof. apply (@option_eqb_eq _ json_eqb json_eqb_eq). reflexivity. Qed.

(* the merged object meets the specification's clause for the shown filterResult *)
Lemma glue_fr_shows outs : fr_shows outs (glue outs) = true.
Proof.
  unfold fr_shows. rewrite glue_unfold at 1. apply forallb_forall. intros k _.
  rewrite glue_get. apply ojson_refl.
Qed.

(* two results whose object parts differ at some key merge into different objects *)
Lemma glue_differs outs outs' k :
  last_out k outs <> last_out k outs' -> json_eqb (glue outs) (glue outs') = false.
Proof.
  intros Hne. destruct (json_eqb (glue outs) (glue outs')) eqn:E; [|reflexivity].
  apply json_eqb_eq in E. exfalso. apply Hne. rewrite <- !glue_get, E. reflexivity.
Qed.

(* ---- 2. the decision ---- *)

Section WithOracle.

  Variable jq : json -> list json * bool.

  (* A delivery of type [t] (Added / Modified, listed) for an object the cache knows; the
     filter fails on neither state; SOME key's value in the part the object outputs produce
     has changed.  Then - whatever other outputs the filter has, of whatever kind, before or
     after - the hook is triggered with the new filterResult, and the snapshot shows it. *)
  Lemma object_part_change_triggers cfg c t id o cached k :
    c_filter cfg = true -> t <> Deleted -> should_fire cfg t = true ->
    c_get id c = Some cached -> apply_filter jq cfg (e_obj cached) = Some cached ->
    snd (jq o) = false ->
    last_out k (fst (jq (e_obj cached))) <> last_out k (fst (jq o)) ->
    let e := mkEntry o (glue (fst (jq o))) (Some (glue (fst (jq o)))) in
    handle jq cfg c t id o = (c_set id e c, Some (mkEvent t id e)) /\
    fr_shows (fst (jq o)) (glue (fst (jq o))) = true.
  Proof.
    intros Hf Ht Hs Hg Hc Hnf Hne e. split; [|apply glue_fr_shows].
    assert (Ha : apply_filter jq cfg o = Some e).
    { unfold apply_filter. rewrite Hf. destruct (jq o) as [outs err]. cbn [fst snd] in *. subst err. reflexivity. }
    assert (Hp : e_proj cached = glue (fst (jq (e_obj cached)))).
    { unfold apply_filter in Hc. rewrite Hf in Hc. destruct (jq (e_obj cached)) as [outs err].
      destruct err; [discriminate|]. inversion Hc as [Hc']. rewrite <- Hc'. reflexivity. }
    unfold handle. rewrite Ha, Hs, Hg, Hp. cbn [e_proj e].
    rewrite (glue_differs _ _ k Hne).
    destruct t; [reflexivity | reflexivity | contradiction].
  Qed.

  (* ---- 3. P outside the narrowed trigger ---- *)

  Section Sep.
    Variable types : list evtype.
    Variable filter : bool.
    Let cfg := mkConfig types filter.

    (* the object states concerned: the filter fails on none of them, and no two of them are
       confused by the merge *)
    Variable D : json -> Prop.
    Hypothesis Hnofail : forall o, D o -> filter = true -> snd (jq o) = false.
    Hypothesis Hsep : forall o o', D o -> D o' -> filter = true ->
      json_eqb (glue (fst (jq o'))) (glue (fst (jq o))) = list_eqb json_eqb (fst (jq o')) (fst (jq o)).

    Lemma sep_apply o : D o ->
      exists e, apply_filter jq cfg o = Some e /\ e_obj e = o /\
                forall o' e', D o' -> apply_filter jq cfg o' = Some e' ->
                  json_eqb (e_proj e') (e_proj e) = proj_eqb (projection jq filter o') (projection jq filter o).
    Proof.
      intros Hd. unfold apply_filter, projection, cfg. cbn [c_filter].
      destruct filter eqn:Ef.
      - pose proof (Hnofail o Hd eq_refl) as Hn.
        destruct (jq o) as [outs err] eqn:Ej. cbn [snd] in Hn. subst err.
        eexists. split; [reflexivity|]. split; [reflexivity|].
        intros o' e' Hd' Ha'.
        pose proof (Hnofail o' Hd' eq_refl) as Hn'.
        pose proof (Hsep o o' Hd Hd' eq_refl) as Hs. rewrite Ej in Hs.
        destruct (jq o') as [outs' err'] eqn:Ej'. cbn [fst snd] in Hn', Hs. subst err'.
        inversion Ha'; subst e'. cbn [e_proj]. rewrite Hs.
        unfold proj_eqb, pair_eqb. cbn [fst snd Bool.eqb]. rewrite andb_true_r. reflexivity.
      - eexists. split; [reflexivity|]. split; [reflexivity|].
        intros o' e' _ Ha'. inversion Ha'; subst e'. cbn [e_proj].
        unfold proj_eqb, pair_eqb. cbn [fst snd list_eqb Bool.eqb]. rewrite !andb_true_r. reflexivity.
    Qed.

    Definition inv_sep (c : cache) : Prop :=
      forall id e, In (id, e) c -> apply_filter jq cfg (e_obj e) = Some e /\ D (e_obj e).

    Lemma P_from_model_sep h : forall c,
      inv_sep c -> (forall s, In s h -> D (snd s)) ->
      P_from jq types filter (map (g jq filter) c) h (map to_obs (run jq cfg c h)) = true.
    Proof.
      induction h as [|[[t id] o] r IH]; intros c Hinv Hgood; [reflexivity|].
      assert (Hgo : D o) by (apply (Hgood (t, id, o)); left; reflexivity).
      destruct (sep_apply o Hgo) as (e & Ha & Eo & Hcmp).
      cbn [run]. destruct (handle jq cfg c t id o) as [c' ev] eqn:Eh.
      cbn [map P_from].
      assert (Hc' : c' = fst (handle jq cfg c t id o)) by (rewrite Eh; reflexivity).
      assert (Hev : ev = snd (handle jq cfg c t id o)) by (rewrite Eh; reflexivity).
      rewrite (fire_iff jq cfg c t id o e Ha) in Hev.
      assert (Hk : k_next jq filter (map (g jq filter) c) t id o = map (g jq filter) c').
      { rewrite Hc'. unfold handle. rewrite Ha. unfold k_next.
        destruct t; cbn [fst].
        - rewrite <- Eo. apply k_set_map.
        - rewrite <- Eo. apply k_set_map.
        - apply k_del_map. }
      assert (Hinv' : inv_sep c').
      { rewrite Hc'. unfold handle. rewrite Ha. intros id' e' Hin.
        destruct t; cbn [fst] in Hin.
        - destruct (In_c_set _ _ _ _ Hin) as [E|Hin']; [|apply (Hinv _ _ Hin')].
          inversion E; subst id' e'. rewrite Eo. split; assumption.
        - destruct (In_c_set _ _ _ _ Hin) as [E|Hin']; [|apply (Hinv _ _ Hin')].
          inversion E; subst id' e'. rewrite Eo. split; assumption.
        - apply (Hinv _ _ (In_c_del _ _ _ Hin)). }
      apply andb_true_iff; split.
      - unfold step_ok. apply andb_true_iff; split.
        + assert (Hexp : expected_fire jq types filter (map (g jq filter) c) t id o = fire_cond cfg c t id e).
          { unfold expected_fire, fire_cond, should_fire, listed, cfg. cbn [c_types].
            destruct t; [| |rewrite andb_true_r; reflexivity]; rewrite k_get_map;
              (destruct (c_get id c) as [cached|] eqn:Eg; cbn [option_map]; [|reflexivity]);
              destruct (Hinv id cached (c_get_In _ _ _ Eg)) as [Hac Hgc];
              rewrite <- (Hcmp (e_obj cached) cached Hgc Hac); reflexivity. }
          rewrite Hexp. unfold to_obs. cbn [snd o_fired]. rewrite Hev.
          destruct (fire_cond cfg c t id e); cbn [ev_type]; apply fired_eqb_refl.
        + rewrite Hk. rewrite snapshot_map. unfold to_obs. cbn [fst o_snapshot]. apply snap_eqb_refl.
      - rewrite Hk. apply IH; [exact Hinv'|]. intros s Hs. apply Hgood. right; exact Hs.
    Qed.

    Lemma load_existed_sep listed : forall c,
      inv_sep c -> (forall io, In io listed -> D (snd io)) ->
      exists c0, load_existed jq cfg listed c = Some c0 /\ inv_sep c0 /\
        map (g jq filter) c0
        = fold_left (fun k io => k_set (fst io) (snd io, projection jq filter (snd io)) k) listed (map (g jq filter) c).
    Proof.
      induction listed as [|[id o] r IH]; intros c Hinv Hgood.
      - exists c. split; [reflexivity|]. split; [exact Hinv | reflexivity].
      - assert (Hgo : D o) by (apply (Hgood (id, o)); left; reflexivity).
        destruct (sep_apply o Hgo) as (e & Ha & Eo & _).
        cbn [load_existed fold_left fst snd]. rewrite Ha.
        destruct (IH (c_set id e c)) as (c0 & Hl & Hinv0 & Hmap).
        + intros id' e' Hin. destruct (In_c_set _ _ _ _ Hin) as [E|Hin']; [|apply (Hinv _ _ Hin')].
          inversion E; subst id' e'. rewrite Eo. split; assumption.
        + intros io Hio. apply Hgood. right; exact Hio.
        + exists c0. split; [exact Hl|]. split; [exact Hinv0|].
          rewrite Hmap. rewrite <- k_set_map. rewrite Eo. reflexivity.
    Qed.

  End Sep.

  (* outside the narrowed trigger and F16 the states of the history are separated *)
  Definition in_history (h : list step) (o : json) : Prop := exists s, In s h /\ snd s = o.

  Lemma triggers_off_nofail filter h :
    T_F16 jq filter h = false -> forall o, in_history h o -> filter = true -> snd (jq o) = false.
  Proof.
    intros H16 o (s & Hs & Eo) Hf. subst o. unfold T_F16 in H16. rewrite Hf in H16. cbn [andb] in H16.
    destruct (snd (jq (snd s))) eqn:E; [|reflexivity].
    assert (existsb (fun s => snd (jq (snd s))) h = true) by (apply existsb_exists; exists s; split; assumption).
    congruence.
  Qed.

  Lemma triggers_off_sep filter h :
    T_F8m jq filter h = false -> T_F16 jq filter h = false ->
    forall o o', in_history h o -> in_history h o' -> filter = true ->
      json_eqb (glue (fst (jq o'))) (glue (fst (jq o))) = list_eqb json_eqb (fst (jq o')) (fst (jq o)).
  Proof.
    intros H8 H16 o o' Ho Ho' Hf.
    pose proof (triggers_off_nofail filter h H16 o Ho Hf) as Hn.
    pose proof (triggers_off_nofail filter h H16 o' Ho' Hf) as Hn'.
    destruct Ho as (s & Hs & Eo). destruct Ho' as (s' & Hs' & Eo'). subst o o'.
    destruct (list_eqb json_eqb (fst (jq (snd s'))) (fst (jq (snd s)))) eqn:El.
    - apply (@list_eqb_eq _ json_eqb json_eqb_eq) in El. rewrite El. apply json_eqb_refl.
    - destruct (json_eqb (glue (fst (jq (snd s')))) (glue (fst (jq (snd s))))) eqn:Eg; [|reflexivity].
      exfalso. unfold T_F8m in H8. rewrite Hf in H8. cbn [andb] in H8.
      assert (Hx : existsb (fun s => existsb (fun s' => confused (jq (snd s)) (jq (snd s'))) h) h = true).
      { apply existsb_exists. exists s'. split; [exact Hs'|].
        apply existsb_exists. exists s. split; [exact Hs|].
        unfold confused. rewrite Hn, Hn', El, Eg. reflexivity. }
      congruence.
  Qed.

  Lemma partial_merge types filter h :
    T_F8m jq filter h = false -> T_F16 jq filter h = false ->
    P jq types filter h (model_obs jq (mkConfig types filter) h) = true.
  Proof.
    intros H8 H16. unfold P, model_obs.
    apply (P_from_model_sep types filter (in_history h)
             (triggers_off_nofail filter h H16) (triggers_off_sep filter h H8 H16) h []).
    - intros id e [].
    - intros s Hs. exists s. split; [exact Hs | reflexivity].
  Qed.

  (* for every DECLARED binding, every set of existing objects, every history of deliveries *)
  Lemma partial_merge_declared d filter listed (h : list dstep) :
    T_F8m jq filter (listed_steps listed ++ map change_of h) = false ->
    T_F16 jq filter (listed_steps listed ++ map change_of h) = false ->
    exists c0, load_existed jq (mkConfig (effective_types d) filter) listed [] = Some c0 /\
      P_decl jq d filter listed (map change_of h)
             (map to_obs (run_d jq (mkConfig (effective_types d) filter) c0 h)) = true.
  Proof.
    intros H8 H16.
    set (hh := listed_steps listed ++ map change_of h) in *.
    pose proof (triggers_off_nofail filter hh H16) as Hnf.
    pose proof (triggers_off_sep filter hh H8 H16) as Hsp.
    destruct (load_existed_sep (effective_types d) filter (in_history hh) Hnf Hsp listed []) as (c0 & Hl & Hinv0 & Hmap).
    - intros id e [].
    - intros io Hio. exists (Added, fst io, snd io). split; [|reflexivity].
      apply in_or_app. left. unfold listed_steps.
      apply (in_map (fun io => (Added, fst io, snd io))). exact Hio.
    - exists c0. split; [exact Hl|]. unfold P_decl.
      rewrite only_listed_model, andb_true_r.
      rewrite <- effective_is_declared. unfold P_start, known_of_list.
      cbn [map] in Hmap. rewrite <- Hmap. rewrite run_d_changes.
      apply (P_from_model_sep (effective_types d) filter (in_history hh) Hnf Hsp); [exact Hinv0|].
      intros s Hs. exists s. split; [|reflexivity]. apply in_or_app. right. exact Hs.
  Qed.

  Lemma single_object_inv outs : single_object outs = true -> exists m, outs = [JObj m].
  Proof.
    destruct outs as [|v [|w r]]; cbn [single_object]; try discriminate.
    - destruct v; try discriminate. intros _. eexists; reflexivity.
    - destruct v; discriminate.
  Qed.

  (* the narrowed trigger is narrower: it fires only where [T_F8] fires *)
  Lemma T_F8m_narrower filter h :
    oracle_canonical jq h -> T_F8m jq filter h = true -> T_F8 jq filter h = true.
  Proof.
    intros Hcan Hm. unfold T_F8m in Hm. unfold T_F8.
    destruct filter; [|discriminate]. cbn [andb] in *.
    apply existsb_exists in Hm. destruct Hm as (s & Hs & Hm).
    apply existsb_exists in Hm. destruct Hm as (s' & Hs' & Hc).
    unfold confused in Hc.
    apply andb_true_iff in Hc as [Hc Hg]. apply andb_true_iff in Hc as [Hc Hl].
    apply andb_true_iff in Hc as [Hn Hn'].
    destruct (single_object (fst (jq (snd s)))) eqn:E1.
    2:{ apply existsb_exists. exists s. split; [exact Hs|]. rewrite Hn, E1. reflexivity. }
    destruct (single_object (fst (jq (snd s')))) eqn:E2.
    2:{ apply existsb_exists. exists s'. split; [exact Hs'|]. rewrite Hn', E2. reflexivity. }
    exfalso.
    pose proof (Hcan s Hs) as C1. pose proof (Hcan s' Hs') as C2.
    destruct (single_object_inv _ E1) as (m & Em). destruct (single_object_inv _ E2) as (m' & Em').
    rewrite Em in *. rewrite Em' in *.
    cbn [forallb canon_obj] in C1, C2. rewrite andb_true_r in C1, C2.
    apply json_eqb_eq in C1, C2, Hg.
    unfold glue in Hg. cbn [fold_left] in Hg. rewrite C1, C2 in Hg. rewrite Hg in Hl.
    rewrite (@list_eqb_refl _ json_eqb json_eqb_refl) in Hl. discriminate.
  Qed.

End WithOracle.

(* ---- a witness that the narrowed trigger leaves the multi-output case IN: the filter
   `.metadata.labels, .data` on an object without labels, data k: v -> w ---- *)
Definition k_k : bytes := [107]%N.
Definition k_data : bytes := [100; 97; 116; 97]%N.
Definition o_data (v : Z) : json := JObj [(k_data, JObj [(k_k, JNum v)])].
Definition jq_labels_data (o : json) : list json * bool :=
  match o with
  | JObj [(_, d)] => ([JNull; d], false)
  | _ => ([JNull; JNull], false)
  end.
Definition h_multi : list step := [(Added, 1%N, o_data 1); (Modified, 1%N, o_data 1); (Modified, 1%N, o_data 2)].

Lemma multi_hyp_met :
  T_F8 jq_labels_data true h_multi = true /\
  T_F8m jq_labels_data true h_multi = false /\ T_F16 jq_labels_data true h_multi = false /\
  map o_fired (model_obs jq_labels_data (mkConfig [Added; Modified; Deleted] true) h_multi)
  = [[Added]; []; [Modified]].
Proof. vm_compute. repeat split; reflexivity. Qed.
