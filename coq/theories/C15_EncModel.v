(* C15_EncModel.v — the conversion handler over hook outputs AS ENCODED, object by object.  NO proofs.

   C15_Model.obj is (identity, apiVersion): every object HAS a version.  What a hook writes into
   $CONVERSION_RESPONSE_PATH is JSON, and `convertedObjects` is a list of arbitrary JSON values
   (conversion.Response.ConvertedObjects []runtime.RawExtension - raw bytes, not looked into when the
   response file is decoded).  After every step conversionEventHandler (operator.go:389-397) calls
   conversion.ExtractAPIVersions(request.Objects) (handler.go:127-143), which decodes EVERY object on
   its own:

       for _, obj := range objs {
           var a metav1.TypeMeta                   // a fresh value per object
           _ = json.Unmarshal(obj.Raw, &a)         // encoding/json; the error is ignored
           if _, ok := verMap[a.APIVersion]; ok { continue }
           verMap[a.APIVersion] = struct{}{}
           res = append(res, a.APIVersion)
       }

   This file models an element of `convertedObjects` by what it says about its apiVersion (eobj),
   json.Unmarshal into a TypeMeta whose APIVersion field already holds something (unmarshal_into - the
   function is written with the previous content as an argument because that IS how Unmarshal works:
   it writes fields it finds and leaves the others), the extraction with its fresh value per object,
   and the handler of C15_Model (steps / event_handler / handle_review / serve) over such objects.

   A Go string that is an apiVersion is modelled by [astr]: a well-formed version (C15_Model.version),
   the empty string, or one of a family of malformed texts derived from a version (SBad k v: the k-th
   mangling of v's text - trailing '/', leading/trailing blank, upper case, leading '/': strings that
   are no version of the configuration and differ from one another; the harness writes them). *)
From Coq Require Import String.
From Verif Require Import Common C15_Model.

(* the content of a Go string holding an apiVersion *)
Inductive astr :=
| SVer (v : version)              (* "short" or "group/short" *)
| SEmpty                          (* "" *)
| SBad (k : N) (v : version).     (* the k-th malformed text made from v's text *)

(* the member `apiVersion` of a JSON object *)
Inductive afield :=
| AStr (s : astr)                 (* "apiVersion": "<s>" *)
| AMissing                        (* no such member *)
| ANull                           (* "apiVersion": null *)
| ANonString (k : N).             (* "apiVersion": <number | bool | object | array>, the k-th kind *)

(* one element of convertedObjects / request.objects *)
Inductive eobj :=
| EObj (id : N) (a : afield)      (* a JSON object; id = its metadata.name *)
| ENull                           (* the element null: RawExtension.UnmarshalJSON leaves Raw empty *)
| ENonObj (k : N).                (* a JSON value that is not an object (number, string, array), the k-th kind *)

Definition astr_eqb (a b : astr) : bool :=
  match a, b with
  | SVer v, SVer w => version_eqb v w
  | SEmpty, SEmpty => true
  | SBad k v, SBad j w => N.eqb k j && version_eqb v w
  | _, _ => false
  end.

(* json.Unmarshal(raw, &a) for a metav1.TypeMeta [a] whose APIVersion is [prev]: the field afterwards.
     object, member is a string   : the string is stored
     object, member missing       : nothing is stored
     object, member null          : "null ... has no effect" for a string
     object, member of another type: UnmarshalTypeError is remembered, the member is skipped
     null (Raw is empty)          : "unexpected end of JSON input", checked before anything is stored
     not an object                : UnmarshalTypeError, nothing is stored *)
Definition unmarshal_into (prev : astr) (o : eobj) : astr :=
  match o with
  | EObj _ (AStr s) => s
  | EObj _ AMissing | EObj _ ANull | EObj _ (ANonString _) => prev
  | ENull => prev
  | ENonObj _ => prev
  end.

(* `var a metav1.TypeMeta; _ = json.Unmarshal(obj.Raw, &a); a.APIVersion`: one fresh decoding per object *)
Definition api_version (o : eobj) : astr := unmarshal_into SEmpty o.

(* handler.go:127 ExtractAPIVersions: distinct apiVersion strings in order of first appearance *)
Fixpoint extract_e_from (seen : list astr) (objs : list eobj) : list astr :=
  match objs with
  | [] => []
  | o :: r =>
    let a := api_version o in
    if existsb (astr_eqb a) seen then extract_e_from seen r
    else a :: extract_e_from (a :: seen) r
  end.
Definition extract_e (objs : list eobj) : list astr := extract_e_from [] objs.

(* operator.go:392  len(newSourceVersions) == 1 && newSourceVersions[0] == request.DesiredAPIVersion *)
Definition is_done_e (desired : version) (objs : list eobj) : bool :=
  match extract_e objs with
  | [s] => astr_eqb s (SVer desired)
  | _ => false
  end.

(* what one hook execution produced (C15_Model.outcome over encoded objects) *)
Inductive eoutcome :=
| EExitFail
| EBadResponse
| ENoResponse
| EResp (msg : bytes) (objs : list eobj).

Definition einvocation := (rule * list eobj)%type.
Inductive estop := EStFailed (m : fmsg) | EStDone (objs : list eobj) | EStNotDone.

(* operator.go:348-397 (C15_Model.steps) *)
Fixpoint steps_e (desired : version) (chain : list rule) (outs : list eoutcome) (objs : list eobj)
  : list einvocation * estop :=
  match chain with
  | [] => ([], EStNotDone)
  | r :: rest =>
    match hd EExitFail outs with
    | EExitFail | EBadResponse => ([(r, objs)], EStFailed MHookFailed)
    | ENoResponse => ([(r, objs)], EStFailed MPropError)
    | EResp (c :: m) _ => ([(r, objs)], EStFailed (MHook (c :: m)))
    | EResp [] objs' =>
      if is_done_e desired objs' then ([(r, objs)], EStDone objs')
      else let '(t, s) := steps_e desired rest (tl outs) objs' in ((r, objs) :: t, s)
    end
  end.

Inductive eop_result :=
| EOpResponse (failedMessage : bytes) (objs : list eobj)
| EOpError (text : bytes).

(* operator.go:321-413 (C15_Model.event_handler).  [chain] is what FindConversionChain answers for the
   first source version of the request; faithful for requests whose objects decode to ONE source version
   (the property's domain): the loop over sourceVersions then has one round. *)
Definition event_handler_e (dtext : bytes) (desired : version) (chain : list rule) (outs : list eoutcome)
           (req : list eobj) : list einvocation * eop_result :=
  match extract_e req with
  | [] => ([], EOpResponse (msg_text dtext MNotSuccessful) [])
  | _ =>
    match steps_e desired chain outs req with
    | (t, EStFailed MPropError) => (t, EOpError (msg_text dtext MPropError))
    | (t, EStFailed m) => (t, EOpResponse (msg_text dtext m) [])
    | (t, EStDone objs) => (t, EOpResponse [] objs)
    | (t, EStNotDone) => (t, EOpResponse (msg_text dtext MNotSuccessful) [])
    end
  end.

Inductive ereview := ERSuccess (objs : list eobj) | ERFailure (message : bytes).

(* handler.go:92-117 (C15_Model.handle_review) *)
Definition handle_review_e (requested : nat) (r : eop_result) : ereview :=
  match r with
  | EOpError text => ERFailure text
  | EOpResponse (c :: m) _ => ERFailure (c :: m)
  | EOpResponse [] objs =>
    if N.eqb (N.of_nat requested) (N.of_nat (length objs)) then ERSuccess objs
    else ERFailure (msg_text [] (MCount (N.of_nat (length objs)) (N.of_nat requested)))
  end.

(* one ConversionReview served *)
Definition serve_e (dtext : bytes) (desired : version) (chain : list rule) (outs : list eoutcome) (req : list eobj)
  : list einvocation * ereview :=
  let '(t, r) := event_handler_e dtext desired chain outs req in (t, handle_review_e (length req) r).

(* a request object as the API server sends it: an object with a well-formed apiVersion *)
Definition wf (o : obj) : eobj := EObj (fst o) (AStr (SVer (snd o))).
