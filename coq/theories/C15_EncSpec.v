(* C15_EncSpec.v — "applied step by step" (C15_Spec part 2) for hook outputs as they are ENCODED, written
   from the property text only:

     "The hooks are invoked in chain order, each receiving the previous output; the answer is Success
      with as many objects as were requested only if every step succeeded, otherwise it is Failed - with
      the failing hook's own message when it gave one - and no later step is run."  and
     "served by a sequence of declared rules that starts at A, ends at B".

   The request asks for objects at version B (desiredAPIVersion).  An element of a step's output IS at
   the desired version when it is an object whose `apiVersion` is a string naming exactly that version.
   An element without an apiVersion - the member is missing, null, "", not a string; the element is
   null or no object at all - or with a text that is no version is NOT at the desired version, wherever
   it stands in the list and whatever stands before it.  So:
     - Success carries the last executed step's output, as many objects as requested, EVERY one of them
       at the desired version;
     - the chain is served to its end: a step whose output holds an element that is not at the desired
       version is followed by the next rule of the chain (it "receives the previous output", elements
       as they are), unless it was the last rule - then the answer is Failed.
   Only the data types of C15_EncModel (astr, afield, eobj, eoutcome, ereview) are used, none of its
   functions. *)
From Verif Require Import Common C15_Model C15_Spec C15_EncModel.

(* the element is an object whose apiVersion is the string that names [desired] *)
Definition at_desired (desired : version) (o : eobj) : bool :=
  match o with
  | EObj _ (AStr (SVer v)) => version_eqb v desired
  | _ => false
  end.

Definition all_at_e (desired : version) (objs : list eobj) : bool :=
  match objs with [] => false | _ => forallb (at_desired desired) objs end.

(* the same element: same identity, same encoding of the apiVersion *)
Definition sver_eqb (a b : astr) : bool :=
  match a, b with
  | SVer v, SVer w => version_eqb v w
  | SEmpty, SEmpty => true
  | SBad k v, SBad j w => N.eqb k j && version_eqb v w
  | _, _ => false
  end.
Definition afield_eqb (a b : afield) : bool :=
  match a, b with
  | AStr s, AStr t => sver_eqb s t
  | AMissing, AMissing | ANull, ANull => true
  | ANonString k, ANonString j => N.eqb k j
  | _, _ => false
  end.
Definition eobj_eqb (a b : eobj) : bool :=
  match a, b with
  | EObj i x, EObj j y => N.eqb i j && afield_eqb x y
  | ENull, ENull => true
  | ENonObj k, ENonObj j => N.eqb k j
  | _, _ => false
  end.
Definition eobjs_eqb : list eobj -> list eobj -> bool := list_eqb eobj_eqb.

Definition ok_out_e (o : eoutcome) : option (list eobj) :=
  match o with EResp [] objs => Some objs | _ => None end.
Definition is_ok_e (o : eoutcome) : bool := match ok_out_e o with Some _ => true | None => false end.

(* hooks are invoked in chain order *)
Definition in_order_e (chain : list rule) (trace : list einvocation) : bool :=
  list_eqb rule_eqb (map fst trace) (firstn (length trace) chain).

(* each receives the previous output, element for element; a step runs only if every earlier one succeeded *)
Fixpoint feeds_e (cur : list eobj) (outs : list eoutcome) (trace : list einvocation) : bool :=
  match trace with
  | [] => true
  | (_, input) :: rest =>
    eobjs_eqb input cur &&
    match rest with
    | [] => true
    | _ => match ok_out_e (hd EExitFail outs) with
           | Some objs' => feeds_e objs' (tl outs) rest
           | None => false
           end
    end
  end.

Definition last_out_e (outs : list eoutcome) (trace : list einvocation) : eoutcome :=
  nth (length trace - 1) outs EExitFail.

Definition verdict_ok_e (desired : version) (chain : list rule) (outs : list eoutcome) (req : list eobj)
           (trace : list einvocation) (ans : ereview) : bool :=
  match trace with
  | [] =>
    match ans with ERFailure _ => match chain, req with [], _ | _, [] => true | _, _ => false end | ERSuccess _ => false end
  | _ =>
    match last_out_e outs trace with
    | EResp [] objs =>
      match ans with
      | ERSuccess res =>
        eobjs_eqb res objs && N.eqb (N.of_nat (length res)) (N.of_nat (length req)) && all_at_e desired res
      | ERFailure _ =>
        negb (all_at_e desired objs && N.eqb (N.of_nat (length objs)) (N.of_nat (length req)))
      end
    | EResp m _ =>
      match ans with ERFailure message => bytes_eqb message m | ERSuccess _ => false end
    | _ => match ans with ERFailure _ => true | ERSuccess _ => false end
    end
  end.

(* the chain is not abandoned while its steps succeed: if the last invoked step succeeded and its output
   holds an element that is not at the desired version, it was the last rule of the chain *)
Definition runs_to_end_e (desired : version) (chain : list rule) (outs : list eoutcome)
           (trace : list einvocation) : bool :=
  match trace with
  | [] => true
  | _ => match last_out_e outs trace with
         | EResp [] objs => all_at_e desired objs || Nat.eqb (length trace) (length chain)
         | _ => true
         end
  end.

Definition P_enc (desired : version) (chain : list rule) (outs : list eoutcome) (req : list eobj)
           (trace : list einvocation) (ans : ereview) : bool :=
  in_order_e chain trace
  && feeds_e req outs trace
  && runs_to_end_e desired chain outs trace
  && verdict_ok_e desired chain outs req trace ans
  && (match chain, req with _ :: _, _ :: _ => nonempty trace | _, _ => true end).
