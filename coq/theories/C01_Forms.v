(* C01_Forms.v — the FORM in which client-go hands a change to the informer's handlers
   (seeded change C01-6), for the informer-level class of C01_Model.

   OnAdd / OnUpdate receive the object ( *unstructured.Unstructured ).  OnDelete receives the
   object when the deletion came through the watch, and a cache.DeletedFinalStateUnknown
   tombstone BY VALUE - {Key, Obj}: the key of the vanished store entry and the last state the
   shared informer's store held - when the deletion was found out by a RELIST after a broken
   watch.  client-go v0.30.11, tools/cache/delta_fifo.go, Replace: both places queue
       f.queueActionLocked(Deleted, DeletedFinalStateUnknown{k, deletedObj})
   - a value; processDeltas, sharedIndexInformer.OnDelete and the processorListener pass it on
   untouched.  A POINTER to a tombstone is never produced, no other callback ever gets a
   tombstone, and the carried object is nil only when the informer's own store contradicts
   itself (ListKeys names a key GetByKey does not find; both run under the FIFO's lock).

   The head of handleWatchEvent (resource_informer.go):
       if staleObj, stale := object.(cache.DeletedFinalStateUnknown); stale { object = staleObj.Obj }
       obj := object.( *unstructured.Unstructured )
   replaces the tombstone by the object it carries; the tombstone's Key is not looked at, the
   identity is the carried object's (resourceId(obj)).  From there on the handler is the one of
   C01_Model (W1, the mark, W23).  No proofs here. *)
From Verif Require Import Common C01_Model.
Open Scope N_scope.

Inductive harg :=
| AObj (oid proj : N)                  (* the object itself *)
| ATomb (key : N) (oid proj : N).      (* DeletedFinalStateUnknown{Key, Obj}, by value *)
Record delivery := mkDl { dl_kind : wkind; dl_arg : harg }.

(* the head of the handler: what the rest of handleWatchEvent works on *)
Definition head (d : delivery) : change :=
  match dl_arg d with
  | AObj o p => mkCh o (dl_kind d) p
  | ATomb _ o p => mkCh o (dl_kind d) p
  end.

Record finput := mkFIn { f_types : list wkind; f_dels : list delivery; f_ops : list op }.

(* the informer sees the deliveries through the head of its handler *)
Definition model_input (fi : finput) : input := mkIn (f_types fi) (map head (f_dels fi)) (f_ops fi).
Definition run_forms (fi : finput) : state := run (model_input fi).
