(* C13_Corr.v — correspondence vocabulary for C13.  A case is an initial cluster and a
   stream of documents together with what the implementation did on the JSON rendering
   and on the YAML rendering of that stream, and whether both renderings parsed to the
   same operations (class KRun).  A second class, KSession, is a session of several
   executions through one ObjectPatcher on a cluster that serves kinds in several API
   groups (C13_GModel / C13_GSpec).  Evaluated by vm_compute in the generated cases files. *)
From Coq Require Import String.
From Verif Require Import Common Json C13_Model C13_Spec C13_GModel C13_GSpec C13_CModel C13_CSpec C13_TModel C13_TSpec.

Record run_obs := mkRun {
  ro_parse_ok : bool;
  ro_calls    : list call;
  ro_errors   : list err;
  ro_cluster  : cluster;       (* projected objects, sorted by key *)
  ro_crash    : bool           (* the implementation panicked *)
}.

(* a whole hook run through the operator's own task handler *)
Inductive op_status := OSuccess | OFail | OOther.
Record op_run := mkOpRun {
  or_status  : op_status;
  or_calls   : list call;
  or_cluster : cluster
}.

Record run_case := mkCase {
  k_initial    : cluster;      (* full objects, sorted by key *)
  k_docs       : list doc;
  k_json       : run_obs;
  k_yaml       : run_obs;
  k_same_ops   : bool;         (* both renderings parsed to the same operations (numbers normalised) *)
  k_same_typed : bool;         (* ... including the Go type of every scalar *)
  k_operator   : option op_run (* sampled: the same stream through ShellOperator.taskHandler *)
}.

(* what is observed of an object: metadata.{annotations,labels,name,namespace} and data *)
Definition keep (ks : list bytes) (j : json) : json :=
  match j with
  | JObj m => JObj (filter (fun kv => existsb (bytes_eqb (fst kv)) ks) m)
  | _ => j
  end.

Definition project (o : json) : json :=
  match keep [B "data"; B "metadata"] o with
  | JObj m => JObj (map (fun kv => if bytes_eqb (fst kv) (B "metadata")
                                   then (fst kv, keep [B "annotations"; B "labels"; B "name"; B "namespace"] (snd kv))
                                   else kv) m)
  | j => j
  end.


Definition verb_eqb (a b : verb) : bool :=
  match a, b with
  | VCreate, VCreate | VGet, VGet | VUpdate, VUpdate | VPatch, VPatch | VDelete, VDelete => true
  | _, _ => false
  end.
Definition call_eqb (a b : call) : bool :=
  verb_eqb (fst (fst a)) (fst (fst b)) && bytes_eqb (snd (fst a)) (snd (fst b)) && bytes_eqb (snd a) (snd b).

Definition model_obs_run (c : run_case) : run_obs :=
  let r := handle_run (k_initial c) (k_docs c) in
  mkRun (r_parse_ok r) (r_calls r) (r_errors r) (view project (r_cluster r)) false.

Definition cluster_eqb (a b : cluster) : bool := list_eqb (pair_eqb bytes_eqb json_eqb) a b.

Definition run_eqb (a b : run_obs) : bool :=
  Bool.eqb (ro_parse_ok a) (ro_parse_ok b)
  && list_eqb call_eqb (ro_calls a) (ro_calls b)
  && list_eqb err_eqb (ro_errors a) (ro_errors b)
  && cluster_eqb (ro_cluster a) (ro_cluster b)
  && Bool.eqb (ro_crash a) (ro_crash b).

Definition status_eqb (a b : op_status) : bool :=
  match a, b with OSuccess, OSuccess | OFail, OFail | OOther, OOther => true | _, _ => false end.

Definition operator_agrees (c : run_case) : bool :=
  match k_operator c with
  | None => true
  | Some o =>
    let r := handle_run (k_initial c) (k_docs c) in
    status_eqb (or_status o) (if failed r then OFail else OSuccess)
    && list_eqb call_eqb (or_calls o) (r_calls r)
    && cluster_eqb (or_cluster o) (view project (r_cluster r))
  end.

(* the model agrees with both renderings and with the operator run, and both renderings
   parsed to identical operations *)
Definition agrees_run (c : run_case) : bool :=
  run_eqb (model_obs_run c) (k_json c) && run_eqb (model_obs_run c) (k_yaml c) && k_same_ops c && k_same_typed c
  && operator_agrees c.

Definition outcome_of (r : run_obs) : outcome :=
  mkOutcome (ro_parse_ok r) (ro_cluster r) (ro_calls r) (ro_errors r).

(* the observed clusters are already projected; [project] is idempotent *)
Definition spec_ok_run (c : run_case) : bool :=
  negb (ro_crash (k_json c)) && negb (ro_crash (k_yaml c))
  && P_run project (k_initial c) (k_docs c) (outcome_of (k_json c))
  && P_run project (k_initial c) (k_docs c) (outcome_of (k_yaml c))
  && k_same_ops c
  && match k_operator c with
     | None => true
     | Some o =>
       match or_status o with
       | OOther => false
       | st => P_hook_run project (k_initial c) (k_docs c) (status_eqb st OFail) (or_cluster o) (or_calls o)
       end
     end.

(* ---------- sessions on a cluster that serves kinds in several groups ---------- *)

(* a session: the cluster's discovery (groupVersion, kinds; in discovery order), the
   initial cluster (keys "groupVersion|Kind/namespace/name"), one list of documents per
   execution, and per rendering what every execution showed - all executions of one
   rendering through ONE ObjectPatcher against one cluster *)
Record session_case := mkSession {
  s_disc       : discovery;
  s_initial    : cluster;
  s_files      : list (list gdoc);
  s_json       : list run_obs;
  s_yaml       : list run_obs;
  s_same_ops   : bool;
  s_same_typed : bool;
  s_operator   : option (list op_run)  (* sampled: the executions as hook runs of one operator *)
}.

Definition obs_of_outcome (r : outcome) : run_obs :=
  mkRun (r_parse_ok r) (r_calls r) (r_errors r) (view project (r_cluster r)) false.

Definition model_obs_session (c : session_case) : list run_obs :=
  map obs_of_outcome (ghandle_runs (s_disc c) (s_initial c) (s_files c)).

Definition op_run_agrees (o : op_run) (r : outcome) : bool :=
  status_eqb (or_status o) (if failed r then OFail else OSuccess)
  && list_eqb call_eqb (or_calls o) (r_calls r)
  && cluster_eqb (or_cluster o) (view project (r_cluster r)).

Fixpoint all2 {A B} (f : A -> B -> bool) (a : list A) (b : list B) : bool :=
  match a, b with
  | [], [] => true
  | x :: a', y :: b' => f x y && all2 f a' b'
  | _, _ => false
  end.

Definition agrees_session (c : session_case) : bool :=
  list_eqb run_eqb (model_obs_session c) (s_json c) && list_eqb run_eqb (model_obs_session c) (s_yaml c)
  && s_same_ops c && s_same_typed c
  && match s_operator c with
     | None => true
     | Some os => all2 op_run_agrees os (ghandle_runs (s_disc c) (s_initial c) (s_files c))
     end.

Definition no_crash (rs : list run_obs) : bool := forallb (fun r => negb (ro_crash r)) rs.

Definition spec_ok_session (c : session_case) : bool :=
  no_crash (s_json c) && no_crash (s_yaml c)
  && P_gsession project (s_disc c) (s_initial c) (s_files c) (map outcome_of (s_json c))
  && P_gsession project (s_disc c) (s_initial c) (s_files c) (map outcome_of (s_yaml c))
  && s_same_ops c
  && match s_operator c with
     | None => true
     | Some os =>
       forallb (fun o => negb (status_eqb (or_status o) OOther)) os
       && P_ghook_session project (s_disc c) (s_initial c) (s_files c)
            (map (fun o => (status_eqb (or_status o) OFail, or_cluster o, or_calls o)) os)
     end.

(* ---------- another writer on the cluster (C13_CModel / C13_CSpec) ---------- *)

(* one execution; [cc_queues]: per document the writes the other writer has ready for the
   document's object; per rendering what the execution showed and, per document, how many
   of those writes happened *)
Record conc_case := mkConc {
  cc_initial    : cluster;
  cc_docs       : list doc;
  cc_queues     : list (list write);
  cc_json       : run_obs;
  cc_json_used  : list nat;
  cc_yaml       : run_obs;
  cc_yaml_used  : list nat;
  cc_same_ops   : bool;
  cc_same_typed : bool
}.

Definition model_conc (c : conc_case) : run_obs * list nat :=
  match chandle_run (cc_initial c) (cc_docs c) (cc_queues c) with
  | (r, ms) => (obs_of_outcome r, ms)
  end.

Definition agrees_conc (c : conc_case) : bool :=
  run_eqb (fst (model_conc c)) (cc_json c) && list_eqb Nat.eqb (snd (model_conc c)) (cc_json_used c)
  && run_eqb (fst (model_conc c)) (cc_yaml c) && list_eqb Nat.eqb (snd (model_conc c)) (cc_yaml_used c)
  && cc_same_ops c && cc_same_typed c.

Definition spec_ok_conc (c : conc_case) : bool :=
  negb (ro_crash (cc_json c)) && negb (ro_crash (cc_yaml c))
  && P_conc attempts project (cc_initial c) (cc_docs c) (cc_queues c) (outcome_of (cc_json c)) (cc_json_used c)
  && P_conc attempts project (cc_initial c) (cc_docs c) (cc_queues c) (outcome_of (cc_yaml c)) (cc_yaml_used c)
  && cc_same_ops c.

(* ---------- patch files as text (C13_TModel / C13_TSpec) ---------- *)

(* one execution of a patch file given as text: how the text is built ([t_shape]: JSON
   documents with the white space in front of each, and the tail), what the generator's
   document texts mean, what yaml.v3 makes of the whole text (None = error; judged by a
   decoder loop of the harness's own), and what the real ParseOperations + ExecuteOperations
   showed.  The text the implementation ran on is [text_of (t_shape c)]. *)
Record text_case := mkText {
  t_initial  : cluster;
  t_shape    : shape;
  t_table    : table;
  t_yaml     : option (list doc);
  t_obs      : run_obs;
  t_operator : option op_run
}.

Definition model_text_outcome (c : text_case) : outcome :=
  handle_text_run (t_initial c) (t_table c) (t_yaml c) (text_of (t_shape c)).
Definition model_text (c : text_case) : run_obs := obs_of_outcome (model_text_outcome c).

(* [shape_ok]: the generator's description of the text is honest (a tail it calls broken
   really is no JSON) - a case that fails this is reported, never judged *)
Definition agrees_text (c : text_case) : bool :=
  shape_ok (t_shape c)
  && run_eqb (model_text c) (t_obs c)
  && match t_operator c with
     | None => true
     | Some o => op_run_agrees o (model_text_outcome c)
     end.

Definition spec_ok_text (c : text_case) : bool :=
  negb (ro_crash (t_obs c))
  && P_text project (t_initial c) (t_table c) (t_yaml c) (t_shape c) (outcome_of (t_obs c))
  && match t_operator c with
     | None => true
     | Some o =>
       match or_status o with
       | OOther => false
       | st => P_text_hook project (t_initial c) (t_table c) (t_yaml c) (t_shape c) (status_eqb st OFail) (or_cluster o) (or_calls o)
       end
     end.

(* ---------- the four case classes ---------- *)

Inductive case := KRun (c : run_case) | KSession (c : session_case) | KConc (c : conc_case) | KText (c : text_case).

Definition model_obs (c : case) : list run_obs :=
  match c with KRun r => [model_obs_run r] | KSession s => model_obs_session s | KConc k => [fst (model_conc k)]
          | KText t => [model_text t] end.
Definition agrees (c : case) : bool :=
  match c with KRun r => agrees_run r | KSession s => agrees_session s | KConc k => agrees_conc k | KText t => agrees_text t end.
Definition spec_ok (c : case) : bool :=
  match c with KRun r => spec_ok_run r | KSession s => spec_ok_session s | KConc k => spec_ok_conc k | KText t => spec_ok_text t end.

Definition mismatches (cs : list case) : list N := indices_where (fun c => negb (agrees c)) cs.
Definition spec_violations (cs : list case) : list N := indices_where (fun c => negb (spec_ok c)) cs.
