(* C05_Proofs.v — the model of TaskQueue refines an ordinary list. *)
From Verif Require Import Common C05_Model C05_Spec.

Lemma task_eqb_eq x y : task_eqb x y = true <-> x = y.
Proof. apply pair_eqb_eq; apply N.eqb_eq. Qed.
Lemma task_eqb_refl x : task_eqb x x = true.
Proof. now apply task_eqb_eq. Qed.
Lemma tasks_eqb_refl l : tasks_eqb l l = true.
Proof. apply list_eqb_refl, task_eqb_refl. Qed.
Lemma otask_eqb_refl o : otask_eqb o o = true.
Proof. destruct o; simpl; [apply task_eqb_refl | reflexivity]. Qed.
Lemma tasks_eqb_eq a b : tasks_eqb a b = true <-> a = b.
Proof. apply list_eqb_eq, task_eqb_eq. Qed.
Lemma task_eqb_neq x y : task_eqb x y = false <-> x <> y.
Proof.
  split; intros H.
  - intros E; apply task_eqb_eq in E; congruence.
  - destruct (task_eqb x y) eqn:E; [apply task_eqb_eq in E; contradiction | reflexivity].
Qed.

(* ---- split_id characterises the by-id loops ---- *)

Lemma split_id_some id l a x b :
  split_id id l = Some (a, x, b) ->
  l = a ++ x :: b /\ tid x = id /\ Forall (fun y => tid y <> id) a.
Proof.
  revert a x b; induction l as [|y l IH]; intros a x b H; simpl in H; [discriminate|].
  destruct (N.eqb (tid y) id) eqn:E.
  - inversion H; subst. apply N.eqb_eq in E. repeat split; auto.
  - destruct (split_id id l) as [[[a' x'] b']|] eqn:S; [|discriminate].
    inversion H; subst. destruct (IH _ _ _ eq_refl) as (-> & Hx & Ha).
    apply N.eqb_neq in E. repeat split; auto.
Qed.

Lemma split_id_none id l : split_id id l = None -> Forall (fun y => tid y <> id) l.
Proof.
  induction l as [|y l IH]; intros H; simpl in H; [constructor|].
  destruct (N.eqb (tid y) id) eqn:E; [discriminate|].
  destruct (split_id id l) as [[[a' x'] b']|] eqn:S; [discriminate|].
  constructor; [now apply N.eqb_neq | auto].
Qed.

Lemma split_id_app id a x b :
  Forall (fun y => tid y <> id) a -> tid x = id -> split_id id (a ++ x :: b) = Some (a, x, b).
Proof.
  intros Ha Hx; induction Ha as [|y a Hy Ha IH]; simpl.
  - subst; now rewrite N.eqb_refl.
  - apply N.eqb_neq in Hy; rewrite Hy, IH; reflexivity.
Qed.

Lemma split_id_none_iff id l : Forall (fun y => tid y <> id) l -> split_id id l = None.
Proof.
  intros H; induction H as [|y l Hy _ IH]; simpl; [reflexivity|].
  apply N.eqb_neq in Hy; now rewrite Hy, IH.
Qed.

Lemma add_after_some id t l a x b :
  split_id id l = Some (a, x, b) -> add_after id t l = a ++ x :: t :: b.
Proof.
  revert a x b; induction l as [|y l IH]; intros a x b H; simpl in *; [discriminate|].
  destruct (N.eqb (tid y) id); [inversion H; reflexivity|].
  destruct (split_id id l) as [[[a' x'] b']|]; [|discriminate].
  inversion H; subst; simpl; f_equal; auto.
Qed.

Lemma add_after_none id t l : split_id id l = None -> add_after id t l = l ++ [t].
Proof.
  induction l as [|y l IH]; intros H; simpl in *; [reflexivity|].
  destruct (N.eqb (tid y) id); [discriminate|].
  destruct (split_id id l) as [[[a' x'] b']|]; [discriminate|]. f_equal; auto.
Qed.

Lemma add_before_some id t l a x b :
  split_id id l = Some (a, x, b) -> add_before id t l = a ++ t :: x :: b.
Proof.
  revert a x b; induction l as [|y l IH]; intros a x b H; simpl in *; [discriminate|].
  destruct (N.eqb (tid y) id); [inversion H; reflexivity|].
  destruct (split_id id l) as [[[a' x'] b']|]; [|discriminate].
  inversion H; subst; simpl; f_equal; auto.
Qed.

Lemma add_before_none id t l : split_id id l = None -> add_before id t l = l ++ [t].
Proof.
  induction l as [|y l IH]; intros H; simpl in *; [reflexivity|].
  destruct (N.eqb (tid y) id); [discriminate|].
  destruct (split_id id l) as [[[a' x'] b']|]; [discriminate|]. f_equal; auto.
Qed.

Lemma remove_some id l a x b :
  split_id id l = Some (a, x, b) -> remove id l = (Some x, a ++ b).
Proof.
  revert a x b; induction l as [|y l IH]; intros a x b H; simpl in *; [discriminate|].
  destruct (N.eqb (tid y) id); [inversion H; reflexivity|].
  destruct (split_id id l) as [[[a' x'] b']|]; [|discriminate].
  inversion H; subst. rewrite (IH _ _ _ eq_refl). reflexivity.
Qed.

Lemma remove_none id l : split_id id l = None -> remove id l = (None, l).
Proof.
  induction l as [|y l IH]; intros H; simpl in *; [reflexivity|].
  destruct (N.eqb (tid y) id); [discriminate|].
  destruct (split_id id l) as [[[a' x'] b']|]; [discriminate|]. now rewrite IH.
Qed.

Lemma get_find id l : get id l = find_id id l.
Proof.
  unfold find_id; induction l as [|y l IH]; simpl; [reflexivity|].
  destruct (N.eqb (tid y) id); [reflexivity|].
  rewrite IH. destruct (split_id id l) as [[[a' x'] b']|]; reflexivity.
Qed.

Lemma is_insertion_end t l : is_insertion t l (l ++ [t]) = true.
Proof.
  induction l as [|x l IH]; simpl.
  - now rewrite task_eqb_refl.
  - rewrite task_eqb_refl, IH. simpl. now rewrite orb_true_r.
Qed.

Lemma rev_cons_inv (l : list task) x r : rev l = x :: r -> l = rev r ++ [x].
Proof. intros H. rewrite <- (rev_involutive l), H. reflexivity. Qed.

(* ---- result application ---- *)

Lemma fold_add_first (h l : list task) : fold_left (fun acc x => x :: acc) (rev h) l = h ++ l.
Proof.
  revert l; induction h as [|x h IH]; intros l; [reflexivity|].
  simpl. rewrite fold_left_app. simpl. now rewrite IH.
Qed.

Lemma fold_add_last (t l : list task) : fold_left (fun acc x => acc ++ [x]) t l = l ++ t.
Proof.
  revert l; induction t as [|x t IH]; intros l; simpl; [now rewrite app_nil_r|].
  rewrite IH, <- app_assoc. reflexivity.
Qed.

(* after-tasks in reverse, each right after the anchor: they end up in order *)
Lemma fold_add_after_present id a l1 p l2 :
  Forall (fun y => tid y <> id) l1 -> tid p = id ->
  fold_left (fun acc x => add_after id x acc) (rev a) (l1 ++ p :: l2) = l1 ++ p :: a ++ l2.
Proof.
  intros H1 Hp. induction a as [|x a IH]; [reflexivity|].
  simpl. rewrite fold_left_app, IH. simpl.
  apply add_after_some, split_id_app; assumption.
Qed.

(* anchor absent and no after-task carries the id: each one is appended *)
Lemma fold_add_after_absent id a l :
  Forall (fun y => tid y <> id) l -> Forall (fun y => tid y <> id) a ->
  fold_left (fun acc x => add_after id x acc) a l = l ++ a.
Proof.
  revert l; induction a as [|x a IH]; intros l Hl Ha; simpl; [now rewrite app_nil_r|].
  inversion Ha; subst.
  rewrite add_after_none by (now apply split_id_none_iff).
  rewrite IH; [now rewrite <- app_assoc | | assumption].
  apply Forall_app; split; [assumption | constructor; [assumption | constructor]].
Qed.

Lemma split_task_of_split_id p l a b :
  split_id (tid p) l = Some (a, p, b) -> split_task p l = Some (a, b).
Proof.
  intros H. apply split_id_some in H as (-> & _ & Ha).
  induction Ha as [|y a Hy Ha IH]; simpl.
  - now rewrite task_eqb_refl.
  - destruct (task_eqb y p) eqn:E; [apply task_eqb_eq in E; subst; contradiction|].
    now rewrite IH.
Qed.

Lemma split_task_none p l : Forall (fun y => tid y <> tid p) l -> split_task p l = None.
Proof.
  intros H; induction H as [|y l Hy _ IH]; simpl; [reflexivity|].
  destruct (task_eqb y p) eqn:E; [apply task_eqb_eq in E; subst; contradiction|].
  now rewrite IH.
Qed.

Lemma strip_prefix_app h l : strip_prefix h (h ++ l) = Some l.
Proof. induction h as [|x h IH]; simpl; [reflexivity|]. now rewrite task_eqb_refl. Qed.

Lemma strip_suffix_app t l : strip_suffix t (l ++ t) = Some l.
Proof. unfold strip_suffix. now rewrite rev_app_distr, strip_prefix_app, rev_involutive. Qed.

Lemma subseq_app_r l r : subseq l (l ++ r) = true.
Proof.
  induction l as [|x l IH]; simpl; [destruct r; reflexivity|]. now rewrite task_eqb_refl.
Qed.

Lemma count_task_app x a b : count_task x (a ++ b) = count_task x a + count_task x b.
Proof. unfold count_task. now rewrite filter_app, app_length. Qed.

Lemma count_task_rev x a : count_task x (rev a) = count_task x a.
Proof.
  unfold count_task. induction a as [|y a IH]; [reflexivity|].
  simpl. rewrite filter_app, app_length, IH. simpl.
  destruct (task_eqb x y); simpl; lia.
Qed.

Lemma multi_ins_append a l : multi_ins a l (l ++ rev a) = true.
Proof.
  unfold multi_ins. rewrite subseq_app_r, andb_true_r.
  unfold same_multiset. apply forallb_forall. intros x _.
  apply Nat.eqb_eq. rewrite !count_task_app, count_task_rev. lia.
Qed.

Lemma same_multiset_intro m r : (forall x, count_task x m = count_task x r) -> same_multiset m r = true.
Proof. intros H. unfold same_multiset. apply forallb_forall. intros x _. now apply Nat.eqb_eq. Qed.

Lemma subseq_refl l : subseq l l = true.
Proof. rewrite <- (app_nil_r l) at 2. apply subseq_app_r. Qed.

Lemma count_add_after x id t m : count_task x (add_after id t m) = count_task x (t :: m).
Proof.
  induction m as [|y m IH]; [reflexivity|].
  simpl. destruct (N.eqb (tid y) id).
  - unfold count_task. simpl. destruct (task_eqb x y), (task_eqb x t); simpl; lia.
  - unfold count_task in *. simpl in *. destruct (task_eqb x y), (task_eqb x t); simpl in *; lia.
Qed.

Lemma subseq_tail x l0 m : subseq (x :: l0) m = true -> subseq l0 m = true.
Proof.
  revert x l0; induction m as [|y m IH]; intros x l0 H; [discriminate|].
  simpl in H. destruct (task_eqb x y).
  - destruct l0 as [|z l0]; [reflexivity|]. simpl.
    destruct (task_eqb z y); [now apply IH with z | assumption].
  - destruct l0 as [|z l0]; [reflexivity|]. simpl.
    destruct (task_eqb z y); [apply IH with z; now apply IH with x | now apply IH with x].
Qed.

Lemma subseq_skip y l0 m : subseq l0 m = true -> subseq l0 (y :: m) = true.
Proof.
  intros H. destruct l0 as [|x l0]; [reflexivity|]. simpl.
  destruct (task_eqb x y); [now apply subseq_tail with x | assumption].
Qed.

Lemma subseq_add_after id t m l0 : subseq l0 m = true -> subseq l0 (add_after id t m) = true.
Proof.
  revert l0; induction m as [|y m IH]; intros l0 H.
  - destruct l0; [reflexivity | discriminate].
  - simpl. destruct (N.eqb (tid y) id).
    + destruct l0 as [|x l0]; [reflexivity|]. simpl in H.
      change (subseq (x :: l0) (y :: t :: m))
        with (if task_eqb x y then subseq l0 (t :: m) else subseq (x :: l0) (t :: m)).
      destruct (task_eqb x y); apply subseq_skip; assumption.
    + destruct l0 as [|x l0]; [reflexivity|]. simpl in *.
      destruct (task_eqb x y); now apply IH.
Qed.

Lemma fold_add_after_count id a m z :
  count_task z (fold_left (fun acc x => add_after id x acc) a m) = count_task z (a ++ m).
Proof.
  revert m; induction a as [|x a IH]; intros m; [reflexivity|].
  simpl. rewrite IH, !count_task_app, count_add_after.
  change (count_task z (x :: a ++ m)) with (count_task z ([x] ++ (a ++ m))).
  change (count_task z (x :: m)) with (count_task z ([x] ++ m)).
  rewrite !count_task_app. lia.
Qed.

Lemma fold_add_after_subseq id a m l0 :
  subseq l0 m = true -> subseq l0 (fold_left (fun acc x => add_after id x acc) a m) = true.
Proof.
  revert m; induction a as [|x a IH]; intros m H; [assumption|].
  simpl. apply IH, subseq_add_after, H.
Qed.

(* ---- one step of the model follows the ordinary-list rule ---- *)

Lemma step_simple_spec s o :
  trigger_step s o = false -> (forall k c, o <> FilterDuring k c) ->
  spec_simple (items s) (running s) o (items (fst (step_simple s o))) (snd (step_simple s o)) = true.
Proof.
  intros HT HF. destruct s as [l st run].
  destruct o; cbn [step_simple spec_simple fst snd items running started] in *.
  9:{ exfalso. eapply HF. reflexivity. }
  - (* AddFirst *) now rewrite tasks_eqb_refl, otask_eqb_refl.
  - (* AddLast *) now rewrite tasks_eqb_refl, otask_eqb_refl.
  - (* AddAfter *)
    rewrite otask_eqb_refl. cbn [andb].
    destruct (split_id id l) as [[[a x] b]|] eqn:S.
    + erewrite add_after_some by exact S. apply tasks_eqb_refl.
    + erewrite add_after_none by exact S. apply is_insertion_end.
  - (* AddBefore *)
    rewrite otask_eqb_refl. cbn [andb].
    destruct (split_id id l) as [[[a x] b]|] eqn:S.
    + erewrite add_before_some by exact S. apply tasks_eqb_refl.
    + erewrite add_before_none by exact S. apply is_insertion_end.
  - (* Remove *)
    destruct (split_id id l) as [[[a x] b]|] eqn:S.
    + erewrite remove_some by exact S. cbn [fst snd items]. now rewrite tasks_eqb_refl, otask_eqb_refl.
    + erewrite remove_none by exact S. cbn [fst snd items]. now rewrite tasks_eqb_refl, otask_eqb_refl.
  - (* RemoveFirst *)
    destruct l as [|x r]; cbn [fst snd items]; now rewrite tasks_eqb_refl, otask_eqb_refl.
  - (* RemoveLast *)
    destruct l as [|x r] eqn:El; [reflexivity|]. rewrite <- El.
    assert (Hne : l <> []) by (subst; discriminate).
    destruct (rev l) as [|y r'] eqn:R.
    { exfalso. apply Hne. rewrite <- (rev_involutive l), R. reflexivity. }
    cbn [fst snd items]. unfold last_opt. rewrite R. cbn [hd_error].
    apply rev_cons_inv in R. rewrite R. rewrite removelast_last.
    now rewrite tasks_eqb_refl, otask_eqb_refl.
  - (* Filter *) now rewrite tasks_eqb_refl, otask_eqb_refl.
  - (* Start *) now rewrite tasks_eqb_refl, otask_eqb_refl.
  - (* Return *)
    destruct run as [p|]; cbn [fst snd items]; rewrite otask_eqb_refl; cbn [andb];
      [|now rewrite tasks_eqb_refl].
    destruct st0; cbn [fst snd items apply_result trigger_step running items] in *; try now rewrite tasks_eqb_refl.
    + (* Success *)
      destruct (find_id (tid p) l) as [q|] eqn:F.
      * unfold find_id in F. destruct (split_id (tid p) l) as [[[l1 x] l2]|] eqn:S; [|discriminate].
        inversion F; subst x. rewrite andb_true_r in HT. apply negb_false_iff, task_eqb_eq in HT; subst q.
        erewrite split_task_of_split_id by exact S.
        destruct (split_id_some _ _ _ _ _ S) as (-> & _ & H1).
        rewrite fold_add_after_present by auto.
        assert (S2 : split_id (tid p) (l1 ++ p :: after ++ l2) = Some (l1, p, after ++ l2))
          by (apply split_id_app; auto).
        erewrite remove_some by exact S2. simpl.
        rewrite fold_add_first, fold_add_last.
        rewrite <- !app_assoc. apply tasks_eqb_refl.
      * unfold find_id in F. destruct (split_id (tid p) l) as [[[l1 x] l2]|] eqn:S; [discriminate|].
        rewrite andb_true_r in HT.
        assert (Hl := split_id_none _ _ S).
        rewrite split_task_none by exact Hl.
        assert (Ha : Forall (fun y => tid y <> tid p) after).
        { apply Forall_forall. intros y Hy Ey.
          assert (existsb (fun x => N.eqb (tid x) (tid p)) after = true); [|congruence].
          apply existsb_exists. exists y. split; [assumption | now apply N.eqb_eq]. }
        assert (Ha' : Forall (fun y => tid y <> tid p) (rev after)).
        { apply Forall_forall. intros y Hy. apply in_rev in Hy. rewrite Forall_forall in Ha; auto. }
        rewrite fold_add_after_absent by auto.
        rewrite remove_none.
        2:{ apply split_id_none_iff, Forall_app; split; auto. }
        simpl. rewrite fold_add_first, fold_add_last.
        rewrite <- (app_assoc head), strip_prefix_app, strip_suffix_app. apply multi_ins_append.
    + (* Keep *)
      destruct (find_id (tid p) l) as [q|] eqn:F.
      * unfold find_id in F. destruct (split_id (tid p) l) as [[[l1 x] l2]|] eqn:S; [|discriminate].
        inversion F; subst x.
        destruct (split_id_some _ _ _ _ _ S) as (El & _ & H1).
        destruct (task_eqb q p) eqn:Eq.
        -- apply task_eqb_eq in Eq; subst q.
           erewrite split_task_of_split_id by exact S. subst l.
           rewrite fold_add_after_present by auto.
           rewrite fold_add_first, fold_add_last.
           rewrite <- !app_assoc. cbn [app]. rewrite <- !app_assoc. apply tasks_eqb_refl.
        -- simpl in HT. destruct after as [|a0 after]; [|discriminate].
           simpl. rewrite fold_add_first, fold_add_last.
           destruct (split_task p l) as [[m1 m2]|] eqn:ST.
           ++ (* p is in the queue behind its namesake; nothing inserted: list unchanged *)
              assert (l = m1 ++ p :: m2) as El2.
              { clear -ST. revert m1 m2 ST. induction l as [|y l IH]; intros m1 m2 ST; simpl in ST; [discriminate|].
                destruct (task_eqb y p) eqn:E.
                - apply task_eqb_eq in E; subst. inversion ST; reflexivity.
                - destruct (split_task p l) as [[u v]|]; [|discriminate]. inversion ST; subst.
                  simpl. f_equal. now apply IH. }
              rewrite El2 at 1. rewrite <- !app_assoc. apply tasks_eqb_refl.
           ++ rewrite <- (app_assoc head), strip_prefix_app, strip_suffix_app.
              unfold multi_ins. rewrite subseq_refl, andb_true_r.
              apply same_multiset_intro. reflexivity.
      * unfold find_id in F. destruct (split_id (tid p) l) as [[[l1 x] l2]|] eqn:S; [discriminate|].
        assert (Hl := split_id_none _ _ S).
        rewrite split_task_none by exact Hl.
        (* Keep with the anchor gone: after-tasks may carry the id; each is an insertion *)
        rewrite fold_add_first, fold_add_last.
        rewrite <- (app_assoc head), strip_prefix_app, strip_suffix_app.
        unfold multi_ins. rewrite fold_add_after_subseq by apply subseq_refl.
        rewrite andb_true_r. apply same_multiset_intro. intros y.
        rewrite fold_add_after_count, !count_task_app, count_task_rev. lia.
Qed.

(* ---- lifting to whole runs ---- *)

Lemma auto_pick_items s : items (auto_pick s) = items s.
Proof.
  unfold auto_pick. destruct (started s); [|reflexivity].
  destruct (running s); [reflexivity|]. destruct (items s) eqn:E; [now rewrite E | reflexivity].
Qed.

Lemma all_some_map l : all_some (map Some l) = Some l.
Proof. induction l as [|x l IH]; simpl; [reflexivity | now rewrite IH]. Qed.

Lemma observe_wf s r : obs_wellformed (observe s r) = Some (items s).
Proof.
  unfold obs_wellformed, observe. cbn [o_crash o_items o_len o_first o_last o_gets].
  rewrite all_some_map, N.eqb_refl, !otask_eqb_refl. cbn [andb].
  replace (map (fun id => get id (items s)) probe_ids)
    with (map (fun id => find_id id (items s)) probe_ids)
    by (apply map_ext; intros; symmetry; apply get_find).
  rewrite list_eqb_refl by apply otask_eqb_refl. reflexivity.
Qed.

Lemma step_raw_spec s o :
  trigger_step s o = false ->
  spec_ok (items s) (running s) o (items (fst (step_raw s o))) (snd (step_raw s o)) = true.
Proof.
  intros HT. destruct o; cbn [step_raw spec_ok];
    try (apply step_simple_spec; [exact HT | intros k0 c0 E; discriminate]).
  (* FilterDuring: the concurrent operation is a simple one on the filtered queue *)
  apply (step_simple_spec (mkState (filter (fun x => mem_N (tid x) keep) (items s)) (started s) (running s)) (to_op c)).
  - destruct c; reflexivity.
  - intros k0 c0 E. destruct c; discriminate.
Qed.

Lemma step_fst s o : fst (step s o) = auto_pick (fst (step_raw s o)).
Proof. unfold step. destruct (step_raw s o); reflexivity. Qed.
Lemma step_snd s o : snd (step s o) = snd (step_raw s o).
Proof. unfold step. destruct (step_raw s o); reflexivity. Qed.

Lemma run_from_P ops : forall s,
  T_from s ops = false -> P_from (items s) (running s) ops (run_from s ops) = true.
Proof.
  induction ops as [|o ops IH]; intros s HT; [reflexivity|].
  cbn [T_from] in HT. apply orb_false_iff in HT as [H1 H2].
  cbn [run_from]. destruct (step s o) as [s' r] eqn:E.
  cbn [P_from]. rewrite observe_wf.
  assert (E1 : s' = fst (step s o)) by (now rewrite E).
  assert (E2 : r = snd (step s o)) by (now rewrite E).
  rewrite step_fst in E1. rewrite step_snd in E2.
  cbn [o_ret o_running observe].
  replace (items s') with (items (fst (step_raw s o))) at 1 by (subst s'; now rewrite auto_pick_items).
  subst r. rewrite step_raw_spec by assumption. cbn [andb].
  apply IH. exact H2.
Qed.

Theorem refines_list_partial ops : T ops = false -> P ops (run ops) = true.
Proof. intros H. apply (run_from_P ops init H). Qed.

Theorem refuted :
  exists ops, T ops = true /\ P ops (run ops) = false.
Proof.
  exists [Start; AddLast (1,1); AddFirst (1,2); Return Success [] [] []]%N.
  split; vm_compute; reflexivity.
Qed.

(* every observation of the model is a proper list: no empty slot, length = count *)
Theorem no_empty_slot_length ops :
  Forall (fun o => exists l, o_items o = map Some l /\ o_len o = N.of_nat (length l)
                             /\ o_first o = hd_error l /\ o_crash o = false) (run ops).
Proof.
  unfold run. generalize init. induction ops as [|o ops IH]; intros s; [constructor|].
  cbn [run_from]. destruct (step s o) as [s' r]. constructor; [|apply IH].
  exists (items s'). repeat split.
Qed.

(* readable corollaries of the per-step rule *)
Theorem success_removes_exactly_once l1 p l2 st h a t :
  Forall (fun y => tid y <> tid p) l1 ->
  items (fst (step (mkState (l1 ++ p :: l2) st (Some p)) (Return Success h a t)))
  = h ++ l1 ++ a ++ l2 ++ t.
Proof.
  intros H1. rewrite step_fst, auto_pick_items. cbn [step_raw step_simple fst items running apply_result].
  rewrite fold_add_after_present by auto.
  erewrite remove_some by (apply split_id_app; auto).
  cbn [snd]. rewrite fold_add_first, fold_add_last. now rewrite <- !app_assoc.
Qed.

Theorem keep_keeps_position l1 p l2 st h a t :
  Forall (fun y => tid y <> tid p) l1 ->
  items (fst (step (mkState (l1 ++ p :: l2) st (Some p)) (Return Keep h a t)))
  = h ++ l1 ++ p :: a ++ l2 ++ t.
Proof.
  intros H1. rewrite step_fst, auto_pick_items. cbn [step_raw step_simple fst items running apply_result].
  rewrite fold_add_after_present by auto.
  rewrite fold_add_first, fold_add_last. rewrite <- !app_assoc. cbn [app]. now rewrite <- !app_assoc.
Qed.

Theorem fail_repeat_keep_queue s p h a t stt :
  running s = Some p -> stt = Fail \/ stt = Repeat ->
  items (fst (step s (Return stt h a t))) = items s.
Proof.
  intros Hr Hs. rewrite step_fst, auto_pick_items. cbn [step_raw step_simple]. rewrite Hr.
  destruct Hs; subst; reflexivity.
Qed.

(* the worker always holds the head it picked: after any operation, if the worker is
   started, idle and the queue is non-empty, the running task is the head *)
Theorem picks_head s o :
  let s' := fst (step s o) in
  started s' = true -> running (fst (step_raw s o)) = None ->
  running s' = hd_error (items s').
Proof.
  intros s' Hs Hr. unfold s' in *. clear s'. rewrite step_fst in *.
  set (u := fst (step_raw s o)) in *. rewrite auto_pick_items.
  unfold auto_pick in *. destruct (started u) eqn:E.
  - rewrite Hr. destruct (items u) eqn:I; cbn [running hd_error]; [exact Hr | reflexivity].
  - rewrite E in Hs. discriminate.
Qed.

(* ================= observers overlapping operations of another goroutine ================= *)

Lemma in_all_ins_cons t l : In (t :: l) (all_ins t l).
Proof. destruct l; left; reflexivity. Qed.

Lemma in_all_ins_end t l : In (l ++ [t]) (all_ins t l).
Proof.
  induction l as [|x l IH]; [left; reflexivity|].
  cbn [all_ins app]. right. apply in_map. exact IH.
Qed.

Lemma in_all_ins_add_after id t l : In (add_after id t l) (all_ins t l).
Proof.
  induction l as [|x l IH]; [left; reflexivity|].
  cbn [all_ins add_after]. destruct (N.eqb (tid x) id).
  - right. apply in_map. apply in_all_ins_cons.
  - right. apply in_map. exact IH.
Qed.

Lemma in_all_ins_add_before id t l : In (add_before id t l) (all_ins t l).
Proof.
  induction l as [|x l IH]; [left; reflexivity|].
  cbn [all_ins add_before]. destruct (N.eqb (tid x) id).
  - left. reflexivity.
  - right. apply in_map. exact IH.
Qed.

Lemma remove_in_dels id l : snd (remove id l) = l \/ In (snd (remove id l)) (all_dels l).
Proof.
  induction l as [|x l IH]; [left; reflexivity|].
  cbn [remove all_dels]. destruct (N.eqb (tid x) id).
  - right. left. reflexivity.
  - destruct (remove id l) as [o r']. cbn [snd] in *. destruct IH as [IH|IH].
    + left. now rewrite IH.
    + right. right. apply in_map. exact IH.
Qed.

Lemma removelast_in_dels (l : list task) : l <> [] -> In (removelast l) (all_dels l).
Proof.
  induction l as [|x l IH]; intros Hne; [contradiction|].
  destruct l as [|y l].
  - left. reflexivity.
  - change (removelast (x :: y :: l)) with (x :: removelast (y :: l)).
    cbn [all_dels]. right. apply (in_map (cons x)). apply IH. discriminate.
Qed.

Lemma trigger_mid s o : chain_mid_ok o = true -> trigger_step s o = false.
Proof. destruct o; intros H; try discriminate H; reflexivity. Qed.

Lemma spec_ok_mid_running l r1 r2 o m ret :
  chain_mid_ok o = true -> spec_ok l r1 o m ret = spec_ok l r2 o m ret.
Proof. destruct o; intros H; try discriminate H; reflexivity. Qed.

Lemma step_raw_mid_running s o : chain_mid_ok o = true ->
  running (fst (step_raw s o)) = running s /\ started (fst (step_raw s o)) = started s.
Proof.
  destruct s as [l st rn]. destruct o; intros H; try discriminate H;
    cbn [step_raw step_simple fst items running started]; try (split; reflexivity).
  - destruct (remove id l); split; reflexivity.
  - destruct l; split; reflexivity.
  - destruct l; split; reflexivity.
Qed.

Lemma auto_pick_running_some s p : running s = Some p -> running (auto_pick s) = Some p.
Proof.
  intros H. unfold auto_pick. destruct (started s); [|exact H].
  rewrite H. exact H.
Qed.

Lemma mid_running_some s o p : chain_mid_ok o = true -> running s = Some p ->
  running (fst (step s o)) = Some p.
Proof.
  intros Hm Hr. rewrite step_fst. apply auto_pick_running_some.
  destruct (step_raw_mid_running s o Hm) as [E _]. now rewrite E.
Qed.

Lemma mid_universe s o : chain_mid_ok o = true ->
  In (items (fst (step_raw s o))) (universe (items s) o).
Proof.
  destruct s as [l st rn]. destruct o; intros H; try discriminate H;
    cbn [step_raw step_simple fst items running started universe].
  - apply in_all_ins_cons.
  - apply in_all_ins_end.
  - apply in_all_ins_add_after.
  - apply in_all_ins_add_before.
  - pose proof (remove_in_dels id l) as HR. destruct (remove id l) as [o r'].
    cbn [snd fst items] in *. destruct HR as [HR|HR]; [left; now rewrite HR | right; exact HR].
  - destruct l as [|x r]; cbn [fst items]; [left; reflexivity | right; left; reflexivity].
  - destruct l as [|x r]; cbn [fst items]; [left; reflexivity|].
    right. apply removelast_in_dels. discriminate.
  - left. reflexivity.
Qed.

Lemma step_items s o : items (fst (step s o)) = items (fst (step_raw s o)).
Proof. rewrite step_fst. apply auto_pick_items. Qed.

Lemma removelast_cons2 (a b : op) l : removelast (a :: b :: l) = a :: removelast (b :: l).
Proof. reflexivity. Qed.

(* the model's Iterate-overlapping-a-chain satisfies the chain clause *)
Lemma chain_model_ok : forall cs s rn w seen,
  seen || tasks_eqb w (items s) = true ->
  T_from s cs = false ->
  forallb chain_mid_ok (removelast cs) = true ->
  (forallb chain_mid_ok cs = true \/ (rn = running s /\ (length cs = 1 \/ exists p, rn = Some p))) ->
  chain_ok rn w seen (items s) cs (snd (chain_run s cs)) (items (fst (chain_run s cs))) = true.
Proof.
  induction cs as [|o cs IH]; intros s rn w seen Hseen HT Hmid Hdom.
  - cbn [chain_run chain_ok fst snd]. now rewrite tasks_eqb_refl, Hseen.
  - cbn [chain_run]. destruct (step s o) as [s' ret] eqn:Es.
    destruct (chain_run s' cs) as [s'' rs] eqn:Ec. cbn [fst snd chain_ok].
    rewrite Hseen.
    assert (E1 : s' = fst (step s o)) by now rewrite Es.
    assert (E2 : ret = snd (step s o)) by now rewrite Es.
    cbn [T_from] in HT. apply orb_false_iff in HT as [HT1 HT2].
    assert (Hspec : spec_ok (items s) rn o (items s') ret = true).
    { subst s' ret. rewrite step_items, step_snd.
      destruct Hdom as [Hall | [Hrn _]].
      - cbn [forallb] in Hall. apply andb_true_iff in Hall as [Ho _].
        rewrite (spec_ok_mid_running _ rn (running s) _ _ _ Ho). now apply step_raw_spec.
      - subst rn. now apply step_raw_spec. }
    destruct cs as [|o2 cs2].
    + cbn [chain_run] in Ec. inversion Ec; subst s'' rs.
      rewrite Hspec. reflexivity.
    + rewrite removelast_cons2 in Hmid. cbn [forallb] in Hmid.
      apply andb_true_iff in Hmid as [Ho Hmid].
      apply existsb_exists. exists (items s'). split.
      { subst s'. rewrite step_items. now apply mid_universe. }
      rewrite Hspec. cbn [andb].
      replace rs with (snd (chain_run s' (o2 :: cs2))) by now rewrite Ec.
      replace s'' with (fst (chain_run s' (o2 :: cs2))) by now rewrite Ec.
      apply IH.
      * reflexivity.
      * subst s'. exact HT2.
      * exact Hmid.
      * destruct Hdom as [Hall | [Hrn [Hlen | [p Hp]]]].
        -- left. cbn [forallb] in Hall. now apply andb_true_iff in Hall as [_ Hall].
        -- cbn [length] in Hlen. discriminate Hlen.
        -- right. split; [|right; now exists p].
           subst s'. symmetry. rewrite Hp. apply mid_running_some; [exact Ho | now rewrite <- Hrn, Hp].
Qed.

Lemma chain_wf_cases rn cs : chain_wf rn cs = true ->
  forallb chain_mid_ok (removelast cs) = true /\
  (forallb chain_mid_ok cs = true \/ (length cs = 1 \/ exists p, rn = Some p)).
Proof.
  unfold chain_wf. intros H. apply andb_true_iff in H as [H1 H2]. split; [exact H1|].
  destruct cs as [|a cs'] using rev_ind; [left; reflexivity|].
  rewrite rev_unit in H2. rewrite removelast_last in H1.
  apply orb_true_iff in H2 as [H2|H2].
  - left. rewrite forallb_app, H1. cbn [forallb]. now rewrite H2.
  - right. apply andb_true_iff in H2 as [_ H2]. apply orb_true_iff in H2 as [H2|H2].
    + left. destruct (rev cs') as [|z zs] eqn:Er; [|discriminate H2].
      apply (f_equal (@rev _)) in Er. rewrite rev_involutive in Er. subst cs'. reflexivity.
    + right. destruct rn as [p|]; [now exists p | discriminate H2].
Qed.

Lemma xrun_from_XP : forall xs s,
  XT_from s xs = false -> XWF_from s xs = true ->
  XP_from (items s) (running s) xs (xrun_from s xs) = true.
Proof.
  induction xs as [|x xs IH]; intros s HT HW; [reflexivity|].
  cbn [XT_from] in HT. apply orb_false_iff in HT as [HT1 HT2].
  cbn [XWF_from] in HW. apply andb_true_iff in HW as [HW1 HW2].
  unfold xstate_after in *.
  cbn [xrun_from]. destruct (xstep s x) as [s' ob] eqn:Ex. cbn [fst] in *.
  destruct x as [o | pos cs]; cbn [xstep] in Ex.
  - destruct (step s o) as [s1 r] eqn:E. inversion Ex; subst s1 ob. clear Ex.
    cbn [XP_from x_obs]. rewrite observe_wf.
    assert (E1 : s' = fst (step s o)) by (now rewrite E).
    assert (E2 : r = snd (step s o)) by (now rewrite E).
    cbn [xspec_ok x_obs x_walk x_rets o_ret o_running observe].
    replace (items s') with (items (fst (step_raw s o))) at 1 by (subst s'; now rewrite step_items).
    subst r. rewrite step_snd, step_raw_spec by assumption. cbn [andb].
    apply IH; assumption.
  - destruct (chain_run s cs) as [s1 rs] eqn:E. inversion Ex; subst s1 ob. clear Ex.
    cbn [XP_from x_obs]. rewrite observe_wf.
    cbn [xspec_ok x_obs x_walk x_rets o_ret o_running observe].
    rewrite all_some_map, HW1. cbn [andb otask_eqb option_eqb].
    destruct (chain_wf_cases _ _ HW1) as [Hmid Hdom].
    replace rs with (snd (chain_run s cs)) by now rewrite E.
    replace (items s') with (items (fst (chain_run s cs))) at 1 by now rewrite E.
    rewrite chain_model_ok.
    + cbn [andb]. apply IH; assumption.
    + cbn [orb]. apply tasks_eqb_refl.
    + exact HT1.
    + exact Hmid.
    + destruct Hdom as [Ha|Hb]; [left; exact Ha | right; split; [reflexivity | exact Hb]].
Qed.

Theorem observers_refine_list_partial xs :
  XT xs = false -> XWF xs = true -> XP xs (xrun xs) = true.
Proof. intros H1 H2. apply (xrun_from_XP xs init H1 H2). Qed.

(* what the clause admits: ONE overlapping operation - the list before or the list after *)
Theorem walk_one_op rn w l o r l' :
  chain_ok rn w false l [o] [r] l' = true <->
  spec_ok l rn o l' r = true /\ (w = l \/ w = l').
Proof.
  cbn [chain_ok orb]. rewrite andb_true_r, andb_true_iff, orb_true_iff, !tasks_eqb_eq. reflexivity.
Qed.

(* k overlapping operations: one of the k+1 lists of a chain of ordinary-list steps from the
   list before to the list after *)
Fixpoint chain_rel (rn : option task) (l : list task) (cs : list op) (rs : list (option task))
         (ms : list (list task)) (l' : list task) : Prop :=
  match cs, rs, ms with
  | [], [], [] => l = l'
  | o :: cs', r :: rs', m :: ms' => spec_ok l rn o m r = true /\ chain_rel rn m cs' rs' ms' l'
  | _, _, _ => False
  end.

Theorem walk_k_ops : forall cs rn w seen l rs l',
  chain_ok rn w seen l cs rs l' = true ->
  exists ms, chain_rel rn l cs rs ms l' /\ length ms = length cs /\ (seen = true \/ In w (l :: ms)).
Proof.
  induction cs as [|o cs IH]; intros rn w seen l rs l' H.
  - destruct rs; [|discriminate H]. cbn [chain_ok] in H.
    apply andb_true_iff in H as [H1 H2]. apply tasks_eqb_eq in H1.
    exists []. split; [exact H1|]. split; [reflexivity|].
    apply orb_true_iff in H2 as [H2|H2]; [left; exact H2 | right; left; symmetry; now apply tasks_eqb_eq].
  - destruct rs as [|r rs]; [discriminate H|]. cbn [chain_ok] in H.
    destruct cs as [|o2 cs2].
    + apply andb_true_iff in H as [H H3]. apply andb_true_iff in H as [H1 H2].
      destruct rs; [|discriminate H3].
      exists [l']. split; [split; [exact H1 | reflexivity]|]. split; [reflexivity|].
      apply orb_true_iff in H2 as [H2|H2].
      * apply orb_true_iff in H2 as [H2|H2]; [left; exact H2 | right; left; symmetry; now apply tasks_eqb_eq].
      * right. right. left. symmetry. now apply tasks_eqb_eq.
    + apply existsb_exists in H as [m [_ H]]. apply andb_true_iff in H as [H1 H2].
      apply IH in H2 as [ms [R [L S]]].
      exists (m :: ms). split; [split; assumption|]. split; [cbn [length]; now rewrite L|].
      destruct S as [S|S].
      * apply orb_true_iff in S as [S|S]; [left; exact S | right; left; symmetry; now apply tasks_eqb_eq].
      * right. right. exact S.
Qed.

Theorem walk_k_ops_unseen : forall cs rn w l rs l',
  chain_ok rn w false l cs rs l' = true ->
  exists ms, chain_rel rn l cs rs ms l' /\ length ms = length cs /\ In w (l :: ms).
Proof.
  intros cs rn w l rs l' H. destruct (walk_k_ops cs rn w false l rs l' H) as [ms [R [L [S|S]]]];
    [discriminate S | exists ms; repeat split; assumption].
Qed.

(* the model's observer is atomic: wherever the callback is held up, the walk is the list as it
   was when the Iterate began, and the state afterwards is that of the operations run in order *)
Theorem iterate_atomic s pos cs :
  x_walk (snd (xstep s (IterateDuring pos cs))) = map Some (items s)
  /\ fst (xstep s (IterateDuring pos cs)) = exec s cs.
Proof.
  cbn [xstep]. destruct (chain_run s cs) as [s' rs] eqn:E. cbn [fst snd x_walk]. split; [reflexivity|].
  replace s' with (fst (chain_run s cs)) by now rewrite E. clear E.
  revert s. induction cs as [|o cs IH]; intros s; [reflexivity|].
  cbn [chain_run]. unfold exec. cbn [fold_left]. fold (exec (fst (step s o)) cs).
  destruct (step s o) as [s1 r1]. cbn [fst]. rewrite <- IH.
  destruct (chain_run s1 cs). reflexivity.
Qed.

(* the sequences without observers: XP and xrun are P and run *)
Definition plain_obs (o : obs) : xobs := mkXObs o [] [].

Lemma xrun_from_plain ops : forall s, xrun_from s (map Plain ops) = map plain_obs (run_from s ops).
Proof.
  induction ops as [|o ops IH]; intros s; [reflexivity|].
  cbn [map xrun_from xstep run_from]. destruct (step s o) as [s' r]. cbn [map]. now rewrite IH.
Qed.

Lemma XP_from_plain ops : forall l rn os,
  XP_from l rn (map Plain ops) (map plain_obs os) = P_from l rn ops os.
Proof.
  induction ops as [|o ops IH]; intros l rn os; destruct os as [|ob os]; try reflexivity.
  cbn [map XP_from P_from plain_obs x_obs]. destruct (obs_wellformed ob); [|reflexivity].
  cbn [xspec_ok x_obs x_walk x_rets]. rewrite andb_true_r. now rewrite IH.
Qed.

Theorem observers_conservative ops :
  xrun (map Plain ops) = map plain_obs (run ops)
  /\ XP (map Plain ops) (map plain_obs (run ops)) = P ops (run ops).
Proof. split; [apply xrun_from_plain | apply XP_from_plain]. Qed.
