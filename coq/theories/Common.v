(* Common.v — small shared utilities for the models and the correspondence files.
   Stdlib only. No proofs about the code live here. *)
From Coq Require Export List NArith ZArith Bool Lia.
Export ListNotations.

Set Implicit Arguments.

(* indices (from 0) of the elements of [l] on which [f] is true; used by every
   Cnn_Corr file to report mismatching cases by position. *)
Fixpoint indices_from {A} (f : A -> bool) (k : N) (l : list A) : list N :=
  match l with
  | [] => []
  | x :: r => if f x then k :: indices_from f (N.succ k) r else indices_from f (N.succ k) r
  end.
Definition indices_where {A} (f : A -> bool) (l : list A) : list N := indices_from f 0%N l.

Definition option_eqb {A} (eqb : A -> A -> bool) (a b : option A) : bool :=
  match a, b with
  | Some x, Some y => eqb x y
  | None, None => true
  | _, _ => false
  end.

Fixpoint list_eqb {A} (eqb : A -> A -> bool) (a b : list A) : bool :=
  match a, b with
  | [], [] => true
  | x :: a', y :: b' => eqb x y && list_eqb eqb a' b'
  | _, _ => false
  end.

Lemma list_eqb_refl A (eqb : A -> A -> bool) :
  (forall x, eqb x x = true) -> forall l, list_eqb eqb l l = true.
Proof. intros H l; induction l as [|x l IH]; simpl; [reflexivity|]. now rewrite H, IH. Qed.

Lemma list_eqb_eq A (eqb : A -> A -> bool) :
  (forall x y, eqb x y = true <-> x = y) ->
  forall a b, list_eqb eqb a b = true <-> a = b.
Proof.
  intros H a; induction a as [|x a IH]; intros [|y b]; simpl; split; intros E;
    try reflexivity; try discriminate.
  - apply andb_true_iff in E as [E1 E2]. apply H in E1. apply IH in E2. now subst.
  - inversion E; subst. apply andb_true_iff; split; [now apply H | now apply IH].
Qed.

Lemma option_eqb_eq A (eqb : A -> A -> bool) :
  (forall x y, eqb x y = true <-> x = y) ->
  forall a b, option_eqb eqb a b = true <-> a = b.
Proof.
  intros H [x|] [y|]; simpl; split; intros E; try reflexivity; try discriminate.
  - apply H in E; now subst.
  - inversion E; subst; now apply H.
Qed.

Definition pair_eqb {A B} (ea : A -> A -> bool) (eb : B -> B -> bool) (x y : A * B) : bool :=
  ea (fst x) (fst y) && eb (snd x) (snd y).

Lemma pair_eqb_eq A B (ea : A -> A -> bool) (eb : B -> B -> bool) :
  (forall x y, ea x y = true <-> x = y) -> (forall x y, eb x y = true <-> x = y) ->
  forall x y, pair_eqb ea eb x y = true <-> x = y.
Proof.
  intros Ha Hb [a b] [c d]; unfold pair_eqb; simpl; rewrite andb_true_iff, Ha, Hb.
  split; [intros [-> ->]; reflexivity | intros E; inversion E; auto].
Qed.

Definition mem_N (x : N) (l : list N) : bool := existsb (N.eqb x) l.

Lemma mem_N_In x l : mem_N x l = true <-> In x l.
Proof.
  unfold mem_N; rewrite existsb_exists; split.
  - intros [y [Hy E]]; apply N.eqb_eq in E; now subst.
  - intros H; exists x; split; [assumption | apply N.eqb_refl].
Qed.

(* bytes as list N, with a total lexicographic order (used where the code sorts strings) *)
Definition bytes := list N.
Fixpoint bytes_ltb (a b : bytes) : bool :=
  match a, b with
  | [], [] => false
  | [], _ :: _ => true
  | _ :: _, [] => false
  | x :: a', y :: b' => if N.ltb x y then true else if N.eqb x y then bytes_ltb a' b' else false
  end.
Definition bytes_eqb : bytes -> bytes -> bool := list_eqb N.eqb.
Definition bytes_leb (a b : bytes) : bool := bytes_ltb a b || bytes_eqb a b.

Lemma N_eqb_iff x y : N.eqb x y = true <-> x = y.
Proof. apply N.eqb_eq. Qed.

Lemma bytes_eqb_eq a b : bytes_eqb a b = true <-> a = b.
Proof. apply list_eqb_eq, N_eqb_iff. Qed.
