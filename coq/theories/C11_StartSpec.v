(* C11_StartSpec.v — the part of C11 that is about the RUNNING scheduler, as a decidable
   predicate over the observations; written from the property text only (it mentions the
   data types of C11_Model and the registry of C11_Spec, never the model's functions).

   Text: "A crontab keeps firing while at least one binding is registered for it and stops
   when the last one is removed; registering the same crontab any number of times never
   produces duplicate firings."  Quantifier: "all sequences of add/remove of (crontab, id)
   pairs including repeats and removals of unknown pairs".

   What fires is what the scheduler - the cron library's runner the manager holds - has, not
   what the manager's map says.  The operator starts the main queue (whose
   EnableScheduleBindings tasks register the hooks' crontabs) BEFORE ScheduleManager.Start(),
   and bindings are disabled and enabled again at any time: the text makes no difference
   between a pair registered before the scheduler was started and one registered afterwards.
   So, wherever OSmStart falls in the history (or if it does not occur at all): ONE TICK -
   every entry the runner holds fires once (OTickAll) while no earlier firing is waiting to
   be handled - delivers every crontab that is parsable and has a registered id EXACTLY ONCE
   ("keeps firing", "never duplicate firings") and no other string ("stops when the last one
   is removed").  Together with C11_Spec.P (check_cron after EVERY operation - OSmStart
   included -, check_round: one task per enabled binding per tick) this is the statement for
   histories  Add / Remove ... OSmStart ... Remove / Add / ticks. *)
From Verif Require Import Common C11_Model C11_Spec C11_Hm C11_HmSpec.

(* how often the string c was received *)
Definition count_recv (c : ct) (cs : list ct) : nat := length (filter (fun x => ct_eqb x c) cs).

(* one tick, nothing was waiting: each firing crontab once, nothing else (every string the
   implementation delivered is in the alphabet: the harness appends those it did not know) *)
Definition check_tick (valid : ct -> bool) (alphabet : list ct) (reg : list (ct * N)) (o : obs) : bool :=
  forallb (fun c => Nat.eqb (count_recv c (o_recv o))
                            (if valid c && has_binding c reg then 1 else 0)%nat) alphabet.

(* nothing sent and not received, no job parked in its send *)
Definition quiet (o : obs) : bool := N.eqb (o_chlen o) 0 && N.eqb (o_parked o) 0.

(* [idle]: after the previous operation nothing was waiting (read off the observation);
   [stopped]: after sm.Stop() nothing is judged (as in C11_Spec.P) *)
Fixpoint S_from (i : input) (st : spec_state) (idle stopped : bool) (ops : list op) (os : list obs) : bool :=
  match ops, os with
  | [], [] => true
  | o :: ops', ob :: os' =>
      let st' := spec_step (i_hooks i) st o in
      let stopped' := match o with OStop => true | _ => stopped end in
      match o with
      | OTickAll => negb idle || stopped
                    || check_tick (valid_of (i_invalid i)) (i_alphabet i) (fst st') ob
      | _ => true
      end
      && S_from i st' (quiet ob) stopped' ops' os'
  | _, _ => false
  end.
Definition S (i : input) (os : list obs) : bool := S_from i (spec_init (i_hooks i)) true false (i_ops i) os.

(* the predicate of the controller-level class *)
Definition P_start (i : input) (os : list obs) : bool := P i os && S i os.

(* the operator-level class: P_op (C11_HmSpec), and S on what is observed of the manager *)
Definition P_op_start (i : input) (os : list hobs) : bool := P_op i os && S i (map h_obs os).
