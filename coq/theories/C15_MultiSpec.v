(* C15_MultiSpec.v — the property for an operator that serves several CRDs, from the property text only:

     "For every set of declared conversion rules, a request to convert from version A to version B is
      served by a sequence of declared rules that starts at A, ends at B ... whenever such a sequence
      exists, and fails otherwise."

   Conversion rules are declared per CRD (a kubernetesCustomResourceConversion binding names its crdName
   beside its conversions), and a ConversionReview is a request for ONE CRD: "the set of declared rules"
   of a request is the set declared for the CRD it is made for.  So every request (crd, A, B) is judged by
   C15_Spec.P_search against the rules declared for [crd] - whatever other CRDs declare, whatever was asked
   before, for this CRD or another.  Nothing of the model is used here beside the data types. *)
From Verif Require Import Common C15_Model C15_Spec.

(* a configuration: every declared rule with the CRD of its binding *)
Definition declared_for (decls : list (N * rule)) (crd : N) : list rule :=
  map snd (filter (fun d => N.eqb (fst d) crd) decls).

(* a session of searches (crd, (A, B)) with the answer given to each: every one judged on its own *)
Fixpoint all_P_multi (decls : list (N * rule)) (reqs : list (N * rule)) (answers : list (option (list rule))) : bool :=
  match reqs, answers with
  | [], [] => true
  | (crd, q) :: reqs', a :: as' =>
    P_search (declared_for decls crd) (fst q) (snd q) a && all_P_multi decls reqs' as'
  | _, _ => false
  end.

(* the same with the application of the chain: per request the CRD, the pair, the chain answered, and what
   C15_Spec.P_handler reads (desired, outcomes, requested objects; trace and answer observed) *)
Definition P_request (decls : list (N * rule)) (crd : N) (A B : version) (chain : option (list rule))
           (outs : list outcome) (req : list obj) (trace : list invocation) (ans : review) : bool :=
  P_search (declared_for decls crd) A B chain
  && P_handler B (match chain with Some c => c | None => [] end) outs req trace ans.
