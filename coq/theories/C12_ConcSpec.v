(* C12_ConcSpec.v — C12 for executions running concurrently in different queues, as a predicate over
   what the scripted hooks and the harness observe; written from the property text.  EVERY execution
   is judged by itself, against its own task: nothing here refers to an order of events.

   "A hook is started in its own directory [ce_cwd_ok, ce_hook_ok] with environment variables pointing
   to [ce_env_ok] a binding-context file holding exactly the contexts of the task [holds_exactly] and to
   empty metrics, patch, admission-response and conversion-response files [ce_files_empty] whose names
   are unique per execution [unique_names: over ALL executions of the case].  A non-zero exit is a
   failure [status]; after a zero exit the output files are parsed [ce_patch_back: what the hook wrote is
   what is read back].  All temporary files of an execution are deleted when it ends, whatever the
   outcome [co_tmp_after; co_held: while all hook processes of a lockstep round are open, the temp
   directory holds the five files of each of them and nothing of the executions that have ended]." *)
From Verif Require Import Common JsonText C12_Model C12_ConcModel.
Open Scope N_scope.

(* what a hook process found in its binding-context file *)
Record cseen := mkSeen {
  sn_json : bool;              (* one JSON document: an array of contexts of the three kinds, nothing else in the file *)
  sn_segs : list seg;          (* the contexts, in order *)
  sn_canonical : bool;         (* the bytes are the rendering of these contexts (not demanded by the text; compared with the model) *)
  sn_raw : option bytes        (* the bytes themselves, for small files (compared with the model's rendering) *)
}.

Record cexec := mkCE {
  ce_identified : bool;        (* the report of exactly one hook process belongs to this call of Hook.Run *)
  ce_hook_ok : bool; ce_cwd_ok : bool; ce_env_ok : bool;
  ce_paths : list N;           (* context, metrics, admission, conversion, patch file: dense numbers, equal paths get equal numbers *)
  ce_files_empty : bool;
  ce_seen : cseen;
  ce_status : N;               (* 0: Run returned no error, 1: an error *)
  ce_patch_back : bool         (* Run handed back what this hook process wrote to its object-patch file *)
}.

Record cinput := mkCI { ci_hold : bool; ci_tasks : list ctask }.
Record cobs := mkCO { co_execs : list cexec; co_tmp_after : N; co_held : list N; co_bad : bool }.

(* "holding exactly the contexts of the task": a document whose contexts are the task's, in the task's order *)
Definition holds_exactly (t : ctask) (s : cseen) : bool :=
  sn_json s && same_contexts (sn_segs s) (ct_segs t).

Definition exec_ok (t : ctask) (x : cexec) : bool :=
  ce_identified x && ce_hook_ok x && ce_cwd_ok x && ce_env_ok x
  && (N.of_nat (length (ce_paths x)) =? 5) && ce_files_empty x
  && holds_exactly t (ce_seen x)
  && Bool.eqb (ce_status x =? 0) (negb (ct_fail t))
  && (if ct_fail t then true else ce_patch_back x).

Fixpoint forallb2 {A B} (f : A -> B -> bool) (a : list A) (b : list B) : bool :=
  match a, b with
  | [], [] => true
  | x :: r, y :: r' => f x y && forallb2 f r r'
  | _, _ => false
  end.

Fixpoint nodup_b (l : list N) : bool :=
  match l with [] => true | x :: r => negb (mem_N x r) && nodup_b r end.
Definition unique_names (xs : list cexec) : bool := nodup_b (flat_map ce_paths xs).

(* lockstep rounds: round r consists of the r-th task of every queue that has one *)
Definition queue_len (ts : list ctask) (q : N) : nat := length (filter (fun t => ct_queue t =? q) ts).
Fixpoint queues_of (ts : list ctask) (seenq : list N) : list N :=
  match ts with
  | [] => []
  | t :: r => if mem_N (ct_queue t) seenq then queues_of r seenq else ct_queue t :: queues_of r (ct_queue t :: seenq)
  end.
Definition round_size (ts : list ctask) (r : nat) : N :=
  N.of_nat (length (filter (fun q => Nat.ltb r (queue_len ts q)) (queues_of ts []))).
Definition rounds (ts : list ctask) : nat := fold_right Nat.max O (map (queue_len ts) (queues_of ts [])).
(* five files per open execution *)
Definition held_expected (ci : cinput) : list N :=
  if ci_hold ci then map (fun r => 5 * round_size (ci_tasks ci) r) (seq 0 (rounds (ci_tasks ci))) else [].

Definition P_conc (ci : cinput) (o : cobs) : bool :=
  negb (co_bad o)
  && forallb2 exec_ok (ci_tasks ci) (co_execs o)
  && unique_names (co_execs o)
  && (co_tmp_after o =? 0)
  && list_eqb N.eqb (co_held o) (held_expected ci).
