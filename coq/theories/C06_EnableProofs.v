(* C06_EnableProofs.v — proofs about C06_Enable: for every hook and every finite failure
   pattern the EnableKubernetesBindings task succeeds after at most [length F] failed runs;
   the successful run returns exactly Op_Model's Synchronization tasks (one per kubernetes
   binding, config order); what a failed run leaves behind; C06_EnableSpec.P_enable holds of
   the model's own observations. *)
From Verif Require Import Common Op_Model Op_Corr C06_Enable C06_EnableSpec.
Open Scope N_scope.

Definition add_all (st : kstate) (bs : list kbinding) : kstate := fold_left add_monitor bs st.

(* position (from the start of [bs]) of the first binding whose AddMonitor fails in attempt [a];
   [i] is the position of the head of [bs] in the hook's configuration *)
Fixpoint first_fail (F : fpattern) (a i : N) (bs : list kbinding) : option nat :=
  match bs with
  | [] => None
  | _ :: r => if fails F a i then Some O else option_map S (first_fail F a (N.succ i) r)
  end.

Definition ok_calls (bs : list kbinding) : list call := map (fun b => AddOk (kb_mon b)) bs.

Lemma get_link_add st b : get_link (k_links (add_monitor st b)) (kb_mon b) = Some b.
Proof. unfold get_link, add_monitor. cbn. rewrite N.eqb_refl. reflexivity. Qed.

Lemma enable_ok : forall bs F a i st,
  first_fail F a i bs = None ->
  enable_bindings F a i bs st = (add_all st bs, ok_calls bs, Some (map (@Some kbinding) bs)).
Proof.
  induction bs as [|b r IH]; intros F a i st Hff.
  - reflexivity.
  - cbn [first_fail] in Hff. cbn [enable_bindings].
    destruct (fails F a i) eqn:Ef; [discriminate|].
    destruct (first_fail F a (N.succ i) r) eqn:Er; [discriminate|].
    rewrite (IH F a (N.succ i) (add_monitor st b) Er).
    rewrite get_link_add. reflexivity.
Qed.

Lemma enable_fail : forall bs F a i st k,
  first_fail F a i bs = Some k ->
  exists b, nth_error bs k = Some b /\
    enable_bindings F a i bs st
    = (add_all st (firstn k bs), ok_calls (firstn k bs) ++ [AddFail (kb_mon b)], None).
Proof.
  induction bs as [|b r IH]; intros F a i st k Hff.
  - discriminate.
  - cbn [first_fail] in Hff. cbn [enable_bindings].
    destruct (fails F a i) eqn:Ef.
    + injection Hff as <-. exists b. split; reflexivity.
    + destruct (first_fail F a (N.succ i) r) as [k'|] eqn:Er; [|discriminate].
      injection Hff as <-.
      destruct (IH F a (N.succ i) (add_monitor st b) k' Er) as [b' [Hn He]].
      exists b'. split; [exact Hn|]. rewrite He. reflexivity.
Qed.

Lemma first_fail_fails : forall bs F a i k,
  first_fail F a i bs = Some k -> exists j, fails F a j = true.
Proof.
  induction bs as [|b r IH]; intros F a i k Hff.
  - discriminate.
  - cbn [first_fail] in Hff. destruct (fails F a i) eqn:Ef.
    + exists i. exact Ef.
    + destruct (first_fail F a (N.succ i) r) as [k'|] eqn:Er; [|discriminate].
      exact (IH F a (N.succ i) k' Er).
Qed.

(* ---- the state after adding monitors ---- *)
Lemma add_all_mons : forall bs st, k_mons (add_all st bs) = rev (map kb_mon bs) ++ k_mons st.
Proof.
  induction bs as [|b r IH]; intros st.
  - reflexivity.
  - cbn [add_all fold_left]. fold (add_all (add_monitor st b) r). rewrite IH. cbn [map rev add_monitor k_mons].
    rewrite <- app_assoc. reflexivity.
Qed.

Lemma add_all_made : forall bs st, k_made (add_all st bs) = k_made st ++ map kb_mon bs.
Proof.
  induction bs as [|b r IH]; intros st.
  - cbn. rewrite app_nil_r. reflexivity.
  - cbn [add_all fold_left]. fold (add_all (add_monitor st b) r). rewrite IH. cbn [map add_monitor k_made].
    rewrite <- app_assoc. reflexivity.
Qed.

Lemma add_all_links : forall bs st, map fst (k_links (add_all st bs)) = rev (map kb_mon bs) ++ map fst (k_links st).
Proof.
  induction bs as [|b r IH]; intros st.
  - reflexivity.
  - cbn [add_all fold_left]. fold (add_all (add_monitor st b) r). rewrite IH. cbn [map rev add_monitor k_links fst].
    rewrite <- app_assoc. reflexivity.
Qed.

Lemma has_monitor_add_all st bs b : In b bs -> has_monitor (add_all st bs) (kb_mon b) = true.
Proof.
  intros Hin. unfold has_monitor. apply mem_N_In. rewrite add_all_mons. apply in_or_app. left.
  apply -> in_rev. apply in_map. exact Hin.
Qed.

Lemma has_monitor_keeps st bs m : has_monitor st m = true -> has_monitor (add_all st bs) m = true.
Proof.
  unfold has_monitor. intros H. apply mem_N_In. apply mem_N_In in H. rewrite add_all_mons.
  apply in_or_app. right. exact H.
Qed.

Lemma get_link_in : forall l m, In m (map fst l) -> exists b, get_link l m = Some b.
Proof.
  induction l as [|p l IH]; intros m Hin.
  - destruct Hin.
  - unfold get_link. cbn [find]. destruct (N.eqb (fst p) m) eqn:E.
    + exists (snd p). reflexivity.
    + destruct Hin as [H|H].
      * cbn in H. subst m. rewrite N.eqb_refl in E. discriminate.
      * destruct (IH m H) as [b Hb]. exists b. exact Hb.
Qed.

Lemma can_handle_add_all st bs b : In b bs -> can_handle (add_all st bs) (kb_mon b) = true.
Proof.
  intros Hin. unfold can_handle.
  destruct (get_link_in (k_links (add_all st bs)) (kb_mon b)) as [x Hx].
  - rewrite add_all_links. apply in_or_app. left. apply -> in_rev. apply in_map. exact Hin.
  - rewrite Hx. reflexivity.
Qed.

Lemma map_true_all {A} (f : A -> bool) (l : list A) :
  (forall x, In x l -> f x = true) -> map f l = map (fun _ => true) l.
Proof. intros H. apply map_ext_in. exact H. Qed.

(* ---- one run of the task handler ---- *)
Lemma info_task_some h b : info_task h (Some b) = sync_task h b.
Proof. reflexivity. Qed.

Lemma handle_enable_ok h F a st :
  first_fail F a 0 (h_kube h) = None ->
  handle_enable h F a st
  = (add_all st (h_kube h),
     mkAtt (ok_calls (h_kube h)) true (map (sync_task h) (h_kube h))
           (map (fun _ => true) (h_kube h)) (map (fun _ => true) (h_kube h))).
Proof.
  intros Hff. unfold handle_enable. rewrite (enable_ok _ _ _ _ st Hff).
  rewrite map_map.
  rewrite (map_true_all (fun b => has_monitor (add_all st (h_kube h)) (kb_mon b)) (h_kube h)
             (fun b Hb => has_monitor_add_all st (h_kube h) b Hb)).
  rewrite (map_true_all (fun b => can_handle (add_all st (h_kube h)) (kb_mon b)) (h_kube h)
             (fun b Hb => can_handle_add_all st (h_kube h) b Hb)).
  reflexivity.
Qed.

(* a failed run: the monitors of the bindings before the failing one have been created (again),
   linked and started and stay; nothing is removed; no task is returned *)
Lemma handle_enable_fail h F a st k :
  first_fail F a 0 (h_kube h) = Some k ->
  exists b st' att,
    nth_error (h_kube h) k = Some b /\ handle_enable h F a st = (st', att)
    /\ st' = add_all st (firstn k (h_kube h))
    /\ at_ok att = false /\ at_head att = []
    /\ at_calls att = ok_calls (firstn k (h_kube h)) ++ [AddFail (kb_mon b)].
Proof.
  intros Hff. destruct (enable_fail _ _ _ _ st _ Hff) as [b [Hn He]].
  exists b. unfold handle_enable. rewrite He.
  eexists. eexists. split; [exact Hn|]. split; [reflexivity|]. cbn.
  split; [reflexivity|]. split; [reflexivity|]. split; reflexivity.
Qed.

(* ---- termination: attempts that can still fail ---- *)
Definition later (F : fpattern) (a : N) : fpattern := filter (fun p => N.leb a (fst p)) F.

Lemma filter_length_le {A} (f : A -> bool) (l : list A) : (length (filter f l) <= length l)%nat.
Proof. induction l as [|x l IH]; cbn; [lia|]. destruct (f x); cbn; lia. Qed.

Lemma filter_length_lt {A} (f g : A -> bool) (l : list A) :
  (forall x, f x = true -> g x = true) ->
  (exists x, In x l /\ g x = true /\ f x = false) ->
  (length (filter f l) < length (filter g l))%nat.
Proof.
  intros Himp. induction l as [|y l IH]; intros [x [Hin [Hg Hf]]].
  - destruct Hin.
  - assert (Hle : (length (filter f l) <= length (filter g l))%nat).
    { clear IH Hin. induction l as [|z l IHl]; cbn; [lia|].
      destruct (f z) eqn:Efz.
      - rewrite (Himp z Efz). cbn. lia.
      - destruct (g z); cbn; lia. }
    cbn [filter]. destruct Hin as [Heq|Hin].
    + subst y. rewrite Hf, Hg. cbn. lia.
    + assert (Hlt : (length (filter f l) < length (filter g l))%nat).
      { apply IH. exists x. split; [exact Hin|]. split; [exact Hg|exact Hf]. }
      destruct (f y) eqn:Efy.
      * rewrite (Himp y Efy). cbn. lia.
      * destruct (g y); cbn; lia.
Qed.

Lemma later_succ_lt F a j : fails F a j = true -> (length (later F (N.succ a)) < length (later F a))%nat.
Proof.
  intros Hf. unfold fails in Hf. apply existsb_exists in Hf. destruct Hf as [p [Hin Hp]].
  apply andb_true_iff in Hp. destruct Hp as [Hp1 _]. apply N.eqb_eq in Hp1.
  unfold later. apply filter_length_lt.
  - intros x Hx. apply N.leb_le in Hx. apply N.leb_le. lia.
  - exists p. split; [exact Hin|]. split.
    + apply N.leb_le. lia.
    + apply N.leb_gt. lia.
Qed.

(* ---- the task: retried until it succeeds ---- *)
Definition failed_run (x : attempt) : Prop := at_ok x = false /\ at_head x = [].

Lemma run_enable_succeeds : forall fuel h F a st,
  (length (later F a) < fuel)%nat ->
  exists failed last stf,
    run_enable fuel h F a st = (failed ++ [last], stf)
    /\ (length failed <= length (later F a))%nat
    /\ Forall failed_run failed
    /\ last = mkAtt (ok_calls (h_kube h)) true (map (sync_task h) (h_kube h))
                    (map (fun _ => true) (h_kube h)) (map (fun _ => true) (h_kube h))
    /\ (forall b, In b (h_kube h) -> has_monitor stf (kb_mon b) = true)
    /\ (forall m, has_monitor st m = true -> has_monitor stf m = true).
Proof.
  induction fuel as [|fuel IH]; intros h F a st Hlt.
  - lia.
  - cbn [run_enable].
    destruct (first_fail F a 0 (h_kube h)) as [k|] eqn:Eff.
    + destruct (handle_enable_fail h F a st k Eff) as [b [st' [att [Hn [He [Hst [Hok [Hhead Hcalls]]]]]]]].
      rewrite He. rewrite Hok.
      destruct (first_fail_fails _ _ _ _ _ Eff) as [j Hj].
      pose proof (later_succ_lt F a j Hj) as Hdec.
      destruct (IH h F (N.succ a) st') as [failed [last [stf [Hr [Hlen [Hall [Hlast [Hhas Hkeep]]]]]]]]; [lia|].
      rewrite Hr.
      exists (att :: failed), last, stf.
      split; [reflexivity|]. split; [cbn; lia|]. split.
      * constructor; [split; assumption|exact Hall].
      * split; [exact Hlast|]. split; [exact Hhas|].
        intros m Hm. apply Hkeep. rewrite Hst. apply has_monitor_keeps. exact Hm.
    + rewrite (handle_enable_ok h F a st Eff). cbn [at_ok].
      exists [], (mkAtt (ok_calls (h_kube h)) true (map (sync_task h) (h_kube h))
                        (map (fun _ => true) (h_kube h)) (map (fun _ => true) (h_kube h))), (add_all st (h_kube h)).
      split; [reflexivity|]. split; [cbn; lia|]. split; [constructor|]. split; [reflexivity|]. split.
      * intros b Hb. apply has_monitor_add_all. exact Hb.
      * intros m Hm. apply has_monitor_keeps. exact Hm.
Qed.

Theorem enable_task_delivers : forall h F,
  h_kube h <> [] ->
  exists failed last stf,
    enable_task h F = (failed ++ [last], stf)
    /\ (length failed <= length F)%nat
    /\ Forall failed_run failed
    /\ at_ok last = true
    /\ at_head last = map (sync_task h) (h_kube h)
    /\ at_calls last = ok_calls (h_kube h)
    /\ (forall b, In b (h_kube h) -> has_monitor stf (kb_mon b) = true).
Proof.
  intros h F Hne. unfold enable_task.
  destruct (h_kube h) as [|b0 r] eqn:Ek; [contradiction|]. rewrite <- Ek.
  assert (Hl : (length (later F 0) <= length F)%nat) by apply filter_length_le.
  destruct (run_enable_succeeds (S (length F)) h F 0 k_init) as [failed [last [stf [Hr [Hlen [Hall [Hlast [Hhas _]]]]]]]]; [lia|].
  exists failed, last, stf. rewrite Hlast in *. cbn [at_ok at_head at_calls].
  split; [exact Hr|]. split; [lia|]. split; [exact Hall|]. split; [reflexivity|]. split; [reflexivity|].
  split; [reflexivity|exact Hhas].
Qed.

(* a hook without kubernetes bindings has no such task *)
Lemma enable_task_none h F : h_kube h = [] -> enable_task h F = ([], k_init).
Proof. intros H. unfold enable_task. rewrite H. reflexivity. Qed.

(* what a failed run leaves behind *)
Theorem enable_failed_run_leaves : forall h F a st k,
  first_fail F a 0 (h_kube h) = Some k ->
  exists b st' att,
    nth_error (h_kube h) k = Some b /\ handle_enable h F a st = (st', att)
    /\ at_ok att = false /\ at_head att = []
    /\ at_calls att = ok_calls (firstn k (h_kube h)) ++ [AddFail (kb_mon b)]
    /\ k_made st' = k_made st ++ map kb_mon (firstn k (h_kube h))
    /\ k_mons st' = rev (map kb_mon (firstn k (h_kube h))) ++ k_mons st.
Proof.
  intros h F a st k Hff.
  destruct (handle_enable_fail h F a st k Hff) as [b [st' [att [Hn [He [Hst [Hok [Hhead Hcalls]]]]]]]].
  exists b, st', att. split; [exact Hn|]. split; [exact He|]. split; [exact Hok|]. split; [exact Hhead|].
  split; [exact Hcalls|]. rewrite Hst. split; [apply add_all_made|apply add_all_mons].
Qed.

(* ---- the tasks that reach the queue ---- *)
Lemma heads_of_failed failed : Forall failed_run failed -> heads_of failed = [].
Proof.
  induction 1 as [|x l [Hok _] _ IH]; [reflexivity|].
  unfold heads_of in *. cbn [flat_map]. rewrite Hok, IH. reflexivity.
Qed.

Lemma heads_of_app a b : heads_of (a ++ b) = heads_of a ++ heads_of b.
Proof. unfold heads_of. apply flat_map_app. Qed.

Theorem enable_task_heads : forall h F,
  heads_of (fst (enable_task h F)) = map (sync_task h) (h_kube h).
Proof.
  intros h F. destruct (h_kube h) as [|b0 r] eqn:Ek.
  - rewrite (enable_task_none h F Ek). reflexivity.
  - rewrite <- Ek.
    destruct (enable_task_delivers h F) as [failed [last [stf [Hr [_ [Hall [Hok [Hhead _]]]]]]]].
    { rewrite Ek. discriminate. }
    rewrite Hr. cbn [fst]. rewrite heads_of_app, (heads_of_failed _ Hall).
    unfold heads_of. cbn [flat_map app]. rewrite Hok, Hhead, app_nil_r. reflexivity.
Qed.

(* ---- C06_EnableSpec.P_enable holds of the model ---- *)
Lemma names_monitor_sync h b m : names_monitor m (sync_task h b) = N.eqb m (kb_mon b).
Proof. unfold names_monitor, sync_task, mem_N. cbn. apply orb_false_r. Qed.

Lemma filter_names_none h m bs :
  ~ In m (map kb_mon bs) -> filter (names_monitor m) (map (sync_task h) bs) = [].
Proof.
  induction bs as [|b r IH]; intros Hn; [reflexivity|].
  cbn [map filter]. rewrite names_monitor_sync.
  destruct (N.eqb m (kb_mon b)) eqn:E.
  - apply N.eqb_eq in E. exfalso. apply Hn. left. symmetry. exact E.
  - apply IH. intros Hin. apply Hn. right. exact Hin.
Qed.

Lemma filter_names_one h bs : NoDup (map kb_mon bs) ->
  forall b, In b bs -> filter (names_monitor (kb_mon b)) (map (sync_task h) bs) = [sync_task h b].
Proof.
  induction bs as [|b0 r IH]; intros Hnd b Hin; [destruct Hin|].
  cbn [map] in Hnd. inversion Hnd as [|x l Hnotin Hnd' Heq]; subst.
  cbn [map filter]. rewrite names_monitor_sync.
  destruct Hin as [Heq|Hin].
  - subst b0. rewrite N.eqb_refl. rewrite (filter_names_none h (kb_mon b) r Hnotin). reflexivity.
  - destruct (N.eqb (kb_mon b) (kb_mon b0)) eqn:E.
    + apply N.eqb_eq in E. exfalso. apply Hnotin. rewrite <- E. apply in_map. exact Hin.
    + apply IH; assumption.
Qed.

Lemma is_sync_of_sync h b : is_sync_of h b (sync_task h b) = true.
Proof.
  unfold is_sync_of, sync_task. cbn. unfold ctx_eqb. cbn.
  rewrite !N.eqb_refl, Bool.eqb_reflx. reflexivity.
Qed.

Lemma probe_quiet st heads bs :
  forallb (fun p : list N * list N => match fst p with [] => true | _ => false end)
          (map (probe_binding st heads) bs) = true.
Proof. induction bs as [|b r IH]; [reflexivity|]. cbn [map forallb]. rewrite IH. reflexivity. Qed.

Theorem enable_P_holds : forall h F,
  NoDup (map kb_mon (h_kube h)) ->
  P_enable h (fst (enable_task h F)) (Some (enable_probe h F)) = true.
Proof.
  intros h F Hnd. unfold P_enable. rewrite enable_task_heads.
  apply andb_true_iff. split; [apply andb_true_iff; split; [apply andb_true_iff; split|]|].
  - destruct (h_kube h) as [|b0 r] eqn:Ek; [reflexivity|].
    destruct (enable_task_delivers h F) as [failed [last [stf [Hr [_ [_ [Hok _]]]]]]].
    { rewrite Ek. discriminate. }
    rewrite Hr. cbn [fst]. rewrite existsb_app. cbn [existsb]. rewrite Hok. cbn. apply orb_true_r.
  - apply forallb_forall. intros b Hb. unfold binding_ok.
    rewrite (filter_names_one h (h_kube h) Hnd b Hb). apply is_sync_of_sync.
  - rewrite map_length. apply Nat.eqb_refl.
  - unfold enable_probe. destruct (enable_task h F) as [atts st]. apply probe_quiet.
Qed.

(* after its Synchronization every binding's Events flow: the probe sees exactly the Event of
   the binding's own monitor after the unlock, nothing before *)
Theorem enable_probe_events : forall h F,
  enable_probe h F = map (fun b => ([], [kb_mon b])) (h_kube h).
Proof.
  intros h F. unfold enable_probe.
  destruct (h_kube h) as [|b0 r] eqn:Ek.
  - rewrite (enable_task_none h F Ek). reflexivity.
  - rewrite <- Ek. pose proof (enable_task_heads h F) as Hh.
    destruct (enable_task_delivers h F) as [failed [last [stf [Hr [_ [_ [_ [_ [_ Hhas]]]]]]]]].
    { rewrite Ek. discriminate. }
    rewrite Hr in *. cbn [fst] in Hh. rewrite Hh.
    apply map_ext_in. intros b Hb. unfold probe_binding. rewrite (Hhas b Hb).
    assert (He : existsb (fun t => mem_N (kb_mon b) (t_mids t)) (map (sync_task h) (h_kube h)) = true).
    { apply existsb_exists. exists (sync_task h b). split; [apply in_map; exact Hb|].
      change (names_monitor (kb_mon b) (sync_task h b) = true). rewrite names_monitor_sync. apply N.eqb_refl. }
    rewrite He. reflexivity.
Qed.
