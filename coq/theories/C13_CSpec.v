(* C13_CSpec.v — the property C13 with another writer on the cluster, as a decidable
   predicate over what one hook run shows: the final cluster, the apply errors, and how
   many writes of the other writer happened during each operation (the interleaving is
   part of the history).

   From the property text: the operations are "applied once each in document order, with
   the documented effect of each operation (... jq patches ...)".  The documented effect of
   an operation is [C13_Spec.effect] on the state of the cluster; with another writer the
   state it is applied to is the LATEST one: every write of the other writer that happened
   during the operation is in place, exactly as the writer made it, and the operation is
   applied once on top of it (no lost update, nothing computed from a stale object).  A
   read-modify-write that keeps meeting 409 Conflict may give up - the retry budget of
   retry.DefaultBackoff is [budget] attempts - and then the operation reports a Conflict,
   changes nothing, and at least [budget] writes of the other writer happened during it.
   The predicate knows nothing of Get / Update / Patch requests or resourceVersions. *)
From Verif Require Import Common Json C13_Model C13_Spec C13_CModel.

Definition target (o : op) : key :=
  match o with OCreate _ obj => key_of_object obj | ODelete _ k => k | OPatch k _ _ _ => k end.

Definition is_conflict (e : err) : bool := match e with EConflict => true | _ => false end.

(* [used]: per operation, how many writes of its queue happened; [errs]: the errors still to
   be accounted for, in order *)
Fixpoint P_steps (budget : nat) (proj : json -> json) (c : cluster) (steps : list (op * list write))
         (used : list nat) (errs : list err) (final : cluster) : bool :=
  match steps, used with
  | [], [] => match errs with [] => cluster_sameb (view proj final) (view proj c) | _ => false end
  | (o, q) :: r, m :: ur =>
    (m <=? length q) &&
    let c' := apply_writes (target o) (firstn m q) c in      (* the latest state: the writer's writes as they are *)
    ((* applied once on the latest state *)
     (let (c1, e) := effect c' o in
      match e with
      | None => P_steps budget proj c1 r ur errs final
      | Some e => match errs with
                  | e' :: errs' => err_eqb e e' && P_steps budget proj c1 r ur errs' final
                  | [] => false
                  end
      end)
     ||
     (* or given up after the retry budget: a Conflict, nothing applied *)
     ((budget <=? m) &&
      match errs with
      | e' :: errs' => is_conflict e' && P_steps budget proj c' r ur errs' final
      | [] => false
      end))
  | _, _ => false
  end.

Definition P_conc (budget : nat) (proj : json -> json) (c0 : cluster) (ds : list doc) (qs : list (list write))
           (r : outcome) (used : list nat) : bool :=
  if all_valid ds then
    r_parse_ok r && P_steps budget proj c0 (zipq (ops_of ds) qs) used (r_errors r) (r_cluster r)
  else
    (* any invalid document: nothing applied (no request, so the other writer's queue is untouched), the execution fails *)
    failed r && cluster_sameb (view proj (r_cluster r)) (view proj c0)
    && match r_calls r with [] => true | _ => false end
    && match used with [] => true | _ => false end.
