(* C14_Corr.v — correspondence vocabulary for C14.  A case is a set of hooks with their
   admission bindings, the path the implementation registered for every binding, and a list
   of requests sent to the real router (one operator per case), each with what the hook
   stub was scripted to do (exit status and the four files a hook hands back), the HTTP
   answer, the hook process that ran, and the side effects observed afterwards (marker
   Kubernetes operation applied to the cluster, marker metric present in the hooks' metric
   storage).

   A second class of cases, CConc: requests that OVERLAP in time (one operator, 2-6 requests in
   flight at once, the scripted hook processes held at two points - started, written - and moved on
   by the harness in the order [moves] says: request numbers, each occurrence lets that request run
   to its next hold point or to its end; afterwards every request is let run to its end).  Per
   request the same observations, plus whether the hook process found its four output files empty
   when it started.  The model is the transition system of C14_ConcModel run under these moves;
   every request is judged by C14_Spec.P against its own run (C14_ConcSpec.P_conc).

   A third class, CCtx: hooks whose admission bindings carry `group` / `includeSnapshotsFrom` and that
   have `kubernetes` bindings beside them; the hook process reads its binding context BEFORE it answers
   (it answers as scripted only when it is shown the request, otherwise it denies with message 99); per
   request the same observations as in class Case, plus what the hook process read in
   $BINDING_CONTEXT_PATH (binding, type, keys of snapshots, groupName, review.request.uid).  The model is
   C14_CtxModel.ctx_request; every request is judged by C14_CtxSpec.P_ctx.

   A fourth class, CSize: the SIZE of what the hook answers.  The scripted hooks write raw JSON responses
   with any number of warnings of any length, messages and JSONPatch documents of any length; the whole
   content of the answer is observed (every warning, the base64-decoded patch bytes, the message text)
   and compared in full with C14_SizeModel.size_review; every request is judged by C14_SizeSpec.P_size.
   Byte strings are written compactly in the cases files (type cb below), and expanded before anything
   is compared. *)
From Verif Require Import Common C14_Model C14_Spec C14_ConcModel C14_ConcSpec C14_CtxModel C14_CtxSpec.
From Verif Require Import C14_SizeModel C14_SizeSpec.

Definition req := (bytes * body * run * (answer * ran) * (bool * bool))%type.

(* a compact byte string: a list of chunks; chunk (n, pat) stands for the first n bytes of
   pat pat pat ... (so (length pat, pat) is pat itself, (n, [c]) is n times the byte c) *)
Definition cb := list (N * bytes).

Fixpoint cyc (n : nat) (pat cur : bytes) {struct n} : bytes :=
  match n with
  | O => []
  | S n' =>
    match cur with
    | c :: r => c :: cyc n' pat r
    | [] => match pat with [] => [] | c :: r => c :: cyc n' pat r end
    end
  end.
Definition expand (c : cb) : bytes := flat_map (fun ch => cyc (N.to_nat (fst ch)) (snd ch) (snd ch)) c.

Inductive zfile := ZEmpty | ZMalformed | ZResp (allowed : bool) (msg : cb) (warnings : list cb) (patch : cb).
Inductive zmsg := ZClass (a : amsg) | ZText (t : cb).
Inductive zanswer :=
| ZStatus (code : N)
| ZRev (uid : N) (allowed : bool) (code : N) (m : zmsg) (warnings : list cb) (patch : cb) (pt : bool).
(* path, uid, the hook exits zero, its response file, (answer, who ran), and - when the harness also ran
   the log step on its own (admission.ResponseFromBytes on the file, then Dump() on the result) - the
   text Dump() returned and whether the Response was afterwards what it was before *)
Definition zreq := (bytes * N * bool * zfile * (zanswer * ran) * option (cb * bool))%type.

Definition sfile_of (f : zfile) : sfile :=
  match f with
  | ZEmpty => SEmpty
  | ZMalformed => SMalformed
  | ZResp a m w p => SResp (mkSResp a (expand m) (map expand w) (expand p))
  end.
Definition sanswer_of (a : zanswer) : sanswer :=
  match a with
  | ZStatus c => SStatus c
  | ZRev uid al code m w p pt =>
    SRev (mkSReview uid al code (match m with ZClass x => SMClass x | ZText t => SMText (expand t) end)
                    (map expand w) (expand p) pt)
  end.

Inductive case :=
| CSize (hooks : list hook) (regs : list reg) (reqs : list zreq)
| Case (hooks : list hook) (regs : list reg) (reqs : list req)
| CConc (hooks : list hook) (regs : list reg) (reqs : list (req * bool)) (moves : list N)
| CCtx (hooks : list phook) (regs : list reg) (reqs : list (req * option rendered))
| CCrash.

Inductive mobs :=
| MSize (regs : list reg) (outs : list (sanswer * ran))
| MObs (regs : list reg) (answers : list (answer * ran * (bool * bool)))
| MConc (regs : list reg) (outs : list (option cout))
| MCtx (regs : list reg) (outs : list ((answer * ran) * (bool * bool) * option rendered))
| MCrash.

Definition creq_of (x : req * bool) : creq :=
  match x with ((path, b, r, _, _), _) => mkCR path b r end.
Definition cout_of (x : req * bool) : cout :=
  match x with ((_, _, _, (a, who), eff), em) => (a, who, eff, em) end.

Definition model_obs (c : case) : mobs :=
  match c with
  | CSize hooks _ reqs =>
    MSize (model_regs hooks)
          (map (fun q => match q with (path, uid, ez, f, _, _) =>
                           let o := size_review hooks path uid ez (sfile_of f) in (SRev (fst o), snd o) end) reqs)
  | Case hooks _ reqs =>
    MObs (model_regs hooks)
         (map (fun q => match q with (path, b, r, _, _) => (admit_request hooks path b r, admit_effects hooks path b r) end) reqs)
  | CConc hooks _ reqs moves =>
    let rs := map creq_of reqs in
    MConc (model_regs hooks) (outs rs (moves_run hooks rs moves))
  | CCtx hooks _ reqs =>
    MCtx (model_regs (map strip hooks))
         (map (fun x => match x with ((path, b, r, _, _), _) => ctx_request hooks path b r end) reqs)
  | CCrash => MCrash
  end.

Definition reg_eqb (a b : reg) : bool :=
  N.eqb (g_hook a) (g_hook b) && btype_eqb (g_type a) (g_type b)
  && bytes_eqb (g_name a) (g_name b) && bytes_eqb (g_path a) (g_path b).

Definition amsg_eqb (a b : amsg) : bool :=
  match a, b with
  | AMNone, AMNone | AMHookFailed, AMHookFailed | AMNoHook, AMNoHook
  | AMPropError, AMPropError | AMOther, AMOther => true
  | AMHook x, AMHook y => N.eqb x y
  | _, _ => false
  end.

Definition review_eqb (a b : review) : bool :=
  N.eqb (a_uid a) (a_uid b) && Bool.eqb (a_allowed a) (a_allowed b) && N.eqb (a_code a) (a_code b)
  && amsg_eqb (a_msg a) (a_msg b) && list_eqb N.eqb (a_warnings a) (a_warnings b)
  && N.eqb (a_patch a) (a_patch b) && Bool.eqb (a_patchtype a) (a_patchtype b).

Definition answer_eqb (a b : answer) : bool :=
  match a, b with
  | AStatus x, AStatus y => N.eqb x y
  | AReview x, AReview y => review_eqb x y
  | _, _ => false
  end.

Definition ran_eqb (a b : ran) : bool :=
  match a, b with
  | None, None => true
  | Some (h, (t, n)), Some (h', (t', n')) => N.eqb h h' && btype_eqb t t' && bytes_eqb n n'
  | _, _ => false
  end.

Definition obs_eqb (a b : answer * ran * (bool * bool)) : bool :=
  answer_eqb (fst (fst a)) (fst (fst b)) && ran_eqb (snd (fst a)) (snd (fst b))
  && Bool.eqb (fst (snd a)) (fst (snd b)) && Bool.eqb (snd (snd a)) (snd (snd b)).

Definition cout_eqb (a b : cout) : bool :=
  obs_eqb (fst a) (fst b) && Bool.eqb (snd a) (snd b).

Definition rtype_eqb (a b : rtype) : bool :=
  match a, b with
  | RtAbsent, RtAbsent | RtValidating, RtValidating | RtMutating, RtMutating | RtConversion, RtConversion
  | RtGroup, RtGroup | RtSchedule, RtSchedule | RtKubernetes, RtKubernetes => true
  | _, _ => false
  end.

(* the keys of a JSON object are a set *)
Definition set_eqb (a b : list N) : bool :=
  forallb (fun k => mem_N k b) a && forallb (fun k => mem_N k a) b.

Definition rendered_eqb (a b : rendered) : bool :=
  bytes_eqb (r_binding a) (r_binding b) && rtype_eqb (r_type a) (r_type b)
  && option_eqb set_eqb (r_snapshots a) (r_snapshots b)
  && option_eqb N.eqb (r_group a) (r_group b) && option_eqb N.eqb (r_review a) (r_review b).

Definition ctx_out_eqb (m : (answer * ran) * (bool * bool) * option rendered) (x : req * option rendered) : bool :=
  match x with
  | ((_, _, _, o, e), shown) => obs_eqb (fst (fst m), snd (fst m)) (o, e) && option_eqb rendered_eqb (snd m) shown
  end.

Definition smsg_eqb (a b : smsg) : bool :=
  match a, b with
  | SMClass x, SMClass y => amsg_eqb x y
  | SMText x, SMText y => bytes_eqb x y
  | _, _ => false
  end.

(* full equality: every warning, every byte of the patch and of the message *)
Definition sreview_eqb (a b : sreview) : bool :=
  N.eqb (sa_uid a) (sa_uid b) && Bool.eqb (sa_allowed a) (sa_allowed b) && N.eqb (sa_code a) (sa_code b)
  && smsg_eqb (sa_msg a) (sa_msg b) && list_eqb bytes_eqb (sa_warnings a) (sa_warnings b)
  && bytes_eqb (sa_patch a) (sa_patch b) && Bool.eqb (sa_patchtype a) (sa_patchtype b).

Definition sanswer_eqb (a b : sanswer) : bool :=
  match a, b with
  | SStatus x, SStatus y => N.eqb x y
  | SRev x, SRev y => sreview_eqb x y
  | _, _ => false
  end.

Definition sresp_eqb (a b : sresp) : bool :=
  Bool.eqb (s_allowed a) (s_allowed b) && bytes_eqb (s_msg a) (s_msg b)
  && list_eqb bytes_eqb (s_warnings a) (s_warnings b) && bytes_eqb (s_patch a) (s_patch b).

(* the log step on its own against C14_SizeModel.dump_step: the text, and the response afterwards *)
Definition dump_agrees (f : zfile) (d : option (cb * bool)) : bool :=
  match d with
  | None => true
  | Some (text, unchanged) =>
    match sfile_of f with
    | SResp r => bytes_eqb (fst (dump_step r)) (expand text) && Bool.eqb (sresp_eqb (snd (dump_step r)) r) unchanged
    | _ => false
    end
  end.

Definition size_out_eqb (m : sanswer * ran) (q : zreq) : bool :=
  match q with (_, _, _, f, (a, who), d) => sanswer_eqb (fst m) (sanswer_of a) && ran_eqb (snd m) who && dump_agrees f d end.

Fixpoint all2 {A B} (f : A -> B -> bool) (l : list A) (l' : list B) : bool :=
  match l, l' with
  | [], [] => true
  | a :: r, b :: r' => f a b && all2 f r r'
  | _, _ => false
  end.

Definition agrees (c : case) : bool :=
  match c, model_obs c with
  | CSize _ regs reqs, MSize mregs os =>
    list_eqb reg_eqb mregs regs && all2 size_out_eqb os reqs
  | Case _ regs reqs, MObs mregs answers =>
    list_eqb reg_eqb mregs regs
    && list_eqb obs_eqb answers (map (fun q => match q with (_, _, _, o, e) => (o, e) end) reqs)
  | CConc _ regs reqs _, MConc mregs os =>
    list_eqb reg_eqb mregs regs
    && list_eqb (option_eqb cout_eqb) os (map (fun x => Some (cout_of x)) reqs)
  | CCtx _ regs reqs, MCtx mregs os =>
    list_eqb reg_eqb mregs regs && all2 ctx_out_eqb os reqs
  | _, _ => false
  end.

Definition P_req (regs : list reg) (q : req) : bool :=
  match q with (path, b, r, (a, who), _) => P regs path b r a who end.

Definition P_case (c : case) : bool :=
  match c with
  | CSize _ regs reqs =>
    forallb (fun q => match q with (path, uid, ez, f, (a, who), _) => P_size regs path uid ez (sfile_of f) (sanswer_of a) who end) reqs
  | Case _ regs reqs => forallb (P_req regs) reqs
  | CConc _ regs reqs _ =>
    P_conc regs (map (fun x => (creq_of x, match x with ((_, _, _, o, _), _) => o end)) reqs)
  | CCtx hooks regs reqs =>
    forallb (fun x => match x with ((path, b, r, (a, who), _), shown) => P_ctx hooks regs path b r a who shown end) reqs
  | CCrash => false
  end.

Definition mismatches (cs : list case) : list N := indices_where (fun c => negb (agrees c)) cs.
Definition spec_violations (cs : list case) : list N := indices_where (fun c => negb (P_case c)) cs.

(* compact notation for the generated cases files *)
Definition R (h : N) (mut : bool) (name path : bytes) : reg :=
  mkReg h (if mut then Mutating else Validating) name path.
Definition W (h : N) (mut : bool) (name : bytes) : ran := Some (h, (if mut then Mutating else Validating, name)).
Definition Rv (uid : N) (allowed : bool) (code : N) (m : amsg) (w : list N) (patch : N) (pt : bool) : answer :=
  AReview (mkReview uid allowed code m w patch pt).
