(* C14_Corr.v — correspondence vocabulary for C14.  A case is a set of hooks with their
   admission bindings, the path the implementation registered for every binding, and a list
   of requests sent to the real router (one operator per case), each with what the hook
   stub was scripted to do (exit status and the four files a hook hands back), the HTTP
   answer, the hook process that ran, and the side effects observed afterwards (marker
   Kubernetes operation applied to the cluster, marker metric present in the hooks' metric
   storage).

   A second class of cases, CConc: requests that OVERLAP in time (one operator, 2-6 requests in
   flight at once, the scripted hook processes held at two points - started, written - and moved on
   by the harness in the order [moves] says: request numbers, each occurrence lets that request run
   to its next hold point or to its end; afterwards every request is let run to its end).  Per
   request the same observations, plus whether the hook process found its four output files empty
   when it started.  The model is the transition system of C14_ConcModel run under these moves;
   every request is judged by C14_Spec.P against its own run (C14_ConcSpec.P_conc).

   A third class, CCtx: hooks whose admission bindings carry `group` / `includeSnapshotsFrom` and that
   have `kubernetes` bindings beside them; the hook process reads its binding context BEFORE it answers
   (it answers as scripted only when it is shown the request, otherwise it denies with message 99); per
   request the same observations as in class Case, plus what the hook process read in
   $BINDING_CONTEXT_PATH (binding, type, keys of snapshots, groupName, review.request.uid).  The model is
   C14_CtxModel.ctx_request; every request is judged by C14_CtxSpec.P_ctx. *)
From Verif Require Import Common C14_Model C14_Spec C14_ConcModel C14_ConcSpec C14_CtxModel C14_CtxSpec.

Definition req := (bytes * body * run * (answer * ran) * (bool * bool))%type.

Inductive case :=
| Case (hooks : list hook) (regs : list reg) (reqs : list req)
| CConc (hooks : list hook) (regs : list reg) (reqs : list (req * bool)) (moves : list N)
| CCtx (hooks : list phook) (regs : list reg) (reqs : list (req * option rendered))
| CCrash.

Inductive mobs :=
| MObs (regs : list reg) (answers : list (answer * ran * (bool * bool)))
| MConc (regs : list reg) (outs : list (option cout))
| MCtx (regs : list reg) (outs : list ((answer * ran) * (bool * bool) * option rendered))
| MCrash.

Definition creq_of (x : req * bool) : creq :=
  match x with ((path, b, r, _, _), _) => mkCR path b r end.
Definition cout_of (x : req * bool) : cout :=
  match x with ((_, _, _, (a, who), eff), em) => (a, who, eff, em) end.

Definition model_obs (c : case) : mobs :=
  match c with
  | Case hooks _ reqs =>
    MObs (model_regs hooks)
         (map (fun q => match q with (path, b, r, _, _) => (admit_request hooks path b r, admit_effects hooks path b r) end) reqs)
  | CConc hooks _ reqs moves =>
    let rs := map creq_of reqs in
    MConc (model_regs hooks) (outs rs (moves_run hooks rs moves))
  | CCtx hooks _ reqs =>
    MCtx (model_regs (map strip hooks))
         (map (fun x => match x with ((path, b, r, _, _), _) => ctx_request hooks path b r end) reqs)
  | CCrash => MCrash
  end.

Definition reg_eqb (a b : reg) : bool :=
  N.eqb (g_hook a) (g_hook b) && btype_eqb (g_type a) (g_type b)
  && bytes_eqb (g_name a) (g_name b) && bytes_eqb (g_path a) (g_path b).

Definition amsg_eqb (a b : amsg) : bool :=
  match a, b with
  | AMNone, AMNone | AMHookFailed, AMHookFailed | AMNoHook, AMNoHook
  | AMPropError, AMPropError | AMOther, AMOther => true
  | AMHook x, AMHook y => N.eqb x y
  | _, _ => false
  end.

Definition review_eqb (a b : review) : bool :=
  N.eqb (a_uid a) (a_uid b) && Bool.eqb (a_allowed a) (a_allowed b) && N.eqb (a_code a) (a_code b)
  && amsg_eqb (a_msg a) (a_msg b) && list_eqb N.eqb (a_warnings a) (a_warnings b)
  && N.eqb (a_patch a) (a_patch b) && Bool.eqb (a_patchtype a) (a_patchtype b).

Definition answer_eqb (a b : answer) : bool :=
  match a, b with
  | AStatus x, AStatus y => N.eqb x y
  | AReview x, AReview y => review_eqb x y
  | _, _ => false
  end.

Definition ran_eqb (a b : ran) : bool :=
  match a, b with
  | None, None => true
  | Some (h, (t, n)), Some (h', (t', n')) => N.eqb h h' && btype_eqb t t' && bytes_eqb n n'
  | _, _ => false
  end.

Definition obs_eqb (a b : answer * ran * (bool * bool)) : bool :=
  answer_eqb (fst (fst a)) (fst (fst b)) && ran_eqb (snd (fst a)) (snd (fst b))
  && Bool.eqb (fst (snd a)) (fst (snd b)) && Bool.eqb (snd (snd a)) (snd (snd b)).

Definition cout_eqb (a b : cout) : bool :=
  obs_eqb (fst a) (fst b) && Bool.eqb (snd a) (snd b).

Definition rtype_eqb (a b : rtype) : bool :=
  match a, b with
  | RtAbsent, RtAbsent | RtValidating, RtValidating | RtMutating, RtMutating | RtConversion, RtConversion
  | RtGroup, RtGroup | RtSchedule, RtSchedule | RtKubernetes, RtKubernetes => true
  | _, _ => false
  end.

(* the keys of a JSON object are a set *)
Definition set_eqb (a b : list N) : bool :=
  forallb (fun k => mem_N k b) a && forallb (fun k => mem_N k a) b.

Definition rendered_eqb (a b : rendered) : bool :=
  bytes_eqb (r_binding a) (r_binding b) && rtype_eqb (r_type a) (r_type b)
  && option_eqb set_eqb (r_snapshots a) (r_snapshots b)
  && option_eqb N.eqb (r_group a) (r_group b) && option_eqb N.eqb (r_review a) (r_review b).

Definition ctx_out_eqb (m : (answer * ran) * (bool * bool) * option rendered) (x : req * option rendered) : bool :=
  match x with
  | ((_, _, _, o, e), shown) => obs_eqb (fst (fst m), snd (fst m)) (o, e) && option_eqb rendered_eqb (snd m) shown
  end.

Fixpoint all2 {A B} (f : A -> B -> bool) (l : list A) (l' : list B) : bool :=
  match l, l' with
  | [], [] => true
  | a :: r, b :: r' => f a b && all2 f r r'
  | _, _ => false
  end.

Definition agrees (c : case) : bool :=
  match c, model_obs c with
  | Case _ regs reqs, MObs mregs answers =>
    list_eqb reg_eqb mregs regs
    && list_eqb obs_eqb answers (map (fun q => match q with (_, _, _, o, e) => (o, e) end) reqs)
  | CConc _ regs reqs _, MConc mregs os =>
    list_eqb reg_eqb mregs regs
    && list_eqb (option_eqb cout_eqb) os (map (fun x => Some (cout_of x)) reqs)
  | CCtx _ regs reqs, MCtx mregs os =>
    list_eqb reg_eqb mregs regs && all2 ctx_out_eqb os reqs
  | _, _ => false
  end.

Definition P_req (regs : list reg) (q : req) : bool :=
  match q with (path, b, r, (a, who), _) => P regs path b r a who end.

Definition P_case (c : case) : bool :=
  match c with
  | Case _ regs reqs => forallb (P_req regs) reqs
  | CConc _ regs reqs _ =>
    P_conc regs (map (fun x => (creq_of x, match x with ((_, _, _, o, _), _) => o end)) reqs)
  | CCtx hooks regs reqs =>
    forallb (fun x => match x with ((path, b, r, (a, who), _), shown) => P_ctx hooks regs path b r a who shown end) reqs
  | CCrash => false
  end.

Definition mismatches (cs : list case) : list N := indices_where (fun c => negb (agrees c)) cs.
Definition spec_violations (cs : list case) : list N := indices_where (fun c => negb (P_case c)) cs.

(* compact notation for the generated cases files *)
Definition R (h : N) (mut : bool) (name path : bytes) : reg :=
  mkReg h (if mut then Mutating else Validating) name path.
Definition W (h : N) (mut : bool) (name : bytes) : ran := Some (h, (if mut then Mutating else Validating, name)).
Definition Rv (uid : N) (allowed : bool) (code : N) (m : amsg) (w : list N) (patch : N) (pt : bool) : answer :=
  AReview (mkReview uid allowed code m w patch pt).
