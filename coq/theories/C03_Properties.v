(* C03_Properties.v — the property theorems of C03 and nothing else.
   They are stated over Op_Model (operator task flow): [step_q] is the move of ONE queue
   under an action; [Inv] holds in every reachable state (C03_reachable_invariant).
   PARTIAL: that an enabled step is taken in bounded wall-clock time is Go-scheduler
   behaviour; the correspondence observes it, nothing is proved about time. *)
From Verif Require Import Common Op_Model Op_Corr Op_Spec Op_Proofs C03_Spec C03_Proofs.

(* Every reachable state: queue names are unique; a queue in a handler is non-empty (the
   execution in progress is that of its first task: one at a time, head first); and, unless
   shut down, every queue is either in a handler or empty (a worker never idles on work). *)
Theorem C03_reachable_invariant : forall cfg acts, Inv (exec cfg acts init).
Proof. exact reachable_inv. Qed.
Print Assumptions C03_reachable_invariant.

(* Each queue evolves by a function of its own content, the action and the global flags
   only — never of another queue's content or of whether another queue is busy. *)
Theorem C03_queue_local : forall cfg s a,
  NoDup (names (queues s)) -> queues s <> [] ->
  queues (step cfg s a) =
  map (step_q cfg a (sched_on s) (unlocked s) (stopped s) (has_queue (queues s))) (queues s).
Proof. exact step_queue_local. Qed.
Print Assumptions C03_queue_local.

(* A queue stalled by a slow or failing hook does not delay other queues: the end of an
   execution elsewhere, or a tick/event none of whose tasks is routed here, leaves a queue
   exactly as it was. *)
Theorem C03_other_queue_untouched : forall cfg s a q,
  Inv s -> In q (queues s) ->
  match a with
  | Boot | Stop => False
  | Finish qn _ | FinishWait qn | Elapse qn => q_name q <> qn
  | Tick c => filter (fun t => N.eqb (t_queue t) (q_name q)) (sched_tasks cfg (sched_on s) c) = []
  | KubeEv m o => filter (fun t => N.eqb (t_queue t) (q_name q)) (kube_tasks cfg (unlocked s) m o) = []
  end ->
  step_q cfg a (sched_on s) (unlocked s) (stopped s) (has_queue (queues s)) q = q.
Proof. exact other_queue_untouched. Qed.
Print Assumptions C03_other_queue_untouched.

(* Executions of one queue never overlap and arrivals go to the tail in order: while the
   worker is blocked on its head task - a handler runs, or the back-off delay after a failed
   run lasts - its queue only grows at the tail, that task stays its head. *)
Theorem C03_running_queue_only_grows : forall cfg s a q,
  Inv s -> In q (queues s) -> is_running q = true ->
  match a with Finish qn _ | FinishWait qn | Elapse qn => q_name q <> qn | _ => True end ->
  exists extra,
    step_q cfg a (sched_on s) (unlocked s) (stopped s) (has_queue (queues s)) q
    = mkQ (q_name q) (q_items q ++ extra) (q_running q) (q_delay q).
Proof. exact running_queue_only_grows. Qed.
Print Assumptions C03_running_queue_only_grows.

(* Routing: a tick yields exactly one task per enabled schedule binding with that crontab,
   in configuration order, each carrying the queue configured for its binding; likewise a
   kube event of an unlocked monitor; [step_q] appends to a queue exactly the tasks that
   name it, in that order. *)
Theorem C03_sched_tasks_exactly : forall cfg on c,
  sched_tasks cfg on c
  = map sched_task_of (filter (fun hb => mem_N (fst hb) on && N.eqb (sb_cron (snd hb)) c) (sched_pairs cfg)).
Proof. exact sched_tasks_exactly. Qed.
Print Assumptions C03_sched_tasks_exactly.

Theorem C03_kube_tasks_exactly : forall cfg unl m obj,
  kube_tasks cfg unl m obj
  = if mem_N m unl then map (kube_task_of obj) (filter (fun hb => N.eqb (kb_mon (snd hb)) m) (kube_pairs cfg)) else [].
Proof. exact kube_tasks_exactly. Qed.
Print Assumptions C03_kube_tasks_exactly.

(* a queue in its back-off delay stays blocked whatever happens, until the delay elapses *)
Theorem C03_delayed_queue_only_grows : forall cfg s a q,
  Inv s -> In q (queues s) -> q_delay q = true ->
  match a with Elapse qn => q_name q <> qn | _ => True end ->
  exists extra,
    step_q cfg a (sched_on s) (unlocked s) (stopped s) (has_queue (queues s)) q
    = mkQ (q_name q) (q_items q ++ extra) (q_running q) true.
Proof. exact delayed_queue_only_grows. Qed.
Print Assumptions C03_delayed_queue_only_grows.

(* non-vacuity: a reachable state with two busy queues and a waiting task *)
Example C03_hyp_met :
  let cfg := [mkHook 1 false None [] [mkSb 1 1 0 false 1; mkSb 2 2 0 false 2]] in
  let s := exec cfg [Boot; Tick 1; Tick 2; Tick 1]%N init in
  map (fun q => (q_name q, N.of_nat (length (q_items q)), is_running q)) (queues s)
  = [(0, 0, false); (1, 2, true); (2, 1, true)]%N.
Proof. vm_compute. reflexivity. Qed.

(* ... and one with a queue waiting in its back-off delay while the other one works on *)
Example C03_delay_met :
  let cfg := [mkHook 1 false None [] [mkSb 1 1 0 false 1; mkSb 2 2 0 false 2]] in
  let s := exec cfg [Boot; Tick 1; Tick 2; FinishWait 1; Tick 1; Finish 2 true; Tick 2]%N init in
  map (fun q => (q_name q, N.of_nat (length (q_items q)), in_handler q, q_delay q)) (queues s)
  = [(0, 0, false, false); (1, 2, false, true); (2, 1, true, false)]%N.
Proof. vm_compute. reflexivity. Qed.

(* The property's whole decidable predicate (C03_Spec.P: per queue at most one execution and
   always that of the head task, every task sits in the queue configured for its bindings,
   the events of a queue keep their arrival order, an action leaves every queue it does not
   concern exactly as it was) holds of the model's own observations after EVERY action of
   EVERY action sequence - ticks, events, ends of executions with or without a back-off delay,
   ends of delays, shutdown at any point - for every configuration with unique binding names
   and monitors named after their bindings (what the harness generates), when the event
   numbers handed out by the harness increase. *)
Theorem C03_P_holds : forall cfg acts, wf_config cfg = true -> wf_acts acts = true ->
  C03_Spec.P (cfg, acts, Op_Corr.model_obs (cfg, acts, [])) = true.
Proof. exact C03_Proofs.P_holds. Qed.
Print Assumptions C03_P_holds.

(* non-vacuity of the hypotheses: three hooks (one of them v0), kubernetes and schedule bindings
   in three queues, groups, allowFailure, a Synchronization that is not executed; the actions
   contain a tick before Boot, failures with and without back-off delay, events arriving while
   a queue is delayed, shutdown with executions open, actions after shutdown.  The run is not
   idle: queue 2 holds four tasks at some point and the combined execution shows a group. *)
Example C03_P_hyp_met :
  let cfg :=
    [ mkHook 1 false (Some 5%Z) [mkKb 1 0 0 false true 1; mkKb 2 2 7 true true 2; mkKb 3 0 7 false false 3]
                                [mkSb 4 1 0 false 1; mkSb 5 2 7 true 2];
      mkHook 2 false (Some 1%Z) [mkKb 6 2 0 false true 6; mkKb 7 0 3 false true 7] [mkSb 8 1 0 false 1];
      mkHook 3 true None [mkKb 9 0 0 false true 9] [mkSb 10 0 0 false 2] ]%N in
  let acts :=
    [Tick 1; Boot; Finish 0 true; Finish 0 false; FinishWait 0; Tick 1; Elapse 0; Finish 0 true; Finish 0 true;
     Finish 0 true; Finish 0 true; KubeEv 1 1; KubeEv 2 2; KubeEv 2 3; KubeEv 6 4; Tick 2; Tick 1; Finish 2 false;
     FinishWait 2; KubeEv 2 5; Elapse 2; Finish 2 true; Finish 1 true; KubeEv 7 6; KubeEv 3 7; KubeEv 9 8;
     Finish 0 true; Finish 0 true; Finish 0 true; Finish 0 true; Finish 2 true; Stop; Tick 1; KubeEv 1 9;
     Finish 2 true; Finish 1 false; Boot]%N in
  wf_config cfg = true /\ wf_acts acts = true /\
  existsb (fun s => existsb (fun q => N.eqb (q_name q) 2 && Nat.eqb (length (q_items q)) 4) (queues s)) (trace cfg acts) = true /\
  existsb (fun o => existsb (fun e => existsb (fun c => N.eqb (snd (fst (fst c))) K_Group) (eo_ctxs e)) (so_execs o))
          (model_obs (cfg, acts, [])) = true /\
  existsb (fun o => existsb qo_delayed (so_queues o)) (model_obs (cfg, acts, [])) = true.
Proof. vm_compute. repeat split. Qed.
