(* C08_Model.v — executable model of the trigger decision of a kubernetes binding.
   NO proofs here.

   Go anchors (read side by side):
     pkg/kube_events_manager/monitor_config.go  WithEventTypes         -> [with_event_types]
     pkg/hook/config/config_v1.go               OnKubernetesEventConfigV1.{ExecuteHookOnEvents,WatchEventTypes}
                                                                       -> [decl]
                                                HookConfigV1.ConvertAndCheck (event list)
                                                                       -> [effective_types]
     pkg/filter/jq/apply.go                     ApplyFilter            -> [glue] over the oracle's outputs
     pkg/kube_events_manager/filter.go          applyFilter            -> [apply_filter]
     pkg/utils/checksum/checksum.go             CalculateChecksum      -> equality of the serialised projection
     pkg/kube_events_manager/resource_informer.go
                                                handleWatchEvent       -> [handle]
                                                shouldFireEvent        -> [should_fire]
                                                cachedObjects          -> [cache]
                                                loadExistedObjects     -> [load_existed]
     pkg/kube_events_manager/factory.go         FactoryStore.Start     -> [start_replay] (what the shared
                                                                          informer delivers when it is started / joined)
                                                handleWatchEvent's head: tombstone unwrap + type assertion
                                                                       -> [delivery], [unwrap], [handle_d]
     k8s.io/client-go/tools/cache (v0.30.11, the environment: what calls the handlers)
       delta_fifo.go  DeltaFIFO.Replace, controller.go processDeltas,
       shared_informer.go sharedIndexInformer.OnUpdate/distribute      -> [relist]

   Oracles (Section variables, not axioms):
     [jq o] — what gojq produces when the monitor's jqFilter runs on object [o]: the
     outputs in order and whether the run ended with an error (a `halt` ends the run
     without error).  The correspondence instantiates it per case with a table filled
     by the real gojq run's inputs and /usr/bin/jq's answers.
   Assumption: md5 is collision-free on the serialised projections, so "checksums are
     equal" is modelled as "the projections are equal" (json.Marshal of a map sorts its
     keys, so the serialisation is a function of the JSON value). *)
From Verif Require Import Common Json.

Inductive evtype := Added | Modified | Deleted.

Definition evtype_eqb (a b : evtype) : bool :=
  match a, b with
  | Added, Added | Modified, Modified | Deleted, Deleted => true
  | _, _ => false
  end.

(* MonitorConfig.WithEventTypes: nil -> all three, otherwise a copy of the list *)
Definition with_event_types (types : option (list evtype)) : list evtype :=
  match types with
  | None => [Added; Modified; Deleted]
  | Some l => l
  end.

(* ---- the binding as the USER DECLARES it (hook configuration, configVersion v1) ----
   pkg/hook/config/config_v1.go, OnKubernetesEventConfigV1: two keys carry an event list,
       WatchEventTypes     []WatchEventType `json:"watchEvent,omitempty"`          (the deprecated key)
       ExecuteHookOnEvents []WatchEventType `json:"executeHookOnEvent,omitempty"`
   The schema (schemas.go, patternProperties "^(watchEvent|executeHookOnEvent)$") allows for
   either key any array - minItems 0, repetitions allowed - over {Added, Modified, Deleted},
   and both keys side by side.  HookConfig.ConvertAndCheck unmarshals the text with
   sigs.k8s.io/yaml (YAML -> JSON -> encoding/json): a key that is PRESENT yields a non-nil
   slice - also for the empty sequence `[]` -, an ABSENT key leaves the field nil.
     [d_exec]  = executeHookOnEvent: None = key absent, Some l = key present with list l
     [d_watch] = watchEvent, likewise. *)
Record decl := mkDecl {
  d_exec : option (list evtype);
  d_watch : option (list evtype)
}.

(* HookConfigV1.ConvertAndCheck (config_v1.go:133-143), the only writer of
   MonitorConfig.EventTypes on the way from a v1 hook configuration to the informer:
       // executeHookOnEvent is a priority
       if kubeCfg.ExecuteHookOnEvents != nil { monitor.WithEventTypes(kubeCfg.ExecuteHookOnEvents)
       } else { if kubeCfg.WatchEventTypes != nil { monitor.WithEventTypes(kubeCfg.WatchEventTypes)
                } else { monitor.WithEventTypes(nil) } }
   `!= nil`, not `len(..) != 0`: the empty list is a value of its own. *)
Definition effective_types (d : decl) : list evtype :=
  match d_exec d with
  | Some l => with_event_types (Some l)
  | None =>
      match d_watch d with
      | Some w => with_event_types (Some w)
      | None => with_event_types None
      end
  end.

(* the part of MonitorConfig that matters here *)
Record config := mkConfig {
  c_types : list evtype;      (* MonitorConfig.EventTypes *)
  c_filter : bool             (* JqFilter != "" *)
}.

(* resourceInformer.shouldFireEvent *)
Definition should_fire (cfg : config) (t : evtype) : bool := existsb (evtype_eqb t) (c_types cfg).

(* maps.Copy(result, m): every binding of m is written into result (later wins) *)
Definition maps_copy (result m : list (bytes * json)) : list (bytes * json) :=
  fold_left (fun acc kv => obj_set (fst kv) (snd kv) acc) m result.

(* the loop of jq.Filter.ApplyFilter over gojq's outputs:
     result := map{}
     for v := range outputs { if m, ok := v.(map[string]any); ok { maps.Copy(result, m) } }
   every output that is not an object is ignored *)
Definition glue (outs : list json) : json :=
  JObj (fold_left (fun acc v => match v with JObj m => maps_copy acc m | _ => acc end) outs []).

(* well-formedness of what the oracle hands over: a JSON object is a map; its printed
   form is canonical when writing all its bindings into an empty map reproduces it
   (keys unique and in the order [obj_set] keeps them: sorted bytewise).  The harness
   prints every object this way; C08_Corr re-checks it on every case. *)
Definition canon_obj (v : json) : bool :=
  match v with
  | JObj m => json_eqb (JObj (maps_copy [] m)) (JObj m)
  | _ => true
  end.

(* one cached / delivered object: ObjectAndFilterResult *)
Record entry := mkEntry {
  e_obj : json;               (* Object *)
  e_proj : json;              (* the value whose serialisation is checksummed (Metadata.Checksum) *)
  e_fr : option json          (* FilterResult: nil without a jqFilter *)
}.

(* cachedObjects: resourceId -> entry, as an association list kept sorted by id *)
Definition cache := list (N * entry).

Fixpoint c_get (id : N) (c : cache) : option entry :=
  match c with
  | [] => None
  | (k, e) :: r => if N.eqb id k then Some e else c_get id r
  end.

Fixpoint c_set (id : N) (e : entry) (c : cache) : cache :=
  match c with
  | [] => [(id, e)]
  | (k, e') :: r =>
      if N.eqb id k then (id, e) :: r
      else if N.ltb id k then (id, e) :: (k, e') :: r
      else (k, e') :: c_set id e r
  end.

Fixpoint c_del (id : N) (c : cache) : cache :=
  match c with
  | [] => []
  | (k, e') :: r => if N.eqb id k then c_del id r else (k, e') :: c_del id r
  end.

(* a fired KubeEvent{Type: Event, WatchEvents: [t], Objects: [entry]} *)
Record event := mkEvent { ev_type : evtype; ev_id : N; ev_entry : entry }.

(* The argument `object interface{}` of OnAdd/OnUpdate/OnDelete -> handleWatchEvent: its
   dynamic type, as far as the dynamic shared informer of client-go produces it.
     Plain o          *unstructured.Unstructured — every ADDED/MODIFIED/DELETED watch event,
                      the initial list, a resync and the live objects of a relist;
     Tombstone key o  cache.DeletedFinalStateUnknown{Key: key, Obj: o} passed BY VALUE — the
                      only form in which OnDelete hears of an object that disappeared while
                      the watch was broken (DeltaFIFO.Replace finds it missing from the new
                      list; Obj is the last state the informer's store held, Key its store key).
   Any other dynamic type (a pointer to a tombstone, a typed object, nil) never reaches the
   handler of a dynamic informer and makes the type assertion panic: outside the model. *)
Inductive delivery :=
| Plain (o : json)
| Tombstone (key : N) (o : json).

(* handleWatchEvent, before anything else:
     if staleObj, stale := object.(cache.DeletedFinalStateUnknown); stale { object = staleObj.Obj }
     obj := object.( *unstructured.Unstructured )
   for every event type alike; Key is not used (resourceId(obj) is computed from Obj) *)
Definition unwrap (d : delivery) : json :=
  match d with
  | Plain o => o
  | Tombstone _ o => o
  end.

(* a delivered watch event: handler called (OnAdd/OnUpdate/OnDelete), resource id of the
   object, the argument *)
Definition dstep := (evtype * N * delivery)%type.

(* the CHANGE a delivery reports: the form of the argument is no part of it *)
Definition change_of (s : dstep) : evtype * N * json :=
  match s with (t, id, d) => (t, id, unwrap d) end.

Section WithOracle.

  Variable jq : json -> list json * bool.       (* outputs, ended-with-error *)

  (* filter.go applyFilter (FilterFunc = nil): None = error *)
  Definition apply_filter (cfg : config) (o : json) : option entry :=
    if c_filter cfg then
      let (outs, err) := jq o in
      if err then None
      else let filtered := glue outs in Some (mkEntry o filtered (Some filtered))
    else Some (mkEntry o o None).

  (* resourceInformer.handleWatchEvent for object [o] with resource id [id]:
       objFilterRes, err := applyFilter(...); if err != nil { log; return }
       Added/Modified: skipEvent := inCache && cached.Checksum == new.Checksum
                       cachedObjects[id] = objFilterRes; if skipEvent { return }
       Deleted:        delete(cachedObjects, id)
       if shouldFireEvent(eventType) { deliver KubeEvent } *)
  Definition handle (cfg : config) (c : cache) (t : evtype) (id : N) (o : json) : cache * option event :=
    match apply_filter cfg o with
    | None => (c, None)
    | Some e =>
        let fire := if should_fire cfg t then Some (mkEvent t id e) else None in
        match t with
        | Added | Modified =>
            let skip := match c_get id c with
                        | Some cached => json_eqb (e_proj cached) (e_proj e)
                        | None => false
                        end in
            (c_set id e c, if skip then None else fire)
        | Deleted => (c_del id c, fire)
        end
    end.

  (* a history: watch events in delivery order (the informer's handlers run sequentially) *)
  Definition step := (evtype * N * json)%type.

  Fixpoint run (cfg : config) (c : cache) (h : list step) : list (cache * option event) :=
    match h with
    | [] => []
    | (t, id, o) :: r =>
        let (c', ev) := handle cfg c t id o in (c', ev) :: run cfg c' r
    end.

  Definition final_cache (cfg : config) (c : cache) (h : list step) : cache :=
    fold_left (fun c s => match s with (t, id, o) => fst (handle cfg c t id o) end) h c.

  (* handleWatchEvent as the informer's handlers call it: the argument in either form *)
  Definition handle_d (cfg : config) (c : cache) (t : evtype) (id : N) (d : delivery) : cache * option event :=
    handle cfg c t id (unwrap d).

  Fixpoint run_d (cfg : config) (c : cache) (h : list dstep) : list (cache * option event) :=
    match h with
    | [] => []
    | (t, id, d) :: r =>
        let (c', ev) := handle_d cfg c t id d in (c', ev) :: run_d cfg c' r
    end.

  Definition final_cache_d (cfg : config) (c : cache) (h : list dstep) : cache :=
    fold_left (fun c s => match s with (t, id, d) => fst (handle_d cfg c t id d) end) h c.

  (* resourceInformer.loadExistedObjects (called by createSharedInformer when the monitor is
     created, BEFORE the shared informer is started): a direct
       KubeClient.Dynamic().Resource(gvr).Namespace(ns).List(ListOptions)
     and for every item, in list order,
       objFilterRes, err = applyFilter(JqFilter, ..., &obj); if err != nil { return err }
       filteredObjects[resourceId] = objFilterRes
     then every binding of filteredObjects is written into cachedObjects.  No event is fired:
     these objects are the Synchronization snapshot.  [listed] = (resource id, object AS THE
     LIST RETURNED IT); None = the error return (CreateInformers fails, cache untouched). *)
  Fixpoint load_existed (cfg : config) (listed : list (N * json)) (c : cache) : option cache :=
    match listed with
    | [] => Some c
    | (id, o) :: r =>
        match apply_filter cfg o with
        | None => None
        | Some e => load_existed cfg r (c_set id e c)
        end
    end.

End WithOracle.

(* ---- the environment: what the START of the shared informer delivers ----
   resourceInformer.start -> FactoryStore.Start (factory.go): the handler is registered with
   the factory's shared informer (AddEventHandler) and, unless it runs already, the informer
   is started.  Either way client-go calls OnAdd(obj, isInInitialList = true) once for every
   object the shared informer knows:
     - a fresh informer: the reflector's initial list -> DeltaFIFO.Replace on an empty store
       -> one Replaced/Sync delta per item -> processDeltas -> OnAdd;
     - an informer that runs already (a second binding with the same FactoryIndex joins it):
       sharedIndexInformer.AddEventHandler -> addNotification for every item of the indexer.
   The handler's argument is the object AS THE SHARED INFORMER DELIVERS IT - after whatever
   the informer does to objects on their way into its store -; [delivered] lists these
   arguments in delivery order.  handleWatchEvent computes projection and checksum over that
   argument, loadExistedObjects over the item of its own List. *)
Definition start_replay (delivered : list (N * json)) : list dstep :=
  map (fun io => (Added, fst io, Plain (snd io))) delivered.

(* ---- the environment: what a RELIST delivers ----
   After a broken watch that cannot be resumed the reflector lists again and calls
   DeltaFIFO.Replace(list); processDeltas turns the queued deltas into handler calls.
   [store] is what the shared informer's store holds (resource id -> object, the objects of
   the deliveries so far), [listed] the new list:
     - every listed object, in list order: `Replaced` delta -> OnUpdate(old, obj) if the
       store has its key, OnAdd(obj) otherwise (processDeltas).  sharedIndexInformer.OnUpdate
       marks the notification of an object whose resourceVersion is unchanged as a sync, and
       distribute hands syncs only to listeners that are due for a resync: [quiet id] = true
       says that the unchanged re-delivery of [id] is left out;
     - then every key of the store that is not in the list: `Deleted` delta carrying
       DeletedFinalStateUnknown{key, last stored object} BY VALUE -> OnDelete(tombstone). *)
Fixpoint a_get (id : N) (l : list (N * json)) : option json :=
  match l with
  | [] => None
  | (k, o) :: r => if N.eqb id k then Some o else a_get id r
  end.

Definition a_mem (id : N) (l : list (N * json)) : bool :=
  match a_get id l with Some _ => true | None => false end.

Definition unchanged_in (store : list (N * json)) (io : N * json) : bool :=
  match a_get (fst io) store with
  | Some o' => json_eqb o' (snd io)
  | None => false
  end.

Definition relist_live (quiet : N -> bool) (store : list (N * json)) (io : N * json) : list dstep :=
  if quiet (fst io) && unchanged_in store io then []
  else [(if a_mem (fst io) store then Modified else Added, fst io, Plain (snd io))].

Definition relist_gone (listed : list (N * json)) (io : N * json) : list dstep :=
  if a_mem (fst io) listed then [] else [(Deleted, fst io, Tombstone (fst io) (snd io))].

Definition relist (quiet : N -> bool) (store listed : list (N * json)) : list dstep :=
  flat_map (relist_live quiet store) listed ++ flat_map (relist_gone listed) store.

(* ---- the saved-events window: eventCbEnabled / eventBuf ----
   resource_informer.go.  A resourceInformer is created with eventCbEnabled = false.  The tail
   of handleWatchEvent, for a KubeEvent that is to be fired:
       ei.eventBufLock.Lock()
       if ei.eventCbEnabled { ei.eventBufLock.Unlock(); ei.putEvent(kubeEvent) }
       else { ei.eventBuf = append(ei.eventBuf, kubeEvent); ei.eventBufLock.Unlock() }
   - the buffer APPENDS one event per passing delivery; nothing is compared with older entries -
   and enableKubeEventCb (Monitor.EnableKubeEventCb, called by the unlock that follows the
   binding's Synchronization):
       if ei.eventCbEnabled { return }
       ei.eventCbEnabled = true
       for _, kubeEvent := range ei.eventBuf { ei.putEvent(kubeEvent) }
       ei.eventBuf = nil
   (getCachedObjects - Monitor.Snapshot() - also empties the buffer while the events are locked:
   that is the Synchronization snapshot taking over what was saved before it, property C09's
   window class; the operations modelled here are the deliveries and the unlock.)
   [w_cache] cachedObjects, [w_enabled] eventCbEnabled, [w_buf] eventBuf in order.  Every
   operation returns the events handed to the callback (putEvent) by it, in order. *)
Record wstate := mkW { w_cache : cache; w_enabled : bool; w_buf : list event }.

(* what happens to an informer: a delivery, or the unlock *)
Inductive wop := WDeliver (s : dstep) | WUnlock.

Definition opt_list {A} (o : option A) : list A := match o with Some a => [a] | None => [] end.

Section Window.

  Variable jq : json -> list json * bool.

  Definition handle_w (cfg : config) (w : wstate) (t : evtype) (id : N) (d : delivery) : wstate * list event :=
    let (c', ev) := handle_d jq cfg (w_cache w) t id d in
    match ev with
    | None => (mkW c' (w_enabled w) (w_buf w), [])
    | Some e =>
        if w_enabled w then (mkW c' true (w_buf w), [e])
        else (mkW c' false (w_buf w ++ [e]), [])
    end.

  Definition enable_w (w : wstate) : wstate * list event :=
    if w_enabled w then (w, []) else (mkW (w_cache w) true [], w_buf w).

  Definition step_w (cfg : config) (w : wstate) (op : wop) : wstate * list event :=
    match op with
    | WDeliver (t, id, d) => handle_w cfg w t id d
    | WUnlock => enable_w w
    end.

  Fixpoint run_w (cfg : config) (w : wstate) (ops : list wop) : list (wstate * list event) :=
    match ops with
    | [] => []
    | op :: r => let (w', evs) := step_w cfg w op in (w', evs) :: run_w cfg w' r
    end.

  Definition final_w (cfg : config) (w : wstate) (ops : list wop) : wstate :=
    fold_left (fun w op => fst (step_w cfg w op)) ops w.

End Window.

(* the deliveries among the operations *)
Definition deliveries (ops : list wop) : list dstep :=
  flat_map (fun op => match op with WDeliver s => [s] | WUnlock => [] end) ops.

(* a window history: [h1] is delivered while the events are saved, then the unlock, then [h2] *)
Definition window_ops (h1 h2 : list dstep) : list wop :=
  map WDeliver h1 ++ WUnlock :: map WDeliver h2.
