(* C13_GModel.v — the patch-file path of C13_Model.v on the part of the domain that
   C13_Model.v leaves out:

   * a cluster that serves the same Kind in more than one API group/version (CRDs of two
     groups with one Kind; Ingress, Event).  An object is then identified by
     apiVersion + kind + namespace + name, and the executors of patch.go first resolve
     the operation's (apiVersion, kind) to an API resource:
         gvk, err := o.kubeClient.GroupVersionResource(apiVersion, kind)
     (patch.go:100 create, :178 patch, :210 filter, :263 delete);
   * several executions (patch files) handled one after the other by the same
     ObjectPatcher against the same cluster.  The ObjectPatcher of patch.go:26-42 holds a
     client and a logger and nothing else: no state survives an operation, let alone an
     execution.  The model says so by threading the cluster, and only the cluster,
     through the operations and through the executions.

   Resolution is github.com/flant/kube-client Client.GroupVersionResource as the fake
   cluster answers it (an oracle like the api_* layer of C13_Model.v):
     apiVersion == ""  ->  every resource list of the cluster's discovery, in discovery
                           order; the first list that holds the kind wins
                           (client.go apiResourceList / getApiResourceFromResourceLists);
     apiVersion given  ->  the resource list of that groupVersion only
                           (ServerResourcesForGroupVersion); an error when there is none
                           or when it does not hold the kind.
   Kinds are compared exactly (the client also accepts plural and short names in any
   letter case: not modelled, the generator writes kinds as the cluster declares them).

   No proofs in this file. *)
From Coq Require Import String.
From Verif Require Import Common Json C13_Model.

(* "example.io/v1", "v1" *)
Definition gv := bytes.

(* the cluster's API resource lists in discovery order: groupVersion, kinds it serves *)
Definition discovery := list (gv * list bytes).

Definition has_kind (kind : bytes) (ks : list bytes) : bool := existsb (bytes_eqb kind) ks.

(* getApiResourceFromResourceLists over all lists (client.go:488-506) *)
Fixpoint first_serving (kind : bytes) (d : discovery) : option gv :=
  match d with
  | [] => None
  | (g, ks) :: r => if has_kind kind ks then Some g else first_serving kind r
  end.

(* ServerResourcesForGroupVersion: the first list with that groupVersion *)
Fixpoint list_of (g : gv) (d : discovery) : option (list bytes) :=
  match d with
  | [] => None
  | (g', ks) :: r => if bytes_eqb g g' then Some ks else list_of g r
  end.

(* Client.GroupVersionResource(apiVersion, kind); [None] = the error
   "apiVersion '..', kind '..' is not supported by cluster" *)
Definition resolve (d : discovery) (av kind : bytes) : option gv :=
  match av with
  | [] => first_serving kind d
  | _ :: _ =>
    match list_of av d with
    | Some ks => if has_kind kind ks then Some av else None
    | None => None
    end
  end.

(* the object key of this part of the domain: "groupVersion|Kind/namespace/name" *)
Definition key_at (g : gv) (kind ns name : bytes) : key :=
  g ++ B "|" ++ kind ++ B "/" ++ ns ++ B "/" ++ name.

(* the coordinates a delete / patch document carries (operation.go: apiVersion, kind,
   namespace, name); [a_api = []]: the document has no apiVersion *)
Record addr := mkAddr { a_api : bytes; a_kind : bytes; a_ns : bytes; a_name : bytes }.

Inductive gop :=
| GCreate (m : create_mode) (obj : json)
| GDelete (m : del_mode) (a : addr)
| GPatch (a : addr) (body : patch_body) (subresource : bytes) (ignore_missing : bool).

Inductive gdoc := GDOp (o : gop) | GDBad.

(* ParseOperations, as C13_Model.parse *)
Fixpoint gparse (ds : list gdoc) : option (list gop) :=
  match ds with
  | [] => Some []
  | GDBad :: _ => None
  | GDOp o :: r => match gparse r with Some os => Some (o :: os) | None => None end
  end.

(* Unstructured.GetAPIVersion / GetKind / GetNamespace / GetName *)
Definition obj_api (obj : json) : bytes := jstr_of (jget (B "apiVersion") obj).
Definition obj_kind (obj : json) : bytes := jstr_of (jget (B "kind") obj).
Definition obj_md (obj : json) : json := match jget (B "metadata") obj with Some m => m | None => JNull end.
Definition obj_ns (obj : json) : bytes := jstr_of (jget (B "namespace") (obj_md obj)).
Definition obj_name (obj : json) : bytes := jstr_of (jget (B "name") (obj_md obj)).

(* the resolution failed: the error is returned before any API call *)
Definition not_served (c : cluster) : result := (c, [], Some ENotServed).

(* ExecuteOperation: resolve, then what C13_Model says for the resolved resource *)
Definition gexec_op (d : discovery) (c : cluster) (o : gop) : result :=
  match o with
  | GCreate m obj =>
    (* patch.go:91-103: apiVersion and kind are read from the object *)
    match resolve d (obj_api obj) (obj_kind obj) with
    | None => not_served c
    | Some g => exec_create_at c m (key_at g (obj_kind obj) (obj_ns obj) (obj_name obj)) obj
    end
  | GDelete m a =>
    match resolve d (a_api a) (a_kind a) with
    | None => not_served c
    | Some g => exec_delete c m (key_at g (a_kind a) (a_ns a) (a_name a))
    end
  | GPatch a body sub im =>
    match resolve d (a_api a) (a_kind a) with
    | None => not_served c
    | Some g => exec_patch c (key_at g (a_kind a) (a_ns a) (a_name a)) body sub im
    end
  end.

(* ExecuteOperations *)
Fixpoint gexec (d : discovery) (c : cluster) (os : list gop) : cluster * list call * list err :=
  match os with
  | [] => (c, [], [])
  | o :: r =>
    match gexec_op d c o with
    | (c1, calls1, e1) =>
      match gexec d c1 r with
      | (c2, calls2, es) => (c2, calls1 ++ calls2, opt_list e1 ++ es)
      end
    end
  end.

(* one execution: operator.go:667-676 *)
Definition ghandle_run (d : discovery) (c : cluster) (ds : list gdoc) : outcome :=
  match gparse ds with
  | None => mkOutcome false c [] []
  | Some os => match gexec d c os with (c', calls, es) => mkOutcome true c' calls es end
  end.

(* the executions of a session, one patch file each, through the same ObjectPatcher: the
   next execution starts from the cluster the previous one left, and from nothing else *)
Fixpoint ghandle_runs (d : discovery) (c : cluster) (files : list (list gdoc)) : list outcome :=
  match files with
  | [] => []
  | f :: r => let o := ghandle_run d c f in o :: ghandle_runs d (r_cluster o) r
  end.
