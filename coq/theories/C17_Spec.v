(* C17_Spec.v — C17 over the operator harness' observations: once Shutdown has been
   requested no execution starts any more (whatever ticks and events still arrive), and a
   queue's worker has terminated exactly when no handler of it is running any more. *)
From Verif Require Import Common Op_Model Op_Corr Op_Spec.
Open Scope N_scope.

Definition is_stop (a : action) : bool := match a with Stop => true | _ => false end.

(* [stopped] = a Stop action occurred at or before this step *)
Fixpoint steps_ok (stopped : bool) (prev : sobs) (acts : list action) (obs : list sobs) : bool :=
  match acts, obs with
  | [], [] => true
  | a :: acts', cur :: obs' =>
      let stopped' := stopped || is_stop a in
      negb (so_bad cur)
      && (if stopped'
          then match new_execs a prev cur with [] => true | _ => false end
               && match so_started cur with [] => true | _ => false end
               && forallb (fun q => Bool.eqb (qo_worker_stopped q) (negb (qo_running q)) && negb (qo_delayed q)) (so_queues cur)
          else forallb (fun q => negb (qo_worker_stopped q)) (so_queues cur))
      && steps_ok stopped' cur acts' obs'
  | _, _ => false
  end.

Definition P (c : case) : bool := steps_ok false empty_obs (c_acts c) (c_obs c).
