(* C08_Proofs.v — proofs about the trigger-decision model of C08. *)
From Verif Require Import Common Json C08_Model C08_Spec.

(* ---- the cache as a finite map ---- *)

Lemma c_get_set c : forall id e id',
  c_get id' (c_set id e c) = if N.eqb id' id then Some e else c_get id' c.
Proof.
  induction c as [|[k e'] r IH]; intros id e id'; cbn [c_set c_get].
  - destruct (N.eqb id' id); reflexivity.
  - destruct (N.eqb_spec id k) as [E|NE].
    + subst k. cbn [c_get]. destruct (N.eqb id' id); reflexivity.
    + destruct (N.ltb id k).
      * cbn [c_get]. reflexivity.
      * cbn [c_get]. rewrite IH.
        destruct (N.eqb_spec id' k) as [E2|NE2]; [|reflexivity].
        subst k. destruct (N.eqb_spec id' id) as [E3|_]; [congruence | reflexivity].
Qed.

Lemma c_get_del c : forall id id',
  c_get id' (c_del id c) = if N.eqb id' id then None else c_get id' c.
Proof.
  induction c as [|[k e'] r IH]; intros id id'; cbn [c_del c_get].
  - destruct (N.eqb id' id); reflexivity.
  - destruct (N.eqb_spec id k) as [E|NE].
    + subst k. rewrite IH. destruct (N.eqb id' id); reflexivity.
    + cbn [c_get]. rewrite IH.
      destruct (N.eqb_spec id' k) as [E2|NE2]; [|reflexivity].
      subst k. destruct (N.eqb_spec id' id) as [E3|_]; [congruence | reflexivity].
Qed.

Lemma c_get_In c : forall id e, c_get id c = Some e -> In (id, e) c.
Proof.
  induction c as [|[k e'] r IH]; intros id e H; cbn [c_get] in H; [discriminate|].
  destruct (N.eqb_spec id k) as [E|NE].
  - inversion H; subst. left; reflexivity.
  - right. apply IH. exact H.
Qed.

Lemma In_c_set c : forall id e x, In x (c_set id e c) -> x = (id, e) \/ In x c.
Proof.
  induction c as [|[k e'] r IH]; intros id e x H; cbn [c_set] in H.
  - destruct H as [H|[]]; left; symmetry; exact H.
  - destruct (N.eqb id k).
    + destruct H as [H|H]; [left; symmetry; exact H | right; right; exact H].
    + destruct (N.ltb id k).
      * destruct H as [H|H]; [left; symmetry; exact H | right; exact H].
      * destruct H as [H|H]; [right; left; exact H|].
        destruct (IH _ _ _ H) as [H'|H']; [left; exact H' | right; right; exact H'].
Qed.

Lemma In_c_del c : forall id x, In x (c_del id c) -> In x c.
Proof.
  induction c as [|[k e'] r IH]; intros id x H; cbn [c_del] in H; [exact H|].
  destruct (N.eqb id k).
  - right. apply (IH _ _ H).
  - destruct H as [H|H]; [left; exact H | right; apply (IH _ _ H)].
Qed.

Lemma evtype_eqb_eq a b : evtype_eqb a b = true <-> a = b.
Proof. destruct a, b; cbn; split; intros H; try reflexivity; try discriminate. Qed.

(* ---- WithEventTypes default ---- *)

Lemma default_all_three :
  with_event_types None = [Added; Modified; Deleted] /\
  forall filter t, should_fire (mkConfig (with_event_types None) filter) t = true.
Proof. split; [reflexivity|]. intros filter t; destruct t; reflexivity. Qed.

Section WithOracle.

  Variable jq : json -> list json * bool.

  (* ---- the decision, w.r.t. the model's own projection ---- *)

  Definition fire_cond (cfg : config) (c : cache) (t : evtype) (id : N) (e : entry) : bool :=
    should_fire cfg t &&
    match t with
    | Deleted => true
    | _ => match c_get id c with
           | None => true
           | Some cached => negb (json_eqb (e_proj cached) (e_proj e))
           end
    end.

  Lemma fire_iff cfg c t id o e :
    apply_filter jq cfg o = Some e ->
    snd (handle jq cfg c t id o) = if fire_cond cfg c t id e then Some (mkEvent t id e) else None.
  Proof.
    intros Ha. unfold handle, fire_cond. rewrite Ha.
    destruct t; cbn [snd]; destruct (should_fire cfg _); cbn [andb];
      try reflexivity;
      destruct (c_get id c) as [cached|]; try reflexivity;
      destruct (json_eqb (e_proj cached) (e_proj e)); reflexivity.
  Qed.

  Lemma fire_iff_prop cfg c t id o e :
    apply_filter jq cfg o = Some e ->
    (snd (handle jq cfg c t id o) <> None <->
     should_fire cfg t = true /\
     (t = Deleted \/ c_get id c = None \/
      exists cached, c_get id c = Some cached /\ e_proj cached <> e_proj e)).
  Proof.
    intros Ha. rewrite (fire_iff cfg c t id o e Ha). unfold fire_cond.
    destruct (should_fire cfg t); cbn [andb].
    2:{ split; [intros H; exfalso; apply H; reflexivity | intros [H _]; discriminate]. }
    destruct t.
    - destruct (c_get id c) as [cached|] eqn:Eg.
      + destruct (json_eqb (e_proj cached) (e_proj e)) eqn:Ej; cbn [negb].
        * apply json_eqb_eq in Ej. split; [intros H; exfalso; apply H; reflexivity|].
          intros [_ [H|[H|[c' [H1 H2]]]]]; try discriminate.
          inversion H1; subst c'. contradiction.
        * split; [|intros _; discriminate]. intros _. split; [reflexivity|].
          right; right. exists cached. split; [reflexivity|].
          intros E. rewrite E in Ej. rewrite json_eqb_refl in Ej. discriminate.
      + split; [|intros _; discriminate]. intros _. split; [reflexivity|]. right; left; reflexivity.
    - destruct (c_get id c) as [cached|] eqn:Eg.
      + destruct (json_eqb (e_proj cached) (e_proj e)) eqn:Ej; cbn [negb].
        * apply json_eqb_eq in Ej. split; [intros H; exfalso; apply H; reflexivity|].
          intros [_ [H|[H|[c' [H1 H2]]]]]; try discriminate.
          inversion H1; subst c'. contradiction.
        * split; [|intros _; discriminate]. intros _. split; [reflexivity|].
          right; right. exists cached. split; [reflexivity|].
          intros E. rewrite E in Ej. rewrite json_eqb_refl in Ej. discriminate.
      + split; [|intros _; discriminate]. intros _. split; [reflexivity|]. right; left; reflexivity.
    - split; [|intros _; discriminate]. intros _. split; [reflexivity|]. left; reflexivity.
  Qed.

  (* ---- reachable caches: every entry is what applyFilter makes of its object ---- *)

  Definition cache_wf (cfg : config) (c : cache) : Prop :=
    forall id e, In (id, e) c -> apply_filter jq cfg (e_obj e) = Some e.

  Lemma apply_filter_obj cfg o e : apply_filter jq cfg o = Some e -> e_obj e = o.
  Proof.
    unfold apply_filter. destruct (c_filter cfg).
    - destruct (jq o) as [outs err]. destruct err; [discriminate|]. intros H; inversion H; reflexivity.
    - intros H; inversion H; reflexivity.
  Qed.

  Lemma handle_wf cfg c t id o : cache_wf cfg c -> cache_wf cfg (fst (handle jq cfg c t id o)).
  Proof.
    intros Hwf. unfold handle. destruct (apply_filter jq cfg o) as [e|] eqn:Ha; [|exact Hwf].
    destruct t; cbn [fst].
    - intros id' e' Hin. destruct (In_c_set _ _ _ _ Hin) as [E|Hin'].
      + inversion E; subst. rewrite (apply_filter_obj _ _ _ Ha). exact Ha.
      + apply (Hwf _ _ Hin').
    - intros id' e' Hin. destruct (In_c_set _ _ _ _ Hin) as [E|Hin'].
      + inversion E; subst. rewrite (apply_filter_obj _ _ _ Ha). exact Ha.
      + apply (Hwf _ _ Hin').
    - intros id' e' Hin. apply (Hwf _ _ (In_c_del _ _ _ Hin)).
  Qed.

  Lemma final_cache_wf cfg h : forall c, cache_wf cfg c -> cache_wf cfg (final_cache jq cfg c h).
  Proof.
    induction h as [|[[t id] o] r IH]; intros c Hwf; [exact Hwf|].
    unfold final_cache. cbn [fold_left]. apply IH. apply handle_wf. exact Hwf.
  Qed.

  Lemma empty_wf cfg : cache_wf cfg [].
  Proof. intros id e []. Qed.

  (* re-delivery of the object the snapshot already shows: nothing fires, nothing changes *)
  Lemma redelivery_silent cfg h id e t :
    c_get id (final_cache jq cfg [] h) = Some e -> t <> Deleted ->
    let c := final_cache jq cfg [] h in
    snd (handle jq cfg c t id (e_obj e)) = None /\
    forall id', c_get id' (fst (handle jq cfg c t id (e_obj e))) = c_get id' c.
  Proof.
    intros Hg Ht c.
    assert (Hwf : cache_wf cfg c) by (apply final_cache_wf, empty_wf).
    assert (Ha : apply_filter jq cfg (e_obj e) = Some e) by (apply (Hwf id), c_get_In; exact Hg).
    split.
    - rewrite (fire_iff cfg c t id (e_obj e) e Ha). unfold fire_cond. fold c in Hg. rewrite Hg.
      rewrite json_eqb_refl. cbn [negb]. destruct t; [| |contradiction]; rewrite andb_false_r; reflexivity.
    - intros id'. unfold handle. rewrite Ha. fold c in Hg.
      destruct t; [| |contradiction]; cbn [fst]; rewrite c_get_set;
        destruct (N.eqb_spec id' id) as [E|_]; try reflexivity; subst id'; symmetry; exact Hg.
  Qed.

  (* ---- the cache always holds the latest object ---- *)

  (* the specification's "latest object of [id]": what the last non-failing delivery for
     [id] left (None after a Deleted) *)
  Fixpoint latest (id : N) (start : option json) (h : list step) : option json :=
    match h with
    | [] => start
    | (t, id', o) :: r =>
        latest id (if N.eqb id id' then match t with Deleted => None | _ => Some o end else start) r
    end.

  Definition never_fails (cfg : config) (h : list step) : Prop :=
    forall s, In s h -> apply_filter jq cfg (snd s) <> None.

  Lemma cache_latest_from cfg id h : forall c,
    never_fails cfg h ->
    option_map e_obj (c_get id (final_cache jq cfg c h)) = latest id (option_map e_obj (c_get id c)) h.
  Proof.
    induction h as [|[[t id'] o] r IH]; intros c Hnf; [reflexivity|].
    unfold final_cache. cbn [fold_left latest].
    change (fold_left _ r ?x) with (final_cache jq cfg x r).
    rewrite IH by (intros s Hs; apply Hnf; right; exact Hs).
    f_equal.
    assert (Hne : apply_filter jq cfg o <> None) by (apply (Hnf (t, id', o)); left; reflexivity).
    unfold handle. destruct (apply_filter jq cfg o) as [e|] eqn:Ha; [|contradiction].
    pose proof (apply_filter_obj _ _ _ Ha) as Eo.
    destruct t; cbn [fst]; rewrite ?c_get_set, ?c_get_del;
      destruct (N.eqb id id'); cbn [option_map]; try rewrite Eo; reflexivity.
  Qed.

  Lemma cache_always_latest cfg h id :
    never_fails cfg h ->
    option_map e_obj (c_get id (final_cache jq cfg [] h)) = latest id None h.
  Proof. intros Hnf. apply (cache_latest_from cfg id h [] Hnf). Qed.

  (* ---- the model satisfies P outside the triggers ---- *)

  Definition to_obs (r : cache * option event) : obs :=
    mkObs (match snd r with Some ev => [ev_type ev] | None => [] end)
          (map (fun ie => (fst ie, e_obj (snd ie))) (fst r)).

  Definition model_obs (cfg : config) (h : list step) : list obs := map to_obs (run jq cfg [] h).

  (* the oracle hands over canonical objects *)
  Definition oracle_canonical (h : list step) : Prop :=
    forall s, In s h -> forallb canon_obj (fst (jq (snd s))) = true.

  Section Partial.
    Variable types : list evtype.
    Variable filter : bool.
    Let cfg := mkConfig types filter.

    (* an object on which the filter yields exactly one canonical object without failing *)
    Definition good (o : json) : Prop :=
      filter = true -> exists m, jq o = ([JObj m], false) /\ maps_copy [] m = m.

    Definition g (ie : N * entry) : N * (json * proj) :=
      (fst ie, (e_obj (snd ie), projection jq filter (e_obj (snd ie)))).

    Lemma good_apply o : good o ->
      exists e, apply_filter jq cfg o = Some e /\ e_obj e = o /\
                forall o' e', good o' -> apply_filter jq cfg o' = Some e' ->
                  json_eqb (e_proj e') (e_proj e) = proj_eqb (projection jq filter o') (projection jq filter o).
    Proof.
      intros Hg. unfold apply_filter, projection, cfg. cbn [c_filter].
      destruct filter eqn:Ef.
      - destruct (Hg Ef) as (m & Hj & Hm). rewrite Hj.
        eexists. split; [reflexivity|]. split; [reflexivity|].
        intros o' e' Hg' Ha'. destruct (Hg' Ef) as (m' & Hj' & Hm'). rewrite Hj' in Ha' |- *.
        inversion Ha'; subst e'. cbn [e_proj].
        unfold glue. cbn [fold_left]. rewrite Hm, Hm'.
        unfold proj_eqb, pair_eqb. cbn [fst snd list_eqb Bool.eqb]. rewrite !andb_true_r. reflexivity.
      - eexists. split; [reflexivity|]. split; [reflexivity|].
        intros o' e' _ Ha'. inversion Ha'; subst e'. cbn [e_proj].
        unfold proj_eqb, pair_eqb. cbn [fst snd list_eqb Bool.eqb]. rewrite !andb_true_r. reflexivity.
    Qed.

    Lemma k_get_map c : forall id,
      k_get id (map g c) = option_map (fun e => (e_obj e, projection jq filter (e_obj e))) (c_get id c).
    Proof.
      induction c as [|[k e] r IH]; intros id; [reflexivity|].
      cbn [map g k_get c_get fst snd]. destruct (N.eqb id k); [reflexivity | apply IH].
    Qed.

    Lemma k_set_map c : forall id e,
      k_set id (e_obj e, projection jq filter (e_obj e)) (map g c) = map g (c_set id e c).
    Proof.
      induction c as [|[k e'] r IH]; intros id e; [reflexivity|].
      cbn [map g k_set c_set fst snd]. destruct (N.eqb id k); [reflexivity|].
      destruct (N.ltb id k); [reflexivity|]. cbn [map]. f_equal. apply IH.
    Qed.

    Lemma k_del_map c : forall id, k_del id (map g c) = map g (c_del id c).
    Proof.
      induction c as [|[k e'] r IH]; intros id; [reflexivity|].
      cbn [map g k_del c_del fst snd]. destruct (N.eqb id k); [apply IH|].
      cbn [map]. f_equal. apply IH.
    Qed.

    Lemma snapshot_map c :
      map (fun kv : N * (json * proj) => (fst kv, fst (snd kv))) (map g c)
      = map (fun ie : N * entry => (fst ie, e_obj (snd ie))) c.
    Proof. rewrite map_map. apply map_ext. intros [k e]; reflexivity. Qed.

    Lemma snap_eqb_refl l : snap_eqb l l = true.
    Proof.
      apply list_eqb_refl. intros [k o]. unfold pair_eqb. cbn [fst snd].
      rewrite N.eqb_refl, json_eqb_refl. reflexivity.
    Qed.

    Lemma fired_eqb_refl l : fired_eqb l l = true.
    Proof. apply list_eqb_refl. intros t; destruct t; reflexivity. Qed.

    Definition inv (c : cache) : Prop :=
      forall id e, In (id, e) c -> apply_filter jq cfg (e_obj e) = Some e /\ good (e_obj e).

    Lemma P_from_model h : forall c,
      inv c -> (forall s, In s h -> good (snd s)) ->
      P_from jq types filter (map g c) h (map to_obs (run jq cfg c h)) = true.
    Proof.
      induction h as [|[[t id] o] r IH]; intros c Hinv Hgood; [reflexivity|].
      assert (Hgo : good o) by (apply (Hgood (t, id, o)); left; reflexivity).
      destruct (good_apply o Hgo) as (e & Ha & Eo & Hcmp).
      cbn [run]. destruct (handle jq cfg c t id o) as [c' ev] eqn:Eh.
      cbn [map P_from].
      assert (Hc' : c' = fst (handle jq cfg c t id o)) by (rewrite Eh; reflexivity).
      assert (Hev : ev = snd (handle jq cfg c t id o)) by (rewrite Eh; reflexivity).
      rewrite (fire_iff cfg c t id o e Ha) in Hev.
      (* the next known map is the image of the next cache *)
      assert (Hk : k_next jq filter (map g c) t id o = map g c').
      { rewrite Hc'. unfold handle. rewrite Ha. unfold k_next.
        destruct t; cbn [fst].
        - rewrite <- Eo. apply k_set_map.
        - rewrite <- Eo. apply k_set_map.
        - apply k_del_map. }
      (* the new cache satisfies the invariant *)
      assert (Hinv' : inv c').
      { rewrite Hc'. unfold handle. rewrite Ha. intros id' e' Hin.
        destruct t; cbn [fst] in Hin.
        - destruct (In_c_set _ _ _ _ Hin) as [E|Hin']; [|apply (Hinv _ _ Hin')].
          inversion E; subst id' e'. rewrite Eo. split; assumption.
        - destruct (In_c_set _ _ _ _ Hin) as [E|Hin']; [|apply (Hinv _ _ Hin')].
          inversion E; subst id' e'. rewrite Eo. split; assumption.
        - apply (Hinv _ _ (In_c_del _ _ _ Hin)). }
      apply andb_true_iff; split.
      - (* this delivery *)
        unfold step_ok. apply andb_true_iff; split.
        + (* fired *)
          assert (Hexp : expected_fire jq types filter (map g c) t id o = fire_cond cfg c t id e).
          { unfold expected_fire, fire_cond, should_fire, listed, cfg. cbn [c_types].
            destruct t; [| |rewrite andb_true_r; reflexivity]; rewrite k_get_map;
              (destruct (c_get id c) as [cached|] eqn:Eg; cbn [option_map]; [|reflexivity]);
              destruct (Hinv id cached (c_get_In _ _ _ Eg)) as [Hac Hgc];
              rewrite <- (Hcmp (e_obj cached) cached Hgc Hac); reflexivity. }
          rewrite Hexp. unfold to_obs. cbn [snd o_fired]. rewrite Hev.
          destruct (fire_cond cfg c t id e); cbn [ev_type]; apply fired_eqb_refl.
        + (* snapshot *)
          rewrite Hk. rewrite snapshot_map. unfold to_obs. cbn [fst o_snapshot]. apply snap_eqb_refl.
      - rewrite Hk. apply IH; [exact Hinv'|]. intros s Hs. apply Hgood. right; exact Hs.
    Qed.

    (* outside both triggers every object of the history is good *)
    Lemma triggers_off_good h :
      oracle_canonical h -> T_F8 jq filter h = false -> T_F16 jq filter h = false ->
      forall s, In s h -> good (snd s).
    Proof.
      intros Hcan H8 H16 s Hs Hf. unfold T_F8 in H8. unfold T_F16 in H16. rewrite Hf in H8, H16.
      cbn [andb] in H8, H16.
      assert (E16 : snd (jq (snd s)) = false).
      { destruct (snd (jq (snd s))) eqn:E; [|reflexivity].
        assert (existsb (fun s => snd (jq (snd s))) h = true) by (apply existsb_exists; exists s; split; assumption).
        congruence. }
      assert (E8 : single_object (fst (jq (snd s))) = true).
      { destruct (single_object (fst (jq (snd s)))) eqn:E; [reflexivity|].
        assert (existsb (fun s => negb (snd (jq (snd s))) && negb (single_object (fst (jq (snd s))))) h = true).
        { apply existsb_exists. exists s. split; [assumption|]. rewrite E16, E. reflexivity. }
        congruence. }
      specialize (Hcan s Hs).
      destruct (jq (snd s)) as [outs err]. cbn [fst snd] in *. subst err.
      destruct outs as [|v outs']; [discriminate|].
      destruct v; try discriminate.
      destruct outs' as [|w outs'']; [|discriminate].
      exists m. split; [reflexivity|].
      cbn [forallb canon_obj] in Hcan. rewrite andb_true_r in Hcan.
      apply json_eqb_eq in Hcan. inversion Hcan. rewrite H0. rewrite H0. reflexivity.
    Qed.

    Lemma partial h :
      oracle_canonical h -> T_F8 jq filter h = false -> T_F16 jq filter h = false ->
      P jq types filter h (model_obs cfg h) = true.
    Proof.
      intros Hcan H8 H16. unfold P, model_obs.
      apply (P_from_model h []).
      - intros id e [].
      - apply triggers_off_good; assumption.
    Qed.

    (* ---- the binding's start: loadExistedObjects makes the listed objects known ---- *)

    Lemma load_existed_model listed : forall c,
      inv c -> (forall io, In io listed -> good (snd io)) ->
      exists c0, load_existed jq cfg listed c = Some c0 /\ inv c0 /\
        map g c0
        = fold_left (fun k io => k_set (fst io) (snd io, projection jq filter (snd io)) k) listed (map g c).
    Proof.
      induction listed as [|[id o] r IH]; intros c Hinv Hgood.
      - exists c. split; [reflexivity|]. split; [exact Hinv | reflexivity].
      - assert (Hgo : good o) by (apply (Hgood (id, o)); left; reflexivity).
        destruct (good_apply o Hgo) as (e & Ha & Eo & _).
        cbn [load_existed fold_left fst snd]. rewrite Ha.
        destruct (IH (c_set id e c)) as (c0 & Hl & Hinv0 & Hmap).
        + intros id' e' Hin. destruct (In_c_set _ _ _ _ Hin) as [E|Hin']; [|apply (Hinv _ _ Hin')].
          inversion E; subst id' e'. rewrite Eo. split; assumption.
        + intros io Hio. apply Hgood. right; exact Hio.
        + exists c0. split; [exact Hl|]. split; [exact Hinv0|].
          rewrite Hmap. rewrite <- k_set_map. rewrite Eo. reflexivity.
    Qed.

    Lemma partial_start_steps listed h :
      oracle_canonical (listed_steps listed ++ h) ->
      T_F8 jq filter (listed_steps listed ++ h) = false ->
      T_F16 jq filter (listed_steps listed ++ h) = false ->
      exists c0, load_existed jq cfg listed [] = Some c0 /\
        P_start jq types filter listed h (map to_obs (run jq cfg c0 h)) = true.
    Proof.
      intros Hcan H8 H16.
      pose proof (triggers_off_good _ Hcan H8 H16) as Hgood.
      destruct (load_existed_model listed []) as (c0 & Hl & Hinv0 & Hmap).
      - intros id e [].
      - intros io Hio. apply (Hgood (Added, fst io, snd io)). apply in_or_app. left.
        unfold listed_steps. apply (in_map (fun io => (Added, fst io, snd io))). exact Hio.
      - exists c0. split; [exact Hl|]. unfold P_start, known_of_list.
        cbn [map] in Hmap. rewrite <- Hmap. apply P_from_model; [exact Hinv0|].
        intros s Hs. apply Hgood. apply in_or_app. right. exact Hs.
    Qed.

  End Partial.

  (* ---- the form of the delivered argument (object / tombstone by value) ---- *)

  Lemma tombstone_same cfg c t id key o :
    handle_d jq cfg c t id (Tombstone key o) = handle_d jq cfg c t id (Plain o).
  Proof. reflexivity. Qed.

  Lemma run_d_changes cfg h : forall c, run_d jq cfg c h = run jq cfg c (map change_of h).
  Proof.
    induction h as [|[[t id] d] r IH]; intros c; [reflexivity|].
    cbn [run_d map change_of run]. unfold handle_d.
    destruct (handle jq cfg c t id (unwrap d)) as [c' ev]. f_equal. apply IH.
  Qed.

  Lemma final_cache_d_changes cfg h : forall c,
    final_cache_d jq cfg c h = final_cache jq cfg c (map change_of h).
  Proof.
    induction h as [|[[t id] d] r IH]; intros c; [reflexivity|].
    unfold final_cache_d, final_cache. cbn [fold_left map change_of].
    apply IH.
  Qed.

  Definition model_obs_d (cfg : config) (h : list dstep) : list obs := map to_obs (run_d jq cfg [] h).

  Lemma model_obs_d_changes cfg h : model_obs_d cfg h = model_obs cfg (map change_of h).
  Proof. unfold model_obs_d, model_obs. rewrite run_d_changes. reflexivity. Qed.

  (* a Deleted delivery, in either form, on whose object the filter does not fail: fires iff
     Deleted is listed, carries the delivered object, removes exactly its id from the cache *)
  Lemma deleted_any_form cfg c id d e :
    apply_filter jq cfg (unwrap d) = Some e ->
    snd (handle_d jq cfg c Deleted id d)
      = (if should_fire cfg Deleted then Some (mkEvent Deleted id e) else None) /\
    e_obj e = unwrap d /\
    forall id', c_get id' (fst (handle_d jq cfg c Deleted id d))
                = if N.eqb id' id then None else c_get id' c.
  Proof.
    intros Ha. unfold handle_d, handle. rewrite Ha. cbn [fst snd].
    split; [reflexivity|]. split; [apply (apply_filter_obj _ _ _ Ha)|].
    intros id'. apply c_get_del.
  Qed.

  (* the property over histories of deliveries: the specification speaks of the changes *)
  Lemma partial_d types filter h :
    oracle_canonical (map change_of h) ->
    T_F8 jq filter (map change_of h) = false -> T_F16 jq filter (map change_of h) = false ->
    P jq types filter (map change_of h) (model_obs_d (mkConfig types filter) h) = true.
  Proof. intros Hcan H8 H16. rewrite model_obs_d_changes. apply partial; assumption. Qed.

  (* ---- a relist brings the snapshot to the listed state ---- *)

  Lemma latest_app id a : forall s b, latest id s (a ++ b) = latest id (latest id s a) b.
  Proof.
    induction a as [|[[t id'] o] r IH]; intros s b; [reflexivity|].
    cbn [app latest]. apply IH.
  Qed.

  Section Relist.
    Variable quiet : N -> bool.
    Variable store listed : list (N * json).
    Variable id : N.

    Let live (l : list (N * json)) : list step := map change_of (flat_map (relist_live quiet store) l).
    Let gone (l : list (N * json)) : list step := map change_of (flat_map (relist_gone listed) l).

    Lemma a_get_notin l : ~ In id (map fst l) -> a_get id l = None.
    Proof.
      induction l as [|[k o] r IH]; intros Hn; [reflexivity|].
      cbn [a_get]. destruct (N.eqb_spec id k) as [E|NE].
      - exfalso. apply Hn. left. cbn [fst]. congruence.
      - apply IH. intros Hin. apply Hn. right. exact Hin.
    Qed.

    Lemma live_cons k o r : live ((k, o) :: r) = map change_of (relist_live quiet store (k, o)) ++ live r.
    Proof. unfold live. cbn [flat_map]. apply map_app. Qed.

    Lemma gone_cons k o r : gone ((k, o) :: r) = map change_of (relist_gone listed (k, o)) ++ gone r.
    Proof. unfold gone. cbn [flat_map]. apply map_app. Qed.

    Lemma latest_live_head_other k o s : N.eqb id k = false ->
      latest id s (map change_of (relist_live quiet store (k, o))) = s.
    Proof.
      intros NE. unfold relist_live. cbn [fst snd].
      destruct (quiet k && unchanged_in store (k, o)); [reflexivity|].
      cbn [map change_of unwrap latest]. rewrite NE. reflexivity.
    Qed.

    Lemma latest_live_other l : forall s, a_get id l = None -> latest id s (live l) = s.
    Proof.
      induction l as [|[k o] r IH]; intros s Hn; [reflexivity|].
      cbn [a_get] in Hn. destruct (N.eqb id k) eqn:NE; [discriminate|].
      rewrite live_cons, latest_app, (latest_live_head_other k o s NE). apply IH. exact Hn.
    Qed.

    Lemma latest_live_hit l : forall s o,
      NoDup (map fst l) -> a_get id l = Some o ->
      (quiet id && unchanged_in store (id, o) = true -> s = Some o) ->
      latest id s (live l) = Some o.
    Proof.
      induction l as [|[k o'] r IH]; intros s o Hnd Hg Hq; [discriminate|].
      cbn [map fst] in Hnd. inversion Hnd as [|x xs Hnotin Hnd']; subst x xs.
      cbn [a_get] in Hg. rewrite live_cons, latest_app.
      destruct (N.eqb_spec id k) as [E|NE].
      - subst k. inversion Hg; subst o'.
        assert (Hr : a_get id r = None) by (apply a_get_notin; exact Hnotin).
        rewrite (latest_live_other r _ Hr).
        unfold relist_live. cbn [fst snd].
        destruct (quiet id && unchanged_in store (id, o)) eqn:Eq.
        + cbn [map latest]. apply Hq. reflexivity.
        + cbn [map change_of unwrap latest]. rewrite N.eqb_refl.
          destruct (a_mem id store); reflexivity.
      - assert (NE' : N.eqb id k = false) by (apply N.eqb_neq; exact NE).
        rewrite (latest_live_head_other k o' s NE'). apply IH; assumption.
    Qed.

    Lemma latest_gone_listed l : forall s, a_mem id listed = true -> latest id s (gone l) = s.
    Proof.
      induction l as [|[k o] r IH]; intros s Hm; [reflexivity|].
      rewrite gone_cons, latest_app. rewrite <- (IH s Hm) at 2. f_equal.
      unfold relist_gone. cbn [fst snd].
      destruct (a_mem k listed) eqn:Ek; [reflexivity|].
      cbn [map change_of unwrap latest].
      destruct (N.eqb_spec id k) as [E|NE]; [|reflexivity].
      subst k. congruence.
    Qed.

    Lemma latest_gone_unlisted l : forall s, a_mem id listed = false ->
      latest id s (gone l) = if a_mem id l then None else s.
    Proof.
      induction l as [|[k o] r IH]; intros s Hm; [reflexivity|].
      rewrite gone_cons, latest_app, (IH _ Hm).
      unfold a_mem at 2. cbn [a_get]. fold (a_mem id r).
      unfold relist_gone. cbn [fst snd].
      destruct (N.eqb_spec id k) as [E|NE].
      - subst k. rewrite Hm. cbn [map change_of unwrap latest]. rewrite N.eqb_refl.
        destruct (a_mem id r); reflexivity.
      - destruct (a_mem k listed); [reflexivity|].
        cbn [map change_of unwrap latest].
        destruct (N.eqb_spec id k) as [E|_]; [contradiction|]. reflexivity.
    Qed.

    Lemma latest_relist :
      NoDup (map fst listed) ->
      latest id (a_get id store) (map change_of (relist quiet store listed)) = a_get id listed.
    Proof.
      intros Hnd. unfold relist. rewrite map_app, latest_app.
      fold (live listed). fold (gone store).
      destruct (a_get id listed) as [o|] eqn:Eg.
      - rewrite (latest_live_hit listed (a_get id store) o Hnd Eg).
        + apply latest_gone_listed. unfold a_mem. rewrite Eg. reflexivity.
        + intros Hq. apply andb_true_iff in Hq. destruct Hq as [_ Hu].
          unfold unchanged_in in Hu. cbn [fst snd] in Hu.
          destruct (a_get id store) as [o'|]; [|discriminate].
          apply json_eqb_eq in Hu. congruence.
      - rewrite (latest_live_other listed _ Eg).
        rewrite latest_gone_unlisted by (unfold a_mem; rewrite Eg; reflexivity).
        unfold a_mem. destruct (a_get id store); reflexivity.
    Qed.

  End Relist.

  (* the informer's cache shows what the shared informer's store holds *)
  Definition store_agrees (c : cache) (store : list (N * json)) : Prop :=
    forall id, option_map e_obj (c_get id c) = a_get id store.

  Lemma relist_snapshot cfg quiet c store listed :
    store_agrees c store -> NoDup (map fst listed) ->
    never_fails cfg (map change_of (relist quiet store listed)) ->
    store_agrees (final_cache_d jq cfg c (relist quiet store listed)) listed.
  Proof.
    intros Hag Hnd Hnf id.
    rewrite final_cache_d_changes, (cache_latest_from cfg id _ c Hnf), Hag.
    apply latest_relist. exact Hnd.
  Qed.

  (* ---- the start of a binding: initial list, then the shared informer's replay ---- *)

  (* the property for every start (any listed objects) followed by any deliveries - the
     informer's replay of the listed objects included - outside the two findings *)
  Lemma partial_start types filter listed (h : list dstep) :
    oracle_canonical (listed_steps listed ++ map change_of h) ->
    T_F8 jq filter (listed_steps listed ++ map change_of h) = false ->
    T_F16 jq filter (listed_steps listed ++ map change_of h) = false ->
    exists c0, load_existed jq (mkConfig types filter) listed [] = Some c0 /\
      P_start jq types filter listed (map change_of h)
              (map to_obs (run_d jq (mkConfig types filter) c0 h)) = true.
  Proof.
    intros Hcan H8 H16.
    destruct (partial_start_steps types filter listed (map change_of h) Hcan H8 H16) as (c0 & Hl & HP).
    exists c0. split; [exact Hl|]. rewrite run_d_changes. exact HP.
  Qed.

  Lemma a_get_none_notin id l : ~ In id (map fst l) -> a_get id l = None.
  Proof.
    induction l as [|[k o] r IH]; intros Hn; [reflexivity|].
    cbn [a_get]. destruct (N.eqb_spec id k) as [E|NE].
    - exfalso. apply Hn. left. cbn [fst]. congruence.
    - apply IH. intros Hin. apply Hn. right. exact Hin.
  Qed.

  (* what loadExistedObjects leaves: well-formed entries, and for every id the listed object *)
  Lemma load_existed_cache cfg listed : forall c c0,
    NoDup (map fst listed) -> cache_wf cfg c -> load_existed jq cfg listed c = Some c0 ->
    cache_wf cfg c0 /\
    forall id, option_map e_obj (c_get id c0)
               = match a_get id listed with Some o => Some o | None => option_map e_obj (c_get id c) end.
  Proof.
    induction listed as [|[k o] r IH]; intros c c0 Hnd Hwf Hl.
    - cbn [load_existed] in Hl. inversion Hl; subst c0. split; [exact Hwf|]. intros id. reflexivity.
    - cbn [map fst] in Hnd. inversion Hnd as [|x xs Hnotin Hnd']; subst x xs.
      cbn [load_existed] in Hl. destruct (apply_filter jq cfg o) as [e|] eqn:Ha; [|discriminate].
      pose proof (apply_filter_obj _ _ _ Ha) as Eo.
      assert (Hwf' : cache_wf cfg (c_set k e c)).
      { intros id' e' Hin. destruct (In_c_set _ _ _ _ Hin) as [E|Hin']; [|apply (Hwf _ _ Hin')].
        inversion E; subst id' e'. rewrite Eo. exact Ha. }
      destruct (IH (c_set k e c) c0 Hnd' Hwf' Hl) as [Hwf0 Hget].
      split; [exact Hwf0|]. intros id. rewrite Hget. cbn [a_get]. rewrite c_get_set.
      destruct (N.eqb_spec id k) as [E|NE].
      + subst id. rewrite (a_get_none_notin k r Hnotin). cbn [option_map]. rewrite Eo. reflexivity.
      + reflexivity.
  Qed.

  Lemma a_get_in_nodup l : forall id o, NoDup (map fst l) -> In (id, o) l -> a_get id l = Some o.
  Proof.
    induction l as [|[k o'] r IH]; intros id o Hnd Hin; [destruct Hin|].
    cbn [map fst] in Hnd. inversion Hnd as [|x xs Hnotin Hnd']; subst x xs.
    cbn [a_get]. destruct Hin as [E|Hin].
    - inversion E; subst. rewrite N.eqb_refl. reflexivity.
    - destruct (N.eqb_spec id k) as [E|NE].
      + subst k. exfalso. apply Hnotin. apply (in_map fst _ _ Hin).
      + apply IH; assumption.
  Qed.

  (* one re-delivery of an object the cache holds, in any reachable cache *)
  Lemma redelivery_step cfg c id e t :
    cache_wf cfg c -> c_get id c = Some e -> t <> Deleted ->
    snd (handle jq cfg c t id (e_obj e)) = None /\
    forall id', c_get id' (fst (handle jq cfg c t id (e_obj e))) = c_get id' c.
  Proof.
    intros Hwf Hg Ht.
    assert (Ha : apply_filter jq cfg (e_obj e) = Some e) by (apply (Hwf id), c_get_In; exact Hg).
    split.
    - rewrite (fire_iff cfg c t id (e_obj e) e Ha). unfold fire_cond. rewrite Hg.
      rewrite json_eqb_refl. cbn [negb]. destruct t; [| |contradiction]; rewrite andb_false_r; reflexivity.
    - intros id'. unfold handle. rewrite Ha.
      destruct t; [| |contradiction]; cbn [fst]; rewrite c_get_set;
        destruct (N.eqb_spec id' id) as [E|_]; try reflexivity; subst id'; symmetry; exact Hg.
  Qed.

  Lemma replay_silent_from cfg c0 delivered : forall c,
    cache_wf cfg c -> (forall id, c_get id c = c_get id c0) ->
    (forall io, In io delivered -> exists e, c_get (fst io) c0 = Some e /\ e_obj e = snd io) ->
    Forall (fun r : cache * option event => snd r = None /\ forall id, c_get id (fst r) = c_get id c0)
           (run_d jq cfg c (start_replay delivered)).
  Proof.
    induction delivered as [|[id o] r IH]; intros c Hwf Hsame Hin; [constructor|].
    destruct (Hin (id, o) (or_introl eq_refl)) as (e & Hg & Eo). cbn [fst snd] in Hg, Eo.
    cbn [start_replay map fst snd run_d]. unfold handle_d. cbn [unwrap].
    destruct (handle jq cfg c Added id o) as [c' ev] eqn:Eh.
    assert (Hgc : c_get id c = Some e) by (rewrite Hsame; exact Hg).
    assert (Ht : Added <> Deleted) by discriminate.
    destruct (redelivery_step cfg c id e Added Hwf Hgc Ht) as [Hs Hc]. rewrite Eo, Eh in Hs, Hc.
    cbn [fst snd] in Hs, Hc.
    constructor.
    - cbn [fst snd]. split; [exact Hs|]. intros id'. rewrite Hc. apply Hsame.
    - apply IH.
      + assert (E : c' = fst (handle jq cfg c Added id o)) by (rewrite Eh; reflexivity).
        rewrite E. apply handle_wf. exact Hwf.
      + intros id'. rewrite Hc. apply Hsame.
      + intros io Hio. apply Hin. right. exact Hio.
  Qed.

  (* "Re-delivery of an unchanged object (informer start ...) triggers nothing": for every
     binding and every set of existing objects, if what the shared informer delivers at its
     start are objects the initial list returned (same id, same content; any order, any
     multiplicity), then no delivery of the replay fires and every one leaves the cache - the
     snapshot - as loadExistedObjects filled it; that cache shows exactly the listed objects *)
  Lemma start_silent cfg listed delivered c0 :
    NoDup (map fst listed) ->
    load_existed jq cfg listed [] = Some c0 ->
    incl delivered listed ->
    Forall (fun r : cache * option event => snd r = None /\ forall id, c_get id (fst r) = c_get id c0)
           (run_d jq cfg c0 (start_replay delivered)) /\
    store_agrees c0 listed.
  Proof.
    intros Hnd Hl Hincl.
    destruct (load_existed_cache cfg listed [] c0 Hnd (empty_wf cfg) Hl) as [Hwf0 Hget].
    assert (Hag : store_agrees c0 listed).
    { intros id. rewrite Hget. cbn [c_get option_map]. destruct (a_get id listed); reflexivity. }
    split; [|exact Hag].
    apply replay_silent_from; [exact Hwf0 | reflexivity |].
    intros [id o] Hio. cbn [fst snd].
    pose proof (a_get_in_nodup listed id o Hnd (Hincl _ Hio)) as Ea.
    specialize (Hag id). rewrite Ea in Hag.
    destruct (c_get id c0) as [e|]; [|discriminate].
    exists e. split; [reflexivity|]. cbn [option_map] in Hag. inversion Hag. reflexivity.
  Qed.

  (* ---- the binding as declared: executeHookOnEvent / watchEvent -> MonitorConfig.EventTypes ---- *)

  (* the conversion of config_v1.go yields the list the specification reads from the declaration *)
  Lemma effective_is_declared d : effective_types d = declared_types d.
  Proof. destruct d as [[l|] [w|]]; reflexivity. Qed.

  Lemma effective_should_fire d filter t :
    should_fire (mkConfig (effective_types d) filter) t = listed (declared_types d) t.
  Proof. rewrite effective_is_declared. reflexivity. Qed.

  (* executeHookOnEvent present: its value is the effective list, whatever watchEvent says *)
  Lemma exec_priority l w : effective_types (mkDecl (Some l) w) = l.
  Proof. reflexivity. Qed.

  (* whatever is fired carries the type of the delivery, and that type passes the gate *)
  Lemma handle_fired_listed cfg c t id o ev :
    snd (handle jq cfg c t id o) = Some ev -> ev_type ev = t /\ should_fire cfg t = true.
  Proof.
    unfold handle. destruct (apply_filter jq cfg o) as [e|]; [|discriminate].
    destruct (should_fire cfg t) eqn:Es.
    - destruct t; cbn [snd].
      + destruct (match c_get id c with Some cached => json_eqb (e_proj cached) (e_proj e) | None => false end);
          [discriminate|]. intros H; inversion H; subst ev. split; reflexivity.
      + destruct (match c_get id c with Some cached => json_eqb (e_proj cached) (e_proj e) | None => false end);
          [discriminate|]. intros H; inversion H; subst ev. split; reflexivity.
      + intros H; inversion H; subst ev. split; reflexivity.
    - destruct t; cbn [snd];
        try (destruct (match c_get id c with Some cached => json_eqb (e_proj cached) (e_proj e) | None => false end));
        discriminate.
  Qed.

  Lemma run_d_fired_listed cfg h : forall c,
    Forall (fun r : cache * option event =>
              forall ev, snd r = Some ev -> should_fire cfg (ev_type ev) = true)
           (run_d jq cfg c h).
  Proof.
    induction h as [|[[t id] d] r IH]; intros c; [constructor|].
    cbn [run_d]. unfold handle_d.
    destruct (handle jq cfg c t id (unwrap d)) as [c' ev'] eqn:Eh.
    constructor; [|apply IH].
    cbn [snd]. intros ev Hev.
    assert (Hs : snd (handle jq cfg c t id (unwrap d)) = Some ev) by (rewrite Eh; exact Hev).
    destruct (handle_fired_listed _ _ _ _ _ _ Hs) as [Et Hf]. rewrite Et. exact Hf.
  Qed.

  Lemma listed_In l t : listed l t = true <-> In t l.
  Proof.
    unfold listed. rewrite existsb_exists. split.
    - intros (x & Hin & He). apply evtype_eqb_eq in He. subst x. exact Hin.
    - intros Hin. exists t. split; [exact Hin | apply evtype_eqb_eq; reflexivity].
  Qed.

  (* "only if its watch-event type is listed in executeHookOnEvent": for every oracle, every
     declaration in which the key is present (any list, any watchEvent beside it), every
     filter setting, every cache and every history of deliveries *)
  Lemma declared_only_listed d filter l c h :
    d_exec d = Some l ->
    Forall (fun r : cache * option event => forall ev, snd r = Some ev -> In (ev_type ev) l)
           (run_d jq (mkConfig (effective_types d) filter) c h).
  Proof.
    intros Hd.
    assert (El : effective_types d = l) by (unfold effective_types; rewrite Hd; reflexivity).
    eapply Forall_impl; [|apply run_d_fired_listed].
    cbv beta. intros r Hr ev Hev. specialize (Hr ev Hev).
    unfold should_fire in Hr. cbn [c_types] in Hr. rewrite El in Hr.
    apply listed_In. exact Hr.
  Qed.

  (* the same as the specification's boolean clause, on the model's observations *)
  Lemma only_listed_model d filter c h :
    only_listed d (map to_obs (run_d jq (mkConfig (effective_types d) filter) c h)) = true.
  Proof.
    unfold only_listed. destruct (d_exec d) as [l|] eqn:Hd; [|reflexivity].
    pose proof (declared_only_listed d filter l c h Hd) as HF.
    induction HF as [|r rs Hr _ IH]; [reflexivity|].
    cbn [map forallb]. rewrite IH, andb_true_r.
    unfold to_obs. cbn [o_fired]. destruct (snd r) as [ev|] eqn:Es; [|reflexivity].
    cbn [forallb]. rewrite andb_true_r. apply listed_In. apply (Hr ev). reflexivity.
  Qed.

  (* the documented snapshot-only binding, `executeHookOnEvent: []`: nothing ever fires,
     whatever the deprecated key says *)
  Lemma snapshot_only_silent w filter c h :
    Forall (fun r : cache * option event => snd r = None)
           (run_d jq (mkConfig (effective_types (mkDecl (Some []) w)) filter) c h).
  Proof.
    eapply Forall_impl; [|apply (declared_only_listed (mkDecl (Some []) w) filter [] c h); reflexivity].
    cbv beta. intros r Hr. destruct (snd r) as [ev|]; [|reflexivity].
    destruct (Hr ev eq_refl).
  Qed.

  (* ... and its snapshot follows every change *)
  Lemma snapshot_only_follows w filter h id :
    let cfg := mkConfig (effective_types (mkDecl (Some []) w)) filter in
    never_fails cfg (map change_of h) ->
    option_map e_obj (c_get id (final_cache_d jq cfg [] h)) = latest id None (map change_of h).
  Proof.
    intros cfg Hnf. rewrite final_cache_d_changes. apply cache_always_latest. exact Hnf.
  Qed.

  Lemma effective_as_declared d :
    effective_types d = declared_types d /\
    forall filter t, should_fire (mkConfig (effective_types d) filter) t = listed (declared_types d) t.
  Proof. split; [apply effective_is_declared | apply effective_should_fire]. Qed.

  Lemma snapshot_only_binding w filter :
    (forall c h, Forall (fun r : cache * option event => snd r = None)
                        (run_d jq (mkConfig (effective_types (mkDecl (Some []) w)) filter) c h)) /\
    (forall h id,
       let cfg := mkConfig (effective_types (mkDecl (Some []) w)) filter in
       never_fails cfg (map change_of h) ->
       option_map e_obj (c_get id (final_cache_d jq cfg [] h)) = latest id None (map change_of h)).
  Proof. split; [apply snapshot_only_silent | apply snapshot_only_follows]. Qed.

  (* the property for every DECLARED binding, every set of existing objects and every history
     of deliveries, outside the two findings *)
  Lemma partial_declared d filter listed (h : list dstep) :
    oracle_canonical (listed_steps listed ++ map change_of h) ->
    T_F8 jq filter (listed_steps listed ++ map change_of h) = false ->
    T_F16 jq filter (listed_steps listed ++ map change_of h) = false ->
    exists c0, load_existed jq (mkConfig (effective_types d) filter) listed [] = Some c0 /\
      P_decl jq d filter listed (map change_of h)
             (map to_obs (run_d jq (mkConfig (effective_types d) filter) c0 h)) = true.
  Proof.
    intros Hcan H8 H16.
    destruct (partial_start (effective_types d) filter listed h Hcan H8 H16) as (c0 & Hl & HP).
    exists c0. split; [exact Hl|]. unfold P_decl.
    rewrite <- effective_is_declared, HP, only_listed_model. reflexivity.
  Qed.

  (* an object that disappeared during the outage: its tombstone fires Deleted iff listed *)
  Lemma relist_gone_is_deleted (store listed : list (N * json)) s :
    In s (flat_map (relist_gone listed) store) ->
    exists id o, s = (Deleted, id, Tombstone id o) /\ In (id, o) store /\ a_mem id listed = false.
  Proof.
    intros Hin. apply in_flat_map in Hin. destruct Hin as ([k o] & Hs & Hin).
    unfold relist_gone in Hin. cbn [fst snd] in Hin.
    destruct (a_mem k listed) eqn:Em; [destruct Hin|].
    destruct Hin as [E|[]]. exists k, o. split; [symmetry; exact E|]. split; [exact Hs|exact Em].
  Qed.

End WithOracle.

(* ---- the witnesses ---- *)

Definition str (l : list N) : bytes := l.
(* "spec" "replicas" "r" as bytes *)
Definition k_spec : bytes := [115; 112; 101; 99]%N.
Definition k_replicas : bytes := [114; 101; 112; 108; 105; 99; 97; 115]%N.
Definition k_r : bytes := [114]%N.

Definition o_rep (n : Z) : json := JObj [(k_spec, JObj [(k_replicas, JNum n)])].
Definition o_norep : json := JObj [(k_spec, JObj [])].

(* gojq / jq on `.spec.replicas` for the two states of the witness *)
Definition jq_replicas (o : json) : list json * bool :=
  if json_eqb o (o_rep 3) then ([JNum 3], false)
  else if json_eqb o (o_rep 4) then ([JNum 4], false)
  else ([JNull], false).

(* gojq / jq on `{r: .spec.replicas.foo}`: null.foo = null, 4.foo is an error *)
Definition jq_foo (o : json) : list json * bool :=
  if json_eqb o o_norep then ([JObj [(k_r, JNull)]], false)
  else if json_eqb o (o_rep 4) then ([], true)
  else ([JObj [(k_r, JNull)]], false).

Definition all3 : list evtype := [Added; Modified; Deleted].

Definition h_F8 : list step := [(Added, 1%N, o_rep 3); (Modified, 1%N, o_rep 4)].
Definition h_F16 : list step := [(Added, 1%N, o_norep); (Modified, 1%N, o_rep 4); (Deleted, 1%N, o_rep 4)].

Lemma canonical_F8 : oracle_canonical jq_replicas h_F8.
Proof. intros s [H|[H|[]]]; subst s; vm_compute; reflexivity. Qed.

Lemma canonical_F16 : oracle_canonical jq_foo h_F16.
Proof. intros s [H|[H|[H|[]]]]; subst s; vm_compute; reflexivity. Qed.

Lemma refuted_F8 :
  exists jq types filter h,
    oracle_canonical jq h /\ T_F8 jq filter h = true /\ T_F16 jq filter h = false /\
    P jq types filter h (model_obs jq (mkConfig types filter) h) = false.
Proof.
  exists jq_replicas, all3, true, h_F8.
  split; [exact canonical_F8|]. repeat split; vm_compute; reflexivity.
Qed.

Lemma refuted_F16 :
  exists jq types filter h,
    oracle_canonical jq h /\ T_F16 jq filter h = true /\ T_F8 jq filter h = false /\
    P jq types filter h (model_obs jq (mkConfig types filter) h) = false.
Proof.
  exists jq_foo, all3, true, h_F16.
  split; [exact canonical_F16|]. repeat split; vm_compute; reflexivity.
Qed.

(* the same witnesses as histories of deliveries *)
Definition plain (s : step) : dstep := match s with (t, id, o) => (t, id, Plain o) end.

Lemma refuted_d :
  (exists jq types filter h,
    oracle_canonical jq (map change_of h) /\ T_F8 jq filter (map change_of h) = true /\
    T_F16 jq filter (map change_of h) = false /\
    P jq types filter (map change_of h) (model_obs_d jq (mkConfig types filter) h) = false) /\
  (exists jq types filter h,
    oracle_canonical jq (map change_of h) /\ T_F16 jq filter (map change_of h) = true /\
    T_F8 jq filter (map change_of h) = false /\
    P jq types filter (map change_of h) (model_obs_d jq (mkConfig types filter) h) = false).
Proof.
  split.
  - exists jq_replicas, all3, true, (map plain h_F8).
    split; [exact canonical_F8|]. repeat split; vm_compute; reflexivity.
  - exists jq_foo, all3, true, (map plain h_F16).
    split; [exact canonical_F16|]. repeat split; vm_compute; reflexivity.
Qed.

(* the F8 witness at the start of a binding: the object with replicas=3 exists when the
   binding is enabled (it is listed, not delivered); the Modified to replicas=4 never fires *)
Definition listed_F8 : list (N * json) := [(1%N, o_rep 3)].
Definition h_F8_start : list dstep := [(Added, 1%N, Plain (o_rep 3)); (Modified, 1%N, Plain (o_rep 4))].

Lemma refuted_start :
  exists jq types filter listed (h : list dstep) c0,
    oracle_canonical jq (listed_steps listed ++ map change_of h) /\
    T_F8 jq filter (listed_steps listed ++ map change_of h) = true /\
    T_F16 jq filter (listed_steps listed ++ map change_of h) = false /\
    load_existed jq (mkConfig types filter) listed [] = Some c0 /\
    P_start jq types filter listed (map change_of h)
            (map to_obs (run_d jq (mkConfig types filter) c0 h)) = false.
Proof.
  exists jq_replicas, all3, true, listed_F8, h_F8_start.
  eexists. split.
  - intros s [H|[H|[H|[]]]]; subst s; vm_compute; reflexivity.
  - split; [vm_compute; reflexivity|]. split; [vm_compute; reflexivity|].
    split; [vm_compute; reflexivity|]. vm_compute; reflexivity.
Qed.

(* the same witness for a DECLARED binding: `executeHookOnEvent: [Added, Modified, Deleted]`
   (with a leftover `watchEvent: []` beside it, which has no say) *)
Definition d_F8 : decl := mkDecl (Some all3) (Some []).

Lemma refuted_declared :
  exists jq d filter listed (h : list dstep) c0,
    oracle_canonical jq (listed_steps listed ++ map change_of h) /\
    T_F8 jq filter (listed_steps listed ++ map change_of h) = true /\
    T_F16 jq filter (listed_steps listed ++ map change_of h) = false /\
    load_existed jq (mkConfig (effective_types d) filter) listed [] = Some c0 /\
    P_decl jq d filter listed (map change_of h)
           (map to_obs (run_d jq (mkConfig (effective_types d) filter) c0 h)) = false.
Proof.
  exists jq_replicas, d_F8, true, listed_F8, h_F8_start.
  eexists. split.
  - intros s [H|[H|[H|[]]]]; subst s; vm_compute; reflexivity.
  - split; [vm_compute; reflexivity|]. split; [vm_compute; reflexivity|].
    split; [vm_compute; reflexivity|]. vm_compute; reflexivity.
Qed.
