(* C02_Properties.v — the property theorems of C02 and nothing else.
   Pieces: (1) the informer cache tracks the delivered changes (every schedule) — so at
   quiescence it holds the cluster's objects of the informer's scope (client-go delivers
   every change: oracle); (2) monitor.Snapshot of the caches; (3) UpdateSnapshots.
   Findings: F26 (ghost object: C02_refuted_F26), F25 (unnamed kubernetes bindings of one
   group share the default name: C02_refuted_F25); F13 (repeated names) is repaired.
   (4) bindings with namespace.labelSelector: the informer set follows the set of matching
   namespaces (theorems C02_dyn_...); the namespace-level ghost (C02_dyn_refuted_F32) is reported.
   (5) the start window of a monitor (C02_Win): changes between the informer's initial list
   (CreateInformers) and its start reach the cache through the informer's own list (C02_window_...).
   (7) watch outages (C02_Relist): changes the operator learns about through a re-list - deleted objects as
   tombstones (cache.DeletedFinalStateUnknown by value), changed ones as updates, new ones as adds (C02_relist_...). *)
From Verif Require Import Common C02_Model C02_Spec C02_Proofs C02_DynProofs C02_Comp C02_CompSpec C02_CompProofs C02_Win C02_WinSpec C02_WinProofs C02_Hook C02_HookSpec C02_HookProofs C02_Relist C02_RelistSpec C02_RelistProofs.
From Verif Require C01_Model C01_Spec C01_Proofs.
Open Scope N_scope.

Definition C02_full_statement : Prop :=
  forall i, P_snap i (snapshot i) (snapshot_after_restart i) false = true.

(* (1) for EVERY schedule of callback, readers and unlock, the cache equals the sequential
   fold of the changes picked up so far: suppressed and unlisted changes update it too *)
Theorem C02_cache_tracks_changes : forall types chs ops s pre,
  chs = pre ++ C01_Model.todo s -> C01_Model.cache s = C01_Spec.ref_cache types [] pre ->
  exists pre', chs = pre' ++ C01_Model.todo (C01_Model.exec types s ops)
               /\ C01_Model.cache (C01_Model.exec types s ops) = C01_Spec.ref_cache types [] pre'.
Proof. exact C01_Proofs.cache_tracks_changes. Qed.
Print Assumptions C02_cache_tracks_changes.

(* (2) exactly the matching objects, each once, ordered by namespace and name — for every
   namespace/name selection (repeated entries included), every history, also after a restart *)
Theorem C02_snapshot_is_matching_partial : forall i, si_ghost i = None ->
  P_snap i (snapshot i) (snapshot_after_restart i) false = true.
Proof. exact snapshot_is_matching. Qed.
Print Assumptions C02_snapshot_is_matching_partial.

(* (2') the same for what the entries show, for every jqFilter / keepFullObjectsInMemory
   setting: filter result and (when kept) whole object of the CURRENT cluster state *)
Theorem C02_view_is_matching_partial : forall i, si_ghost i = None ->
  P_view i (snapshot_view i) (restart_view i) false = true.
Proof. exact view_is_matching. Qed.
Print Assumptions C02_view_is_matching_partial.

Theorem C02_restart_snapshot_is_matching : forall i, P_snap_list i (snapshot_after_restart i) = true.
Proof. exact restart_snapshot_is_matching. Qed.
Print Assumptions C02_restart_snapshot_is_matching.

Theorem C02_refuted_F26 : exists i, T_ghost i = true /\ P_snap i (snapshot i) (snapshot_after_restart i) false = false.
Proof. exact ghost_refuted. Qed.
Print Assumptions C02_refuted_F26.

(* (3) inside one execution each binding is read at most once: its snapshot is identical
   everywhere it appears (also as `objects` of its Synchronization), whatever changes arrive
   meanwhile; the keys of `snapshots` are exactly the included bindings *)
Theorem C02_one_read_per_binding : forall i,
  let '(os, reads) := update i in
  NoDup reads
  /\ exists final : list (N * N),
       Forall2 (fun c o =>
                  NoDup (map fst (fst o))
                  /\ (forall k, In k (map fst (fst o)) <-> In k (includes_of (ui_bindings i) (fst c)))
                  /\ (forall k v, In (k, v) (fst o) -> assoc_N k final = Some v /\ v <> 0)
                  /\ (if is_kube (ui_bindings i) (fst c) && snd c
                      then assoc_N (fst c) final = Some (snd o) /\ snd o <> 0 else snd o = 0))
               (ui_ctxs i) os.
Proof. exact update_one_read_per_binding. Qed.
Print Assumptions C02_one_read_per_binding.

Theorem C02_refuted_F25 : T_grp false = true /\ (let (k, o) := grp false in P_grp k o false) = false
                          /\ (let (k, o) := grp true in P_grp k o false) = true.
Proof. exact group_refuted. Qed.
Print Assumptions C02_refuted_F25.

(* (4) dynamic namespaces (namespace.labelSelector).  For every name selection, every initial
   cluster and every history of object changes (objects moving between namespaces included),
   namespaces created / relabelled / deleted - those found by the initial list of a start or a
   restart and those that started matching later alike - and operator restarts: the snapshot
   read at EACH quiet point is exactly the objects whose namespace carries the label THEN and
   whose name is selected, each once, ordered by namespace and name ... *)
Definition C02_dyn_full_statement : Prop :=
  forall i, P_dyn i (dyn_views i) false = true.

Theorem C02_dyn_snapshots_are_matching_partial : forall i, T_nsghost i = false ->
  P_dsnaps i (dyn_snapshots i) = true.
Proof. exact dyn_snapshots_are_matching. Qed.
Print Assumptions C02_dyn_snapshots_are_matching_partial.

(* ... each entry showing the CURRENT state of its object as the binding's jqFilter /
   keepFullObjectsInMemory setting shows it *)
Theorem C02_dyn_views_are_matching_partial : forall i, T_nsghost i = false ->
  P_dyn i (dyn_views i) false = true.
Proof. exact dyn_views_are_matching. Qed.
Print Assumptions C02_dyn_views_are_matching_partial.

(* the exception: a namespace found by CreateInformers' initial namespace list that stops
   matching before Start keeps its informers (the namespace informer never reports it) *)
Theorem C02_dyn_refuted_F32 : exists i, T_nsghost i = true /\ P_dyn i (dyn_views i) false = false.
Proof. exact nsghost_refuted. Qed.
Print Assumptions C02_dyn_refuted_F32.

Example C02_dyn_hyp_met :
  let i := mkDynIn [2; 2] [(1, 2, 1); (2, 2, 5)] [(1, true); (2, false)] None
                   [DNs 1 false; DRead; DNs 2 true; DObj OModify (2, 2, 16); DRestart; DRead; DNsDel 2; DRead] true false in
  T_nsghost i = false /\ dyn_views i = [[]; [(2, 2, Some 6, None)]; []].
Proof. vm_compute. split; reflexivity. Qed.

(* ---- a second binding with static namespaces beside the labelSelector binding (C02_Comp): bindings
   whose informers share client-go shared informers of the process-wide factory store.  At every
   read point of every history the companion shows exactly the objects of ITS namespaces in their
   current state - whatever the namespaces' labels (and so the other binding's informers) do;
   no hypothesis. *)
Theorem C02_comp_views_are_matching : forall i k, P_comp i k (comp_views i k) false = true.
Proof. exact comp_views_are_matching. Qed.
Print Assumptions C02_comp_views_are_matching.

Theorem C02_dyn2_partial : forall i k, T_nsghost i = false ->
  P_dyn2 i k (dyn_views i) (comp_views i k) false = true.
Proof. exact dyn2_partial. Qed.
Print Assumptions C02_dyn2_partial.

(* non-vacuity: namespace 1 matches, is emptied, deleted and re-created without the label; an
   object appears in it: the first binding shows nothing then, the companion (namespaces 1, 2) does *)
Example C02_dyn2_hyp_met :
  let i := mkDynIn [] [(1, 1, 1)] [(1, true)] None
                   [DRead; DObj ODelete (1, 1, 0); DNsDel 1; DNs 1 false; DObj OCreate (1, 2, 7); DObj OCreate (2, 1, 3); DRead] false true in
  let k := mkDComp [1; 2] [] false true in
  T_nsghost i = false /\
  dyn_views i = [[(1, 1, None, Some 1)]; []] /\
  comp_views i k = [[(1, 1, None, Some 1)]; [(1, 2, None, Some 7); (2, 1, None, Some 3)]].
Proof. vm_compute. repeat split; reflexivity. Qed.

Example C02_hyp_met :
  let i := mkSnapIn [1; 2; 1] [3; 3] [(1, 3, 1)] [(OCreate, (2, 3, 1)); (OModify, (1, 3, 2)); (OCreate, (3, 3, 5))] None true true true in
  si_ghost i = None /\ snapshot i = [(1, 3, 2); (2, 3, 1)].
Proof. vm_compute. split; reflexivity. Qed.

(* (5) the start window of a monitor (C02_Win / C02_WinSpec).  For every static binding (namespaces,
   names, repeated entries) and every namespace.labelSelector binding over a set of labelled
   namespaces, every jqFilter / keepFullObjectsInMemory setting, every cluster the operator finds
   when it starts or restarts, EVERY sequence of changes between the monitor's creation (LIST #1:
   loadExistedObjects) and its start (LIST #2 of the shared informer, delivered as OnAdd with
   isInInitialList) - objects modified inside or outside the filter's projection, deleted and
   re-created with other content, created, any number of them - and every history afterwards: once
   the cluster is quiet the snapshot shows exactly the matching objects of the cluster as it is
   then, each once, ordered by namespace and name, each with its CURRENT filter result and object.
   The exception is the ghost of F26: an object gone between the two lists whose namespace/name
   nothing touches any more. *)
Definition C02_window_full_statement : Prop :=
  forall i, P_win i (w_views i) false = true.

Theorem C02_window_views_are_matching_partial : forall i, T_wghost i = false ->
  P_win i (w_views i) false = true.
Proof. exact window_views_are_matching. Qed.
Print Assumptions C02_window_views_are_matching_partial.

Theorem C02_window_refuted_F26 : exists i, T_wghost i = true /\ P_win i (w_views i) false = false.
Proof. exact window_ghost_refuted. Qed.
Print Assumptions C02_window_refuted_F26.

(* non-vacuity: in the window of a restart one object is modified outside the filter's projection,
   one deleted and re-created with other content, one created, one of a namespace without the label
   modified; afterwards one more object is created: the snapshot shows the current content of all *)
Example C02_window_hyp_met :
  let i := mkWinIn true [1; 2] [] [(1, 1, 13); (1, 2, 4); (3, 1, 7)] [(OModify, (1, 2, 5))] true
                   [(OModify, (1, 1, 23)); (ODelete, (1, 2, 5)); (OCreate, (1, 2, 18)); (OCreate, (2, 1, 9)); (OModify, (3, 1, 8))]
                   [(OCreate, (2, 3, 31))] true true in
  T_wghost i = false /\
  w_views i = [(1, 1, Some 3, Some 23); (1, 2, Some 8, Some 18); (2, 1, Some 9, Some 9); (2, 3, Some 1, Some 31)].
Proof. vm_compute. split; reflexivity. Qed.

(* (6) one hook with bindings of DIFFERENT TYPES that may share a name (C02_Hook / C02_HookSpec; the
   configuration demands unique names within one binding type only), each with its own
   includeSnapshotsFrom and group, executed any number of times in one process in any order.  For
   every such hook and EVERY sequence of executions (each a list of contexts: kubernetes
   Synchronization / Event, Schedule, validating, mutating): in every context of every execution
   the keys of `snapshots` are exactly the bindings named in includeSnapshotsFrom of THE binding of
   the context's type and name plus the kubernetes bindings sharing its group, each key once, every
   list shows the objects of the kubernetes binding it is filed under, `objects` of a
   Synchronization those of the binding itself, and the hook is executed with a context of the
   binding (type) the event is for.
   The exception (the recorded finding F31 of C09, trigger T_vm): a validating and a mutating binding of one name
   share the webhook id (hook_manager.go: UpdateIds("", BindingName)), AdmissionLinks is keyed by it:
   the review of the validating webhook is executed as the MUTATING binding, with its keys. *)
Definition C02_hook_full_statement : Prop :=
  forall i, hk_wf i = true -> P_hk i (hk_run i) (hk_types i) false = true.

Theorem C02_hook_keys_are_includes_plus_group_partial : forall i, hk_wf i = true -> T_vm i = false ->
  P_hk i (hk_run i) (hk_types i) false = true.
Proof. exact hook_keys_are_includes_plus_group. Qed.
Print Assumptions C02_hook_keys_are_includes_plus_group_partial.

Theorem C02_hook_refuted_vm : exists i, hk_wf i = true /\ T_vm i = true /\ P_hk i (hk_run i) (hk_types i) false = false.
Proof. exact hook_vm_refuted. Qed.
Print Assumptions C02_hook_refuted_vm.

(* history independence: what an execution yields inside any process - whatever was executed
   before it and after it - is what the same execution yields as the first and only one *)
Theorem C02_hook_history_independent : forall bs pre r post,
  nth (length pre) (hk_run (mkHkIn bs (pre ++ r :: post))) [] = hk_exec (load_config bs) r
  /\ hk_run (mkHkIn bs [r]) = [hk_exec (load_config bs) r].
Proof. exact hook_history_independent. Qed.
Print Assumptions C02_hook_history_independent.

(* the list behind a context is a function of the binding's TYPE and name: the binding's own
   list merged with its group's kubernetes bindings *)
Theorem C02_hook_includes_by_type_and_name : forall bs b,
  nodup_hb bs = true -> In b bs ->
  get_includes (load_config bs) (hb_type b) (hb_name b) = effective bs b.
Proof. exact hook_includes_by_type_and_name. Qed.
Print Assumptions C02_hook_includes_by_type_and_name.

(* non-vacuity: kubernetes bindings 1 (group 7, includes itself) and 2 (group 7), a schedule binding
   ALSO named 1 (includes 3), a validating binding named 2 (group 7), kubernetes binding 3; the
   Synchronization of kubernetes 1, then Schedule 1, then validating 2 with an Event of kubernetes 1,
   then the Synchronization again *)
Example C02_hook_hyp_met :
  let i := mkHkIn [mkHB TKube 1 [1] 7; mkHB TKube 2 [] 7; mkHB TKube 3 [] 0; mkHB TSched 1 [3] 0; mkHB TValid 2 [] 7]
                  [[(TKube, 1, true)]; [(TSched, 1, false)]; [(TValid, 2, false); (TKube, 1, false)]; [(TKube, 1, true)]] in
  hk_wf i = true /\ T_vm i = false /\ hk_run i = [[([(1, 1); (2, 2)], 1)]; [([(3, 3)], 0)]; [([(1, 1); (2, 2)], 0); ([(1, 1); (2, 2)], 0)]; [([(1, 1); (2, 2)], 1)]].
Proof. vm_compute. repeat split; reflexivity. Qed.

(* (7) changes seen through a RE-LIST (C02_Relist / C02_RelistSpec).  For every static binding (namespaces,
   names, repeated entries) and every namespace.labelSelector binding over a set of labelled namespaces, every jqFilter / keepFullObjectsInMemory setting, every initial cluster and EVERY
   history of object changes delivered by the watch, watch outages (any number, at any position, with any
   changes inside: objects deleted, modified inside or outside the filter's projection, created, created and
   deleted again, deleted and re-created) after which the reflector lists again and client-go hands the
   difference to the handler as OnUpdate / OnAdd / OnDelete(cache.DeletedFinalStateUnknown{...}), and reads of
   the snapshot: EVERY read (in the middle of the history and at its end) shows exactly the matching objects
   of the cluster as it is at that moment, each once, ordered by namespace and name, each with its current
   filter result and object.  No hypothesis. *)
Theorem C02_relist_views_are_matching : forall i, P_rl i (rl_views i) false = true.
Proof. exact relist_views_are_matching. Qed.
Print Assumptions C02_relist_views_are_matching.

(* one informer, one outage at ANY position (st: any state in which the reflector's store and the handler's
   cache hold the cluster's objects of the informer's scope): after the re-list's deliveries the cached view
   is exactly the cluster's objects of the scope as the cluster is AFTER the outage *)
Theorem C02_relist_restores_cache : forall s st inner, inv s st ->
  let st' := inf_step s st (ROut inner) in
  forall x, In x (i_cache st') <-> In x (fold_left cl_apply inner (i_cl st)) /\ in_scope s x = true.
Proof. exact relist_restores_cache. Qed.
Print Assumptions C02_relist_restores_cache.

(* ... and every reachable informer state is such a state *)
Theorem C02_relist_invariant : forall i s pre, inv s (inf_run i s pre).
Proof. exact inf_run_inv. Qed.
Print Assumptions C02_relist_invariant.

(* non-vacuity of the hypothesis of C02_relist_restores_cache, and a history: two outages (an object deleted,
   one modified outside the filter's projection, one created in the first; the created one deleted and the
   deleted one re-created in the second), a watch event between them, reads in the middle and at the end *)
Example C02_relist_hyp_met :
  let i := mkRlIn false [1; 2; 1] [] [(1, 1, 13); (1, 2, 4); (3, 1, 7)]
                  [ROut [(ODelete, (1, 2, 4)); (OModify, (1, 1, 23)); (OCreate, (2, 1, 9)); (OCreate, (3, 2, 1))]; RRead;
                   RObj (OModify, (1, 1, 24));
                   ROut [(ODelete, (2, 1, 9)); (OCreate, (1, 2, 15))]] true true in
  inv (Some 1, None) (inf_run i (Some 1, None) [ROut [(ODelete, (1, 2, 4))]]) /\
  rl_views i = [[(1, 1, Some 3, Some 23); (2, 1, Some 9, Some 9)];
                [(1, 1, Some 4, Some 24); (1, 2, Some 5, Some 15)]].
Proof. split; [apply inf_run_inv | vm_compute; reflexivity]. Qed.
