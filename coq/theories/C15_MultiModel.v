(* C15_MultiModel.v — ONE operator that serves SEVERAL CRDs.  NO proofs in this file.

   pkg/webhook/conversion/chain.go
     type ChainStorage struct { Chains map[string]*Chain }          one Chain per CRD name
     func (cs ChainStorage) Get(crdName) *Chain                     creates an empty Chain when absent
     func (c *Chain) Put(rule)                                      PathsCache[rule] = {rule}; index
     func (cs ChainStorage) FindConversionChain(crdName, rule)      chain, ok := cs.Chains[crdName]; if !ok { return nil }
                                                                    ... the search of C15_Model.find on THAT chain
   pkg/hook/hook_manager.go
     UpdateConversionChains: for every hook in order, for every conversion binding of it
        chain := hm.conversionChains.Get(binding.crdName); for every rule of the binding: chain.Put(rule)
     FindConversionChain(crdName, rule) = hm.conversionChains.FindConversionChain(crdName, rule)
   pkg/hook/controller/conversion_bindings_controller.go
     Links map[crdName]map[Rule]*link : CanHandleEvent(crdName, rule) = the hook declared that rule FOR THAT CRD
   pkg/shell-operator/operator.go conversionEventHandler(crdName, request)
     convPath := FindConversionChain(crdName, rule); for every rule of it: HandleConversionEvent(crdName, ...);
     no hook can handle (crdName, rule) -> error "no hook found for '...' event for crd/<crdName>"

   A CRD name is a dense number chosen by the harness (Go's string equality = N.eqb).  The Go map
   Chains is an association list in insertion order; nothing depends on the order. *)
From Coq Require Import String.
From Verif Require Import Common C15_Model.

Definition crdid := N.

(* one declared rule: the CRD of the binding that lists it, and the rule; a configuration is the list of
   all of them in the order UpdateConversionChains meets them (hooks in order, bindings, rules) *)
Definition decl := (crdid * rule)%type.

(* ChainStorage.Chains: per CRD its Chain = (the declared rules = BaseFromToIndex, PathsCache) *)
Definition storage := list (crdid * (list rule * cache)).

Fixpoint st_get (st : storage) (x : crdid) : option (list rule * cache) :=
  match st with
  | [] => None
  | (y, p) :: st' => if N.eqb y x then Some p else st_get st' x
  end.

(* cs.Get(x).Put(r) *)
Fixpoint st_put (st : storage) (x : crdid) (r : rule) : storage :=
  match st with
  | [] => [(x, ([r], cache_put [] r [r]))]
  | (y, (rs, c)) :: st' =>
    if N.eqb y x then (y, (rs ++ [r], cache_put c r [r])) :: st' else (y, (rs, c)) :: st_put st' x r
  end.

(* the Chain of x is a pointer: what the search writes into its PathsCache stays *)
Fixpoint st_set_cache (st : storage) (x : crdid) (c' : cache) : storage :=
  match st with
  | [] => []
  | (y, (rs, c)) :: st' =>
    if N.eqb y x then (y, (rs, c')) :: st' else (y, (rs, c)) :: st_set_cache st' x c'
  end.

(* hook_manager.go UpdateConversionChains *)
Definition build (decls : list decl) : storage :=
  fold_left (fun st d => st_put st (fst d) (snd d)) decls [].

(* ChainStorage.FindConversionChain(crdName, rule) *)
Definition find_m (st : storage) (x : crdid) (q : rule) : storage * option (list rule) :=
  match st_get st x with
  | None => (st, None)                                       (* chain, ok := cs.Chains[crdName]; !ok *)
  | Some (rs, c) => let '(c', a) := find rs c q in (st_set_cache st x c', a)
  end.

(* a sequence of requests (CRD, (from, to)) asked of one operator *)
Fixpoint find_session (st : storage) (reqs : list (crdid * rule)) : list (option (list rule)) :=
  match reqs with
  | [] => []
  | (x, q) :: reqs' => let '(st', a) := find_m st x q in a :: find_session st' reqs'
  end.

(* the Chain of a CRD as a lone operator for that CRD would hold it; an unknown CRD has none: no rules *)
Definition view (st : storage) (x : crdid) : list rule * cache :=
  match st_get st x with Some p => p | None => ([], []) end.

(* ------------------------------------------------------------------ applying the chain *)

(* some hook's ConversionBindingsController has Links[crd][r]: r is declared for that CRD *)
Definition has_link (rules : list rule) (r : rule) : bool := existsb (rule_eqb r) rules.

(* operator.go:348-397 with the CRD's links; None = "no hook found" in the middle of the chain *)
Fixpoint steps_m (rules : list rule) (desired : version) (chain : list rule) (outs : list outcome) (objs : list obj)
  : list invocation * option stop :=
  match chain with
  | [] => ([], Some StNotDone)
  | r :: rest =>
    if has_link rules r then
      match hd OExitFail outs with
      | OExitFail | OBadResponse => ([(r, objs)], Some (StFailed MHookFailed))
      | ONoResponse => ([(r, objs)], Some (StFailed MPropError))
      | OResp (c :: m) _ => ([(r, objs)], Some (StFailed (MHook (c :: m))))
      | OResp [] objs' =>
        if is_done desired objs' then ([(r, objs)], Some (StDone objs'))
        else let '(t, s) := steps_m rules desired rest (tl outs) objs' in ((r, objs) :: t, s)
      end
    else ([], None)
  end.

(* operator.go:361 *)
Definition no_hook_text_m (crd : bytes) : bytes :=
  str "no hook found for 'kubernetesCustomResourceConversion' event for crd/"%string ++ crd.

(* one ConversionReview for the CRD named [crd] whose declared rules are [rules] *)
Definition serve_m (crd : bytes) (rules : list rule) (dtext : bytes) (desired : version)
           (chain : list rule) (outs : list outcome) (req : list obj) : list invocation * review :=
  match extract req with
  | [] => ([], handle_review (length req) (OpResponse (msg_text dtext MNotSuccessful) []))
  | _ =>
    let '(t, s) := steps_m rules desired chain outs req in
    let r := match s with
             | None => OpError (no_hook_text_m crd)
             | Some (StFailed MPropError) => OpError (msg_text dtext MPropError)
             | Some (StFailed m) => OpResponse (msg_text dtext m) []
             | Some (StDone objs) => OpResponse [] objs
             | Some StNotDone => OpResponse (msg_text dtext MNotSuccessful) []
             end in
    (t, handle_review (length req) r)
  end.

(* one request of a multi-CRD session: its CRD (number, name as the error text quotes it), the pair asked,
   and what C15_Model.squery holds *)
Definition mquery := (crdid * bytes * rule * squery)%type.

Definition mq_crd (m : mquery) : crdid := fst (fst (fst m)).
Definition mq_pair (m : mquery) : crdid * rule := (fst (fst (fst m)), snd (fst m)).

(* every request served with the links of its own CRD (the limiters of C15_Model part 4 are left out: the
   hooks of these sessions have no settings block) *)
Definition serve_multi (st : storage) (qs : list mquery) : list (list invocation * review) :=
  map (fun m => match m with
                | (x, crd, _, (dtext, desired, chain, outs, req)) =>
                  serve_m crd (fst (view st x)) dtext desired chain outs req
                end) qs.
