(* C09_ShareProofs.v — bindings that share one informer: each binding's cache, snapshots and
   contexts are those of the binding alone on the resource (a function of the deliveries and of
   ITS OWN options), and the combined array of the share meets the per-binding contract. *)
From Verif Require Import Common Json C09_Model C09_Spec C09_Proofs C09_ShareModel.

Lemma watch_ops_app n a b : watch_ops n (a ++ b) = watch_ops n a ++ watch_ops n b.
Proof. unfold watch_ops. apply flat_map_app. Qed.

Lemma bytes_eqb_refl a : bytes_eqb a a = true.
Proof. now apply bytes_eqb_eq. Qed.

Lemma bytes_eqb_neq a b : a <> b -> bytes_eqb a b = false.
Proof.
  intros H. destruct (bytes_eqb a b) eqn:E; [|reflexivity]. apply bytes_eqb_eq in E. contradiction.
Qed.

(* a delivery to bindings none of which is called [n] is nothing to [n] *)
Lemma deliver_from_other n bs : forall k t s,
  ~ In n (map b_name bs) -> watch_ops n (deliver_from k bs t s) = [].
Proof.
  induction bs as [|b r IH]; intros k t s Hn; [reflexivity|].
  cbn [deliver_from]. change (HWatch (b_name b) t (view k s) :: deliver_from (S k) r t s)
    with ([HWatch (b_name b) t (view k s)] ++ deliver_from (S k) r t s).
  rewrite watch_ops_app, IH by (intros H; apply Hn; now right).
  unfold watch_ops. cbn [flat_map]. rewrite bytes_eqb_neq; [reflexivity|].
  intros E. apply Hn. left. exact E.
Qed.

(* of one delivery, the k-th binding sees exactly its own view *)
Lemma deliver_from_own bs : forall k0 k b t s,
  names_distinct bs -> nth_error bs k = Some b ->
  watch_ops (b_name b) (deliver_from k0 bs t s) = [(t, view (k0 + k) s)].
Proof.
  unfold names_distinct.
  induction bs as [|b0 r IH]; intros k0 k b t s Hd Hk; [destruct k; discriminate|].
  cbn [map] in Hd. inversion Hd as [|x l Hnotin Hd']; subst.
  cbn [deliver_from]. change (HWatch (b_name b0) t (view k0 s) :: deliver_from (S k0) r t s)
    with ([HWatch (b_name b0) t (view k0 s)] ++ deliver_from (S k0) r t s).
  rewrite watch_ops_app. destruct k as [|k].
  - cbn in Hk. injection Hk as ->. rewrite deliver_from_other by exact Hnotin.
    unfold watch_ops. cbn [flat_map]. rewrite bytes_eqb_refl, Nat.add_0_r. reflexivity.
  - cbn in Hk. rewrite (IH (S k0) k b t s Hd' Hk).
    unfold watch_ops. cbn [flat_map]. rewrite bytes_eqb_neq.
    + cbn. now rewrite Nat.add_succ_r.
    + intros E. apply Hnotin. rewrite E. apply in_map. eapply nth_error_In. exact Hk.
Qed.

(* the watch events of the k-th binding's handler are its view of the deliveries *)
Lemma share_watch_ops bs k b evs :
  names_distinct bs -> nth_error bs k = Some b ->
  watch_ops (b_name b) (share_events bs evs) = deliveries_of k evs.
Proof.
  intros Hd Hk. unfold share_events, deliveries_of.
  induction evs as [|ev r IH]; [reflexivity|].
  cbn [flat_map]. rewrite watch_ops_app, IH. f_equal.
  destruct ev as [j|t s]; cbn [share_event].
  - destruct (nth_error bs j); reflexivity.
  - now rewrite (deliver_from_own bs 0 k b t s Hd Hk).
Qed.

Lemma kube_from_other n bs : forall k init,
  ~ In n (map b_name bs) -> kube_named n (kube_from k bs init) = None.
Proof.
  induction bs as [|b r IH]; intros k init Hn; [reflexivity|].
  unfold kube_named in *. cbn [kube_from find fst]. rewrite bytes_eqb_neq.
  - apply IH. intros H. apply Hn. now right.
  - intros E. apply Hn. left. now symmetry.
Qed.

(* the k-th binding is found under its name, with its own view of the objects at start *)
Lemma kube_from_own bs : forall k0 k b init,
  names_distinct bs -> nth_error bs k = Some b ->
  kube_named (b_name b) (kube_from k0 bs init) = Some (b, map (view (k0 + k)) init).
Proof.
  unfold names_distinct.
  induction bs as [|b0 r IH]; intros k0 k b init Hd Hk; [destruct k; discriminate|].
  cbn [map] in Hd. inversion Hd as [|x l Hnotin Hd']; subst.
  destruct k as [|k].
  - cbn in Hk. injection Hk as ->. unfold kube_named. cbn [kube_from find fst].
    now rewrite bytes_eqb_refl, Nat.add_0_r.
  - cbn in Hk. unfold kube_named. cbn [kube_from find fst]. rewrite bytes_eqb_neq.
    + fold (kube_named (b_name b) (kube_from (S k0) r init)).
      rewrite (IH (S k0) k b init Hd' Hk). now rewrite Nat.add_succ_r.
    + intros E. apply Hnotin. rewrite <- E. apply in_map. eapply nth_error_In. exact Hk.
Qed.

(* SnapshotsFor(binding) when the hook runs: the snapshot of the binding's OWN cache *)
Lemma share_snapshots_own sh k b :
  names_distinct (sh_binds sh) -> nth_error (sh_binds sh) k = Some b ->
  hk_snapshots_for (share_hcase sh) (hk_evs (share_hcase sh)) (b_name b)
  = Some (snapshot (own_cache b k sh)).
Proof.
  intros Hd Hk. unfold hk_snapshots_for, share_hcase, own_cache. cbn [hk_kube hk_evs].
  rewrite (kube_from_own _ 0 k b _ Hd Hk). cbn [Nat.add].
  now rewrite (share_watch_ops _ k b _ Hd Hk).
Qed.

(* the contexts the HookController builds for the k-th binding's KubeEvent of a delivery *)
Lemma share_contexts_own sh k b pre t s :
  names_distinct (sh_binds sh) -> nth_error (sh_binds sh) k = Some b ->
  hk_contexts (share_hcase sh) (share_events (sh_binds sh) pre) (HWatch (b_name b) t (view k s))
  = own_contexts b k (sh_initial sh) pre t s.
Proof.
  intros Hd Hk. unfold hk_contexts, share_hcase, own_contexts. cbn [hk_kube].
  rewrite (kube_from_own _ 0 k b _ Hd Hk). cbn [Nat.add].
  now rewrite (share_watch_ops _ k b _ Hd Hk).
Qed.

(* two shares - other neighbours, other options of the neighbours, another position - in which the
   binding sees the same objects and deliveries: the same snapshot *)
Lemma share_independent sh1 sh2 k1 k2 b :
  names_distinct (sh_binds sh1) -> names_distinct (sh_binds sh2) ->
  nth_error (sh_binds sh1) k1 = Some b -> nth_error (sh_binds sh2) k2 = Some b ->
  map (view k1) (sh_initial sh1) = map (view k2) (sh_initial sh2) ->
  deliveries_of k1 (sh_evs sh1) = deliveries_of k2 (sh_evs sh2) ->
  hk_snapshots_for (share_hcase sh1) (hk_evs (share_hcase sh1)) (b_name b)
  = hk_snapshots_for (share_hcase sh2) (hk_evs (share_hcase sh2)) (b_name b).
Proof.
  intros D1 D2 H1 H2 Hi He.
  rewrite (share_snapshots_own sh1 k1 b D1 H1), (share_snapshots_own sh2 k2 b D2 H2).
  unfold own_cache. now rewrite Hi, He.
Qed.

(* ---- the contract ---- *)

Definition kube_event_only (ev : hevent) : bool :=
  match ev with HSync _ | HWatch _ _ _ => true | _ => false end.

Lemma deliver_from_kube bs : forall k t s, forallb kube_event_only (deliver_from k bs t s) = true.
Proof. induction bs as [|b r IH]; intros k t s; [reflexivity|]. cbn. apply IH. Qed.

Lemma share_events_kube bs evs : forallb kube_event_only (share_events bs evs) = true.
Proof.
  unfold share_events. induction evs as [|ev r IH]; [reflexivity|].
  cbn [flat_map]. rewrite forallb_app, IH, Bool.andb_true_r.
  destruct ev as [j|t s]; cbn [share_event]; [destruct (nth_error bs j); reflexivity|apply deliver_from_kube].
Qed.

Lemma existsb_kube_only (f : hevent -> bool) l :
  (forall ev, kube_event_only ev = true -> f ev = false) ->
  forallb kube_event_only l = true -> existsb f l = false.
Proof.
  intros Hf. induction l as [|ev r IH]; [reflexivity|].
  cbn. intros H. apply Bool.andb_true_iff in H as [H1 H2]. now rewrite (Hf ev H1), IH.
Qed.

Lemma share_no_F30 sh : T_same_type_name (share_hcase sh) = false.
Proof.
  unfold T_same_type_name. apply existsb_kube_only; [|apply share_events_kube].
  intros [n|n t w|k rv|c rv f t]; cbn; intros H; try reflexivity; discriminate.
Qed.

Lemma share_no_F31 sh : T_admission_same_name (share_hcase sh) = false.
Proof.
  unfold T_admission_same_name. apply existsb_kube_only; [|apply share_events_kube].
  intros [n|n t w|k rv|c rv f t]; cbn; intros H; try reflexivity; discriminate.
Qed.

(* the combined array of the bindings of one shared informer: every item conforms as the context
   of ITS OWN binding *)
Lemma share_contract sh :
  hook_wf (share_hcase sh) = true -> T_hook (share_hcase sh) = false ->
  P_hook (share_hcase sh) (Some (run_hook (share_hcase sh))) = true.
Proof.
  intros Hw Ht. apply hook_contract_partial; [exact Hw|exact Ht|apply share_no_F30|apply share_no_F31].
Qed.

(* ---- a witness: `full` (keeps objects, jq over .data) and `slim` (drops them, jq over the name) ---- *)
Module WitShare.
Import String.
Local Open Scope string_scope.
Definition cm (name foo : bytes) : json :=
  JObj [(bs "data", JObj [(bs "foo", JStr foo)]);
        (bs "metadata", JObj [(bs "name", JStr name); (bs "namespace", JStr (bs "default"))])].
Definition so (name foo : bytes) : sobj :=
  mkSobj (bs "default") name ((bs "default/ConfigMap/" ++ name)%list) (cm name foo)
         [[JObj [(bs "foo", JStr foo)]]; [JObj [(bs "name", JStr name)]]].
Definition all3 := [WAdded; WModified; WDeleted].
Definition full := mkBinding (bs "full") true true all3 [] [] true.
Definition slim := mkBinding (bs "slim") true false all3 [] [] true.
Definition sh : share :=
  mkShare [full; slim] [so (bs "cm-0") (bs "bar")]
          [SSync 0; SDeliver WAdded (so (bs "cm-1") (bs "bar")); SSync 1].
(* the same deliveries with `full` alone on the resource *)
Definition alone : share :=
  mkShare [full] [so (bs "cm-0") (bs "bar")]
          [SSync 0; SDeliver WAdded (so (bs "cm-1") (bs "bar"))].

(* what the array looks like when the object of `full` has been gutted by `slim`: the Event item of
   `full` shows a stub *)
Definition stub (name : bytes) : json :=
  JObj [(bs "metadata", JObj [(bs "name", JStr name); (bs "namespace", JStr (bs "default"))])].
Definition gut (j : json) : json :=
  match j with
  | JObj m => match jget k_object j with
              | Some _ => JObj (obj_set k_object (stub (bs "cm-1")) m)
              | None => j
              end
  | _ => j
  end.
Definition gutted_obs : hobs :=
  let o := run_hook (share_hcase sh) in
  mkHobs (ho_items o)
         (match ho_out o with
          | Some (JArr (s0 :: e0 :: rest)) => Some (JArr (s0 :: gut e0 :: rest))
          | x => x
          end).

Lemma sh_ok :
  names_distinct (sh_binds sh) /\ hook_wf (share_hcase sh) = true /\ T_hook (share_hcase sh) = false
  /\ List.length (ho_items (run_hook (share_hcase sh))) = 4%nat
  /\ P_hook (share_hcase sh) (Some gutted_obs) = false.
Proof.
  split.
  - unfold names_distinct. cbn. constructor; [|constructor; [|constructor]]; cbn; intuition discriminate.
  - vm_compute. repeat split; reflexivity.
Qed.
End WitShare.
