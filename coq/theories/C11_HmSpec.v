(* C11_HmSpec.v — property C11 as a decidable predicate over the TASKS the operator creates,
   for hooks whose schedule bindings are enabled and disabled at different moments,
   interleaved with firings.  Written from the property text; it mentions the data types of
   C11_Model / C11_Hm (binding, stask, op, hobs) and the bookkeeping of C11_Spec (registry,
   enabled flags, firings waiting for the consumer), none of the model's functions.

   Text: "Each firing of a crontab produces exactly one task for every enabled schedule
   binding with that crontab - carrying that binding's name, group, allowFailure and
   snapshot list, placed in that binding's queue - and none for other bindings.  A crontab
   keeps firing while at least one binding is registered for it and stops when the last
   one is removed ..."

   "Enabled" is enabled AT THE MOMENT OF THE FIRING: the predicate follows the operations
   (tick, enable hook A, tick, enable hook B, tick, disable hook A, tick ...) and judges the
   tasks of every firing against the hooks enabled then - whatever fired before. *)
From Verif Require Import Common C11_Model C11_Spec C11_Hm.

Definition stask_eqb (a b : stask) : bool :=
  N.eqb (st_hook a) (st_hook b) && N.eqb (st_queue a) (st_queue b) && N.eqb (st_binding a) (st_binding b)
  && N.eqb (st_group a) (st_group b) && Bool.eqb (st_af a) (st_af b)
  && N.eqb (st_ctx_name a) (st_ctx_name b) && ns_eqb (st_ctx_snaps a) (st_ctx_snaps b)
  && N.eqb (st_ctx_group a) (st_ctx_group b).

(* multiset equality of task lists (within a hook the controller iterates a Go map; firings
   that coincide arrive in an order the Go runtime chooses) *)
Fixpoint t_remove_first (x : stask) (l : list stask) : option (list stask) :=
  match l with
  | [] => None
  | y :: r => if stask_eqb x y then Some r
              else match t_remove_first x r with Some r' => Some (y :: r') | None => None end
  end.
Fixpoint is_tperm (a b : list stask) : bool :=
  match a with
  | [] => match b with [] => true | _ :: _ => false end
  | x :: a' => match t_remove_first x b with Some b' => is_tperm a' b' | None => false end
  end.

(* one firing of crontab c: for every hook whose schedule bindings are enabled, one task
   for each of its bindings with that crontab (task_of_binding: that binding's queue, name,
   group, allowFailure, and a binding context with its name, snapshot list and group);
   nothing for a hook that is not enabled, nothing for bindings with another crontab.
   [h]: number of the hook at the head of [hooks] *)
Fixpoint expected_from (h : N) (c : ct) (hooks : list (list binding)) (en : list bool) : list stask :=
  match hooks, en with
  | bs :: hr, e :: er =>
      (if e then map (task_of_binding h) (filter (fun b => ct_eqb (b_crontab b) c) bs) else [])
      ++ expected_from (N.succ h) c hr er
  | _, _ => []
  end.
(* the firings [cs], a crontab as often as it fired *)
Definition expected_tasks (hooks : list (list binding)) (en : list bool) (cs : list ct) : list stask :=
  flat_map (fun c => expected_from 0 c hooks en) cs.
Definition check_tasks (hooks : list (list binding)) (en : list bool) (cs : list ct) (ts : list stask) : bool :=
  is_tperm ts (expected_tasks hooks en cs).

(* binding ids are uuids (config.ScheduleID); about a configuration in which one hook has
   two bindings with one id nothing is claimed *)
Definition ids_distinct (hooks : list (list binding)) : bool :=
  forallb (fun bs => nodupb (map b_id bs)) hooks.

(* along the operations; [st], [pend], [dirty], [stopped] as in C11_Spec.P_from: registry and
   enabled flags, the firings the consumer has not handled yet, "a hook was enabled or
   disabled while firings were waiting" (the text does not say which state counts then) and
   "the manager was stopped" (nothing is said about firings during shutdown) *)
Fixpoint T_from (i : input) (st : spec_state) (pend : list ct) (dirty stopped : bool)
         (ops : list op) (os : list hobs) : bool :=
  match ops, os with
  | [], [] => true
  | o :: ops', ho :: os' =>
      let ob := h_obs ho in
      let st' := spec_step (i_hooks i) st o in
      let judged (cs : list ct) :=
        dirty || stopped || check_tasks (i_hooks i) (snd st') cs (h_tasks ho) in
      match o with
      (* the string c is a firing of crontab c *)
      | OFire c => check_tasks (i_hooks i) (snd st') [c] (h_tasks ho)
      (* the n-th cron entry fires: a firing of the crontab it sends (after those that waited) *)
      | OTick n => match nth_error (o_cron ob) (N.to_nat n) with
                   | Some (_, c) => judged (pend ++ [c])
                   | None => is_nil (h_tasks ho)
                   end
      (* every cron entry fires once *)
      | OTickAll => judged (pend ++ map snd (o_cron ob))
      | ODrain => judged pend
      (* no firing is handled: no task *)
      | _ => is_nil (h_tasks ho)
      end
      && match o with
         | OTick n => match nth_error (o_cron ob) (N.to_nat n) with
                      | Some _ => T_from i st' [] false stopped ops' os'
                      | None => T_from i st' pend dirty stopped ops' os'
                      end
         | OTickAll | ODrain => T_from i st' [] false stopped ops' os'
         | OStart ns => T_from i st' (pend ++ fired_of (o_cron ob) ns) dirty stopped ops' os'
         | OEnable _ | ODisable _ => T_from i st' pend (dirty || negb (is_nil pend)) stopped ops' os'
         | OStop => T_from i st' pend dirty true ops' os'
         | _ => T_from i st' pend dirty stopped ops' os'
         end
  | _, _ => false
  end.

(* the predicate of the operator-level class: everything C11_Spec.P demands of the cron
   entries ("keeps firing while at least one binding is registered ... stops when the last
   one is removed ... never duplicate firings") and of the controllers' answers, and the
   tasks of every firing *)
Definition P_hm (i : input) (os : list hobs) : bool :=
  P i (map h_obs os)
  && (negb (ids_distinct (i_hooks i))
      || T_from i (spec_init (i_hooks i)) [] false false (i_ops i) os).

(* ------------------------------------------------------------------ reference counting, by (hook, binding)

   Text: "A crontab keeps firing while at least one BINDING is registered for it and stops
   when the LAST one is removed" - over "all sets of hooks sharing or not sharing crontabs".
   A binding is a schedule binding OF A HOOK: two hooks that both have, say, an unnamed first
   binding on "*/5 * * * *" have two bindings on that crontab; when one of the hooks disables
   its schedule bindings the crontab keeps firing for the other.  This clause says it without
   the ids the implementation files the registrations under: a crontab has a cron entry (one,
   never two) iff it is parsable and SOME ENABLED (hook, binding) HAS IT - whatever names,
   positions in their hooks' schedule lists, crontabs and queues bindings share - or an id
   registered for it by hand (OAdd) has not been removed (ORemove).

   Ids appear in one place only: an OAdd / ORemove that names the id of a hook's binding
   ([meddles]) takes that binding's registration away (or puts it back) behind the hook's back;
   what "registered" means from there on is what C11_Spec.P says about (crontab, id) pairs, and
   this clause stops judging. *)
Fixpoint enabled_has (c : ct) (hooks : list (list binding)) (en : list bool) : bool :=
  match hooks, en with
  | bs :: hr, e :: er => (e && existsb (fun b => ct_eqb (b_crontab b) c) bs) || enabled_has c hr er
  | _, _ => false
  end.
(* which hooks have their schedule bindings enabled *)
Definition en_step (en : list bool) (o : op) : list bool :=
  match o with
  | OEnable h => set_nth (N.to_nat h) true en
  | ODisable h => set_nth (N.to_nat h) false en
  | _ => en
  end.
(* the pairs registered by hand *)
Definition hand_step (hand : list (ct * N)) (o : op) : list (ct * N) :=
  match o with
  | OAdd c i => reg_add (c, i) hand
  | ORemove c i => reg_remove (c, i) hand
  | _ => hand
  end.
Definition binding_ids (hooks : list (list binding)) : list N := flat_map (map b_id) hooks.
Definition meddles (hooks : list (list binding)) (o : op) : bool :=
  match o with
  | OAdd _ i | ORemove _ i => mem_N i (binding_ids hooks)
  | _ => false
  end.

Definition check_cron_bind (valid : ct -> bool) (alphabet : list ct) (hooks : list (list binding))
           (en : list bool) (hand : list (ct * N)) (o : obs) : bool :=
  forallb (fun c => Nat.eqb (count_fires c (o_cron o))
                            (if valid c && (enabled_has c hooks en || has_binding c hand) then 1 else 0)%nat)
          alphabet.

(* along the operations; [stopped] as in C11_Spec.P_from (which string a cron entry sends is
   learnt by running its job: not judged once the manager is stopped) *)
Fixpoint B_from (i : input) (en : list bool) (hand : list (ct * N)) (stopped : bool)
         (ops : list op) (os : list hobs) : bool :=
  match ops, os with
  | [], [] => true
  | o :: ops', ho :: os' =>
      if meddles (i_hooks i) o then Nat.eqb (length ops') (length os')
      else
        let en' := en_step en o in
        let hand' := hand_step hand o in
        let stopped' := match o with OStop => true | _ => stopped end in
        (stopped' || check_cron_bind (valid_of (i_invalid i)) (i_alphabet i) (i_hooks i) en' hand' (h_obs ho))
        && B_from i en' hand' stopped' ops' os'
  | _, _ => false
  end.

(* the predicate of the operator-level class, on the case as the operator sees it (the hooks'
   configurations loaded: [i] carries the ids the config loader gave the bindings) *)
Definition P_op (i : input) (os : list hobs) : bool :=
  P_hm i os
  && B_from i (map (fun _ => false) (i_hooks i)) [] false (i_ops i) os.
