(* C20_Model.v — executable model of hook discovery and of the --config round of
   hook.Manager.Init, written next to the Go source (NO proofs in this file):

     pkg/utils/file/file.go   RecursiveGetExecutablePaths, checkExecutableHookFile,
                              CheckExecutablePermissions
     path/filepath            Walk (lexical order inside a directory, SkipDir), Ext
     pkg/hook/hook_manager.go Init (sort.Strings on the paths, loadHook for each in
                              order, first error aborts, hooksByName), loadHook (filepath.Rel,
                              run `--config`, LoadConfig; the two error messages), GetHook
     path/filepath            Rel, on the elements of the two paths
     pkg/hook/config/config.go Bindings, HasBinding (which binding types a configuration declares) and
                              the three indices Init fills from them (registry, at the end of this file)

   The model follows the code AFTER the repair of F10 (the skip test for hidden / lib
   directories is applied only below the directory handed to the walk). *)
From Verif Require Import Common.
Local Open Scope N_scope.

(* a directory tree as the file system stores it: names are single path elements *)
Inductive tree :=
| File (name : bytes) (mode : N)
| Dir (name : bytes) (children : list tree).

Definition tree_name (t : tree) : bytes :=
  match t with File n _ => n | Dir n _ => n end.

Definition slash : N := 47.
Definition dot : N := 46.
Definition s_lib : bytes := [108; 105; 98].                    (* "lib" *)
Definition s_yaml : bytes := [46; 121; 97; 109; 108].          (* ".yaml" *)
Definition s_json : bytes := [46; 106; 115; 111; 110].         (* ".json" *)
Definition s_md : bytes := [46; 109; 100].                     (* ".md" *)
Definition s_txt : bytes := [46; 116; 120; 116].               (* ".txt" *)

(* strings.HasPrefix(name, ".") *)
Definition has_dot_prefix (n : bytes) : bool :=
  match n with x :: _ => N.eqb x dot | [] => false end.

(* filepath.Ext:
     for i := len(path) - 1; i >= 0 && !os.IsPathSeparator(path[i]); i-- {
        if path[i] == '.' { return path[i:] } }
     return ""
   [ext_scan rn acc]: rn = the bytes not yet visited, last first; acc = path[i+1:] *)
Fixpoint ext_scan (rn acc : bytes) : bytes :=
  match rn with
  | [] => []
  | x :: r => if N.eqb x slash then []
              else if N.eqb x dot then x :: acc
              else ext_scan r (x :: acc)
  end.
Definition ext (name : bytes) : bytes := ext_scan (rev name) [].

(* checkExecutableHookFile + CheckExecutablePermissions *)
Inductive file_err := ErrFileIsHidden | ErrFileHasWrongExtension | ErrFileNoExecutablePermissions.

Definition check_executable_permissions (mode : N) : option file_err :=
  if N.eqb (N.land mode 73) 0 (* f.Mode()&0o111 == 0 *) then Some ErrFileNoExecutablePermissions else None.

Definition check_executable_hook_file (name : bytes) (mode : N) : option file_err :=
  if has_dot_prefix name then Some ErrFileIsHidden
  else let e := ext name in
       if bytes_eqb e s_yaml || bytes_eqb e s_json || bytes_eqb e s_md || bytes_eqb e s_txt
       then Some ErrFileHasWrongExtension
       else check_executable_permissions mode.

(* sort.Strings as an insertion sort on a key (used for the directory listing of
   filepath.Walk — readDirNames sorts the names — and for Init's sort of the paths) *)
Fixpoint insert_by {A} (key : A -> bytes) (x : A) (l : list A) : list A :=
  match l with
  | [] => [x]
  | y :: r => if bytes_ltb (key x) (key y) then x :: l else y :: insert_by key x r
  end.
Fixpoint sort_by {A} (key : A -> bytes) (l : list A) : list A :=
  match l with
  | [] => []
  | x :: r => insert_by key x (sort_by key r)
  end.
Definition sort_strings : list bytes -> list bytes := sort_by (fun p => p).

(* excludedDirs = append(excludedDirs, "lib"); Init passes no extra names *)
Definition excluded_dirs : list bytes := [s_lib].

(* filepath.Join(path, name) for a clean path and a plain name *)
Definition join_path (path name : bytes) : bytes := path ++ slash :: name.

(* filepath.Walk(dir, fn) with the callback of RecursiveGetExecutablePaths.
   [is_root] = (path == dir): the repaired skip test is `path != dir && (...)`.
   A directory's entries are visited in the order of their sorted names; SkipDir on a
   directory = its subtree contributes nothing. *)
Fixpoint walk (is_root : bool) (path : bytes) (t : tree) : list bytes :=
  match t with
  | File name mode =>
      match check_executable_hook_file name mode with
      | Some _ => []                      (* "file is skipped" *)
      | None => [path]                    (* paths = append(paths, path) *)
      end
  | Dir name cs =>
      if negb is_root && (has_dot_prefix name || existsb (bytes_eqb name) excluded_dirs)
      then []                             (* filepath.SkipDir *)
      else concat (map snd (sort_by fst
             (map (fun c => (tree_name c, walk false (join_path path (tree_name c)) c)) cs)))
  end.

(* the hooks directory: parent path, own name, entries *)
Definition working_dir (parent root : bytes) : bytes := join_path parent root.

Definition get_executable_paths (parent root : bytes) (cs : list tree) : list bytes :=
  walk true (working_dir parent root) (Dir root cs).

(* ---- filepath.Rel(hm.workingDir, hookPath), on path strings ----
   Both arguments are clean ('Clean' is the identity on them: workingDir is given clean,
   Walk builds hookPath with filepath.Join) and there is no volume name on unix.

     if targ == base { return "." }
     // Position base[b0:bi] and targ[t0:ti] at the first differing elements.
     for bi < bl && ti < tl { ...advance over one element of each...
         if targ[t0:ti] != base[b0:bi] { break } ... }
     if b0 != bl { // Base elements left. Must go up before going down.
         return ".." + "/.." * seps + "/" + targ[t0:] }
     return targ[t0:]

   The loop compares the two paths ELEMENT BY ELEMENT FROM THE FRONT and stops at the first
   difference (or when one path is used up); nothing behind that position is ever compared
   with the base again.  [split_path] cuts a path at its separators (an absolute path has
   the empty string as first element), [strip_common] is the loop, [join_comps] writes the
   result.  The two error returns of Rel (one path absolute and the other not; a ".."
   element left in the base) are not modelled: they need a base that is not an element-wise
   prefix of the target, which Walk never produces (C20_Proofs.rel_join). *)
Definition s_dot : bytes := [46].                               (* "." *)
Definition s_dotdot : bytes := [46; 46].                        (* ".." *)

Fixpoint split_path (p : bytes) : list bytes :=
  match p with
  | [] => [[]]
  | x :: r => if N.eqb x slash then [] :: split_path r
              else match split_path r with
                   | c :: cs => (x :: c) :: cs
                   | [] => [[x]]                  (* unreachable: split_path never returns [] *)
                   end
  end.

Fixpoint join_comps (cs : list bytes) : bytes :=
  match cs with
  | [] => []
  | [c] => c
  | c :: r => c ++ slash :: join_comps r
  end.

Fixpoint strip_common (base targ : list bytes) : list bytes * list bytes :=
  match base, targ with
  | b :: bs, t :: ts => if bytes_eqb b t then strip_common bs ts else (base, targ)
  | _, _ => (base, targ)
  end.

Definition rel (wd p : bytes) : bytes :=
  if bytes_eqb wd p then s_dot
  else let (b, t) := strip_common (split_path wd) (split_path p) in
       join_comps (map (fun _ => s_dotdot) b ++ t).

(* the sorted paths Init iterates over, and the hook names they get *)
Definition sorted_paths (parent root : bytes) (cs : list tree) : list bytes :=
  sort_strings (get_executable_paths parent root cs).
Definition discover (parent root : bytes) (cs : list tree) : list bytes :=
  map (rel (working_dir parent root)) (sorted_paths parent root cs).

(* ---- the --config round ---- *)

(* what a hook file does when run with --config *)
Inductive behaviour := BOk | BFail | BInvalid.   (* prints a valid config | run fails | prints an invalid config *)

Inductive init_result :=
| InitOk                                  (* Init returns nil *)
| ErrGetConfig (hook_path : bytes)        (* "cannot get config for hook '<hookPath>': ..." *)
| ErrCreating (hook_name : bytes).        (* "creating hook '<hookName>': load hook ... config: ..." *)

Record init_out := mkInitOut {
  asked : list bytes;          (* the --config executions, in order (entrypoint = full path) *)
  result : init_result;
  names : list bytes           (* hm.hookNamesInOrder *)
}.

(* for _, hookPath := range hooksRelativePaths { hook, err := hm.loadHook(hookPath); if err != nil { return err }; ... } *)
Fixpoint load_all (wd : bytes) (beh : bytes -> behaviour) (paths : list bytes)
         (asked_acc names_acc : list bytes) : init_out :=
  match paths with
  | [] => mkInitOut asked_acc InitOk names_acc
  | p :: r =>
      let name := rel wd p in
      let asked' := asked_acc ++ [p] in               (* execCommandOutput(..., hookPath, ..., ["--config"]) *)
      match beh name with
      | BFail => mkInitOut asked' (ErrGetConfig p) names_acc
      | BInvalid => mkInitOut asked' (ErrCreating name) names_acc
      | BOk => load_all wd beh r asked' (names_acc ++ [name])
      end
  end.

Definition init (parent root : bytes) (cs : list tree) (beh : bytes -> behaviour) : init_out :=
  load_all (working_dir parent root) beh (sorted_paths parent root cs) [] [].

(* ---- the by-name index hm.hooksByName ----
   The same loop once more, keeping only the map: `hm.hooksByName[hook.Name] = hook` for
   every hook loaded before the first error.  A Go map as an association list: an
   assignment puts the newest binding in front, a lookup takes the first match - so a
   second hook with the same name REPLACES the first, as in Go. *)
Definition by_name := list (bytes * bytes).       (* hook.Name -> hook.Path *)

Definition index_get (m : by_name) (name : bytes) : option bytes :=
  match find (fun kv => bytes_eqb (fst kv) name) m with
  | Some kv => Some (snd kv)
  | None => None
  end.

Fixpoint load_index (wd : bytes) (beh : bytes -> behaviour) (paths : list bytes) (idx : by_name) : by_name :=
  match paths with
  | [] => idx
  | p :: r =>
      let name := rel wd p in
      match beh name with
      | BOk => load_index wd beh r ((name, p) :: idx)    (* hm.hooksByName[hook.Name] = hook *)
      | _ => idx                                         (* return err *)
      end
  end.

Definition hooks_by_name (parent root : bytes) (cs : list tree) (beh : bytes -> behaviour) : by_name :=
  load_index (working_dir parent root) beh (sorted_paths parent root cs) [].

(* hm.GetHook(name): the Path of the hook found, "" for nil *)
Definition get_hook_path (m : by_name) (name : bytes) : bytes :=
  match index_get m name with Some p => p | None => [] end.

(* ---- the KIND of a directory entry (the file-type bits of the mode) ----
   filepath.Walk learns about every entry through os.Lstat: a symbolic link is reported AS A LINK
   (mode Lrwxrwxrwx = os.ModeSymlink|0777 on Linux, whatever it points to, IsDir() = false) and is not
   descended into; a FIFO is reported with os.ModeNamedPipe and its permission bits.  The callback
   of RecursiveGetExecutablePaths looks at f.IsDir(), f.Name() and f.Mode()&0o111 only - so for the
   walk an entry of any kind but "directory" is a [File] carrying its Lstat mode.  [xtree] is the
   tree as it is on disk, [lstat] is what the walk sees of it. *)
Definition mode_symlink : N := 134217728.          (* os.ModeSymlink   = 1 << 27 *)
Definition mode_named_pipe : N := 33554432.        (* os.ModeNamedPipe = 1 << 25 *)
Definition link_mode : N := N.lor mode_symlink 511. (* Lrwxrwxrwx *)

(* what a symbolic link resolves to when it is followed (by execve): a regular file with these
   permission bits whose content does `code` on --config (0 valid configuration, 1 the run fails,
   2 invalid configuration); a directory; nothing (dangling, also a loop); a FIFO *)
Inductive target :=
| TFile (mode code : N)
| TDir
| TDangling
| TFifo.

Inductive xtree :=
| XFile (name : bytes) (mode : N)                  (* regular file, permission bits *)
| XDir (name : bytes) (children : list xtree)
| XLink (name : bytes) (tgt : target)              (* symbolic link *)
| XFifo (name : bytes) (mode : N).                 (* named pipe, permission bits *)

Fixpoint lstat (x : xtree) : tree :=
  match x with
  | XFile n m => File n m
  | XDir n cs => Dir n (map lstat cs)
  | XLink n _ => File n link_mode
  | XFifo n m => File n (N.lor mode_named_pipe m)
  end.

(* ---- WHAT a valid configuration declares, and the indices Init builds from it ----
   (seeded change C20-8)  hook.LoadConfig turns the --config answer into a HookConfig;
   HookConfig.HasBinding(b) says whether the configuration declares a binding of type b, and

     var validBindingTypes = []BindingType{OnStartup, Schedule, OnKubernetesEvent,
                                           KubernetesValidating, KubernetesMutating, KubernetesConversion}
     func (c *HookConfig) Bindings() []BindingType {
         res := []BindingType{}
         for _, binding := range validBindingTypes { if c.HasBinding(binding) { res = append(res, binding) } }
         return res }

   A configuration is modelled by the list of binding types it declares (possibly EMPTY: a v1
   configuration with `settings:` only, a v0 configuration {"schedule": []}). *)
Inductive binding :=
| BOnStartup | BSchedule | BOnKubernetesEvent | BKubernetesValidating | BKubernetesMutating | BKubernetesConversion.

Definition valid_binding_types : list binding :=
  [BOnStartup; BSchedule; BOnKubernetesEvent; BKubernetesValidating; BKubernetesMutating; BKubernetesConversion].

Definition binding_eqb (a b : binding) : bool :=
  match a, b with
  | BOnStartup, BOnStartup | BSchedule, BSchedule | BOnKubernetesEvent, BOnKubernetesEvent
  | BKubernetesValidating, BKubernetesValidating | BKubernetesMutating, BKubernetesMutating
  | BKubernetesConversion, BKubernetesConversion => true
  | _, _ => false
  end.

Definition config := list binding.                         (* the binding types the configuration declares *)
Definition has_binding (c : config) (b : binding) : bool := existsb (binding_eqb b) c.
Definition bindings (c : config) : list binding := filter (has_binding c) valid_binding_types.

(* the three indices of the hook manager *)
Record registry := mkRegistry {
  rg_in_order : binding -> list bytes;     (* hm.hooksInOrder[binding], the hooks by their names *)
  rg_by_name : by_name;                    (* hm.hooksByName *)
  rg_names : list bytes                    (* hm.hookNamesInOrder *)
}.

Definition empty_registry : registry := mkRegistry (fun _ => []) [] [].

(* hm.hooksInOrder[binding] = append(hm.hooksInOrder[binding], hook) *)
Definition append_in_order (m : binding -> list bytes) (b : binding) (name : bytes) : binding -> list bytes :=
  fun b' => if binding_eqb b' b then m b' ++ [name] else m b'.

(*  // register hook in indices
    for _, binding := range hook.Config.Bindings() {
        hm.hooksInOrder[binding] = append(hm.hooksInOrder[binding], hook) }
    hm.hooksByName[hook.Name] = hook
    hm.hookNamesInOrder = append(hm.hookNamesInOrder, hook.Name)
   the by-name index and the list of names are written OUTSIDE the loop over the bindings: a hook
   enters them whatever its configuration declares *)
Definition register (c : config) (name path : bytes) (r : registry) : registry :=
  mkRegistry (fold_left (fun m b => append_in_order m b name) (bindings c) (rg_in_order r))
             ((name, path) :: rg_by_name r)
             (rg_names r ++ [name]).

(* the loop of Init once more, with the configuration each hook answers ([cfg], by hook name;
   consulted only for a hook whose --config run yields a valid configuration) *)
Fixpoint load_registry (wd : bytes) (beh : bytes -> behaviour) (cfg : bytes -> config)
         (paths : list bytes) (r : registry) : registry :=
  match paths with
  | [] => r
  | p :: rest =>
      let name := rel wd p in
      match beh name with
      | BOk => load_registry wd beh cfg rest (register (cfg name) name p r)
      | _ => r                                           (* return err *)
      end
  end.

Definition registry_of (parent root : bytes) (cs : list tree) (beh : bytes -> behaviour) (cfg : bytes -> config) : registry :=
  load_registry (working_dir parent root) beh cfg (sorted_paths parent root cs) empty_registry.

(* the configuration shapes the generated hook files print (harness/internal/c20/configs.go, same
   numbering).  A file's --config code carries the shape: 10 + shape = a valid configuration of
   that shape; every other code that is not 1 or 2 (0: nothing said about the file) = shape 0. *)
Definition shape_of_code (c : N) : N := c - 10.
Definition shape_bindings (s : N) : config :=
  match s with
  | 1 | 2 | 3 | 4 | 15 => []                                       (* valid, declares nothing *)
  | 5 => [BSchedule]
  | 6 => [BOnKubernetesEvent]
  | 7 => [BKubernetesValidating]
  | 8 => [BKubernetesMutating]
  | 9 => [BKubernetesConversion]
  | 10 | 13 => [BOnStartup; BSchedule; BOnKubernetesEvent]
  | 11 => valid_binding_types
  | 16 => [BSchedule; BOnKubernetesEvent]
  | _ => [BOnStartup]                                              (* 0, 12, 14 *)
  end.
