(* C14_Proofs.v — lemmas and proofs for C14 (admission webhooks). *)
From Verif Require Import Common C14_Model C14_Spec.
From Coq Require Import Arith.

(* ================================================================= byte strings *)

Lemma bytes_eqb_refl a : bytes_eqb a a = true.
Proof. now apply bytes_eqb_eq. Qed.

Lemma bytes_eqb_nil_rev cur : bytes_eqb (rev cur) [] = true <-> cur = [].
Proof.
  rewrite bytes_eqb_eq. split; [|now intros ->].
  intros H. apply (f_equal (@rev N)) in H. now rewrite rev_involutive in H.
Qed.

Definition slashfree (s : bytes) : Prop := Forall (fun c => c <> slash) s.

(* the Spec's segments are the non-empty parts of strings.Split *)
Lemma segs_split_aux s : forall cur,
  filter (fun p => negb (bytes_eqb p [])) (split_slash_aux cur s) = segs_aux cur s.
Proof.
  induction s as [|c r IH]; intros cur; cbn [split_slash_aux segs_aux filter].
  - destruct cur as [|x cur]; [reflexivity|].
    destruct (bytes_eqb (rev (x :: cur)) []) eqn:E; [apply bytes_eqb_nil_rev in E; discriminate | reflexivity].
  - change 47%N with slash. destruct (N.eqb c slash).
    + cbn [filter]. rewrite IH. destruct cur as [|x cur]; [reflexivity|].
      destruct (bytes_eqb (rev (x :: cur)) []) eqn:E; [apply bytes_eqb_nil_rev in E; discriminate | reflexivity].
    + apply IH.
Qed.

Lemma segs_split s : filter (fun p => negb (bytes_eqb p [])) (split_slash s) = segs s.
Proof. apply segs_split_aux. Qed.

Lemma segs_aux_app_slash a : forall cur b,
  segs_aux cur (a ++ slash :: b) = segs_aux cur a ++ segs b.
Proof.
  induction a as [|c a IH]; intros cur b; cbn [app segs_aux].
  - change 47%N with slash. rewrite N.eqb_refl. destruct cur; reflexivity.
  - change 47%N with slash. destruct (N.eqb c slash).
    + destruct cur; rewrite IH; reflexivity.
    + apply IH.
Qed.

Lemma segs_app_slash a b : segs (a ++ slash :: b) = segs a ++ segs b.
Proof. apply segs_aux_app_slash. Qed.

Lemma segs_aux_word w : slashfree w -> forall cur,
  segs_aux cur w = match cur, w with [], [] => [] | _, _ => [rev cur ++ w] end.
Proof.
  induction 1 as [|c w Hc Hw IH]; intros cur; cbn [segs_aux].
  - destruct cur; [reflexivity | now rewrite app_nil_r].
  - change 47%N with slash. apply N.eqb_neq in Hc. rewrite Hc. rewrite IH. cbn [rev].
    rewrite <- app_assoc. cbn [app]. destruct cur; reflexivity.
Qed.

Lemma segs_word w : slashfree w -> w <> [] -> segs w = [w].
Proof.
  intros H Hne. unfold segs. rewrite (segs_aux_word w H []). destruct w; [now contradiction Hne | reflexivity].
Qed.

Lemma segs_aux_parts s : forall cur, slashfree cur ->
  Forall (fun p => p <> [] /\ slashfree p) (segs_aux cur s).
Proof.
  assert (forall cur, slashfree cur -> slashfree (rev cur)) as Hrev.
  { intros cur H. unfold slashfree in *. rewrite Forall_forall in *. intros x Hx. apply H. now apply in_rev. }
  induction s as [|c r IH]; intros cur Hcur; cbn [segs_aux].
  - destruct cur as [|x cur]; [constructor|]. constructor; [|constructor]. split; [|now apply Hrev].
    intros E. apply (f_equal (@rev N)) in E. rewrite rev_involutive in E. discriminate.
  - change 47%N with slash. destruct (N.eqb c slash) eqn:Ec.
    + destruct cur as [|x cur]; [apply IH; constructor|]. constructor; [|apply IH; constructor].
      split; [|now apply Hrev]. intros E. apply (f_equal (@rev N)) in E. rewrite rev_involutive in E. discriminate.
    + apply IH. constructor; [now apply N.eqb_neq | assumption].
Qed.

Lemma segs_parts s : Forall (fun p => p <> [] /\ slashfree p) (segs s).
Proof. apply segs_aux_parts. constructor. Qed.

Lemma segs_join l : Forall (fun p => p <> [] /\ slashfree p) l -> segs (join_slash l) = l.
Proof.
  induction 1 as [|p r [Hne Hp] Hr IH]; [reflexivity|]. cbn [join_slash].
  destruct r as [|p' r'].
  - now apply segs_word.
  - rewrite segs_app_slash, IH, segs_word by assumption. reflexivity.
Qed.

Lemma default_conf_word : slashfree default_conf /\ default_conf <> [].
Proof. split; [|discriminate]. unfold default_conf, slashfree. repeat constructor; discriminate. Qed.

Lemma segs_registered n : slashfree (webhook_id n) -> webhook_id n <> [] ->
  segs (registered_path n) = [default_conf; webhook_id n].
Proof.
  intros H Hne. unfold registered_path.
  change (slash :: default_conf ++ slash :: webhook_id n) with ([] ++ slash :: (default_conf ++ slash :: webhook_id n)).
  rewrite segs_app_slash, segs_app_slash. destruct default_conf_word as [H1 H2].
  rewrite (segs_word default_conf H1 H2), (segs_word _ H Hne). reflexivity.
Qed.

Lemma detect_segs path : detect path = match segs path with [] => ([], []) | c :: r => (c, join_slash r) end.
Proof. unfold detect. now rewrite segs_split. Qed.

Lemma list_eqb_bytes_eq a b : list_eqb bytes_eqb a b = true <-> a = b.
Proof. apply list_eqb_eq. intros x y. apply bytes_eqb_eq. Qed.

(* a path has the segments of the registered path of n iff it is detected as ("hooks", id n) *)
Lemma same_path_detect n path : slashfree (webhook_id n) -> webhook_id n <> [] ->
  (same_path (registered_path n) path = true <-> detect path = (default_conf, webhook_id n)).
Proof.
  intros H Hne. unfold same_path. rewrite list_eqb_bytes_eq, (segs_registered n H Hne), detect_segs.
  pose proof (segs_parts path) as Hparts. split.
  - intros E. rewrite <- E. reflexivity.
  - destruct (segs path) as [|c r] eqn:Es.
    + intros E. injection E as E1 E2. destruct default_conf_word as [_ Hd]. exfalso. apply Hd. now symmetry.
    + intros E. injection E as E1 E2. subst c. f_equal.
      inversion Hparts as [|? ? _ Hr]; subst.
      rewrite <- (segs_join r Hr), E2. symmetry. now apply segs_word.
Qed.

(* SafeURLString keeps a name without '/' free of '/', and a non-empty name non-empty *)
Lemma collapse_in s : forall c, In c (collapse s) -> In c s.
Proof.
  induction s as [|x r IH]; intros c H; [destruct H|]. cbn [collapse] in H. destruct r as [|y r'].
  - exact H.
  - destruct (N.eqb x dash && N.eqb y dash).
    + right. now apply IH.
    + destruct H as [<- | H]; [now left | right; now apply IH].
Qed.

Lemma collapse_nonempty s : s <> [] -> collapse s <> [].
Proof.
  induction s as [|x r IH]; intros H; [now contradiction H|]. cbn [collapse]. destruct r as [|y r'].
  - discriminate.
  - destruct (N.eqb x dash && N.eqb y dash); [apply IH; discriminate | discriminate].
Qed.

Lemma safe_url_slashfree n : slashfree n -> slashfree (safe_url n).
Proof.
  intros H. unfold safe_url, slashfree. apply Forall_forall. intros c Hc. apply collapse_in in Hc.
  unfold replace_unsafe in Hc. apply in_map_iff in Hc. destruct Hc as (d & <- & Hd).
  assert (d <> slash) as Hds.
  { clear -H Hd. induction H as [|x n Hx Hn IH]; [destruct Hd|]. cbn [dash_upper] in Hd.
    destruct (is_upper x) eqn:Eu.
    - destruct Hd as [<- | [<- | Hd]]; [discriminate | | now apply IH].
      unfold is_upper in Eu. apply andb_true_iff in Eu. destruct Eu as [E1 E2].
      apply N.leb_le in E1, E2. unfold slash. lia.
    - destruct Hd as [<- | Hd]; [assumption | now apply IH]. }
  destruct (is_safe d); [assumption | discriminate].
Qed.

Lemma safe_url_nonempty n : n <> [] -> safe_url n <> [].
Proof.
  intros H. unfold safe_url. apply collapse_nonempty. unfold replace_unsafe.
  destruct n as [|x n]; [now contradiction H|]. cbn [dash_upper]. destruct (is_upper x); discriminate.
Qed.

(* ================================================================= links and lookup *)

Definition name_ok (n : bytes) : Prop := slashfree n /\ n <> [].
Definition names_ok (hooks : list hook) : Prop :=
  forall h, In h hooks -> Forall name_ok (h_val h) /\ Forall name_ok (h_mut h).

Definition binds (h : hook) (t : btype) (n : bytes) : Prop :=
  match t with Validating => In n (h_val h) | Mutating => In n (h_mut h) end.

Lemma link_get_put ls id x id' :
  link_get (link_put ls id x) id' = if bytes_eqb id id' then Some x else link_get ls id'.
Proof.
  induction ls as [|[i y] ls IH]; cbn [link_put link_get]; [reflexivity|].
  destruct (bytes_eqb i id) eqn:E; cbn [link_get].
  - apply bytes_eqb_eq in E; subst i. destruct (bytes_eqb id id'); reflexivity.
  - rewrite IH. destruct (bytes_eqb i id') eqn:E'; [|reflexivity].
    apply bytes_eqb_eq in E'; subst i.
    assert (bytes_eqb id id' = false) as ->; [|reflexivity].
    destruct (bytes_eqb id id') eqn:E2; [|reflexivity]. apply bytes_eqb_eq in E2; subst.
    rewrite bytes_eqb_refl in E. discriminate.
Qed.

(* every link of a hook comes from one of its bindings, under that binding's webhook id *)
Lemma hook_links_sound h id t n : link_get (hook_links h) id = Some (t, n) -> binds h t n /\ webhook_id n = id.
Proof.
  unfold hook_links.
  set (inv := fun ls => forall id t n, link_get ls id = Some (t, n) -> binds h t n /\ webhook_id n = id).
  assert (inv (fold_left (fun ls n0 => link_put ls (webhook_id n0) (Validating, n0)) (h_val h) [])) as H1.
  { assert (forall l ls, incl l (h_val h) -> inv ls ->
                         inv (fold_left (fun ls n0 => link_put ls (webhook_id n0) (Validating, n0)) l ls)) as G.
    { induction l as [|x l IH]; intros ls Hl Hls; [exact Hls|]. cbn [fold_left]. apply IH; [intros y Hy; apply Hl; now right|].
      intros id0 t0 n0 E. rewrite link_get_put in E. destruct (bytes_eqb (webhook_id x) id0) eqn:Ei.
      - inversion E; subst. apply bytes_eqb_eq in Ei. split; [apply Hl; now left | assumption].
      - now apply Hls. }
    apply G; [apply incl_refl | intros ? ? ? E; discriminate]. }
  assert (forall l ls, incl l (h_mut h) -> inv ls ->
                       inv (fold_left (fun ls n0 => link_put ls (webhook_id n0) (Mutating, n0)) l ls)) as G2.
  { induction l as [|x l IH]; intros ls Hl Hls; [exact Hls|]. cbn [fold_left]. apply IH; [intros y Hy; apply Hl; now right|].
    intros id0 t0 n0 E. rewrite link_get_put in E. destruct (bytes_eqb (webhook_id x) id0) eqn:Ei.
    - inversion E; subst. apply bytes_eqb_eq in Ei. split; [apply Hl; now left | assumption].
    - now apply Hls. }
  intros E. now apply (G2 (h_mut h) _ (incl_refl _) H1).
Qed.

(* every binding of a hook has a link under its webhook id (possibly another binding's) *)
Lemma hook_links_complete h t n : binds h t n -> link_get (hook_links h) (webhook_id n) <> None.
Proof.
  unfold hook_links.
  assert (forall ty l ls id, link_get ls id <> None ->
            link_get (fold_left (fun ls n0 => link_put ls (webhook_id n0) (ty, n0)) l ls) id <> None) as Hmono.
  { intros ty l. induction l as [|x l IH]; intros ls id H; [exact H|]. cbn [fold_left]. apply IH.
    rewrite link_get_put. destruct (bytes_eqb (webhook_id x) id); [discriminate | exact H]. }
  assert (forall ty l ls, In n l ->
            link_get (fold_left (fun ls n0 => link_put ls (webhook_id n0) (ty, n0)) l ls) (webhook_id n) <> None) as Hnew.
  { intros ty l. induction l as [|x l IH]; intros ls Hin; [destruct Hin|]. cbn [fold_left].
    destruct Hin as [-> | Hin]; [|now apply IH].
    apply Hmono. rewrite link_get_put, bytes_eqb_refl. discriminate. }
  destruct t; cbn [binds]; intros Hin.
  - apply Hmono. now apply Hnew.
  - now apply Hnew.
Qed.

Lemma indexed_In hooks i h : In (i, h) (indexed hooks) <-> nth_error hooks (N.to_nat i) = Some h /\ i = N.of_nat (N.to_nat i).
Proof.
  unfold indexed.
  assert (forall (l : list hook) k i h, In (i, h) (combine (map N.of_nat (seq k (length l))) l) <->
                          exists j, i = N.of_nat (k + j) /\ nth_error l j = Some h) as G.
  { induction l as [|x l IH]; intros k i0 h0; cbn [length seq map combine].
    - split; [intros [] | intros (j & _ & E); destruct j; discriminate].
    - split.
      + intros [E | Hin].
        * inversion E; subst. exists 0. split; [now rewrite Nat.add_0_r | reflexivity].
        * apply IH in Hin. destruct Hin as (j & -> & Hj). exists (S j). split; [f_equal; lia | exact Hj].
      + intros (j & -> & Hj). destruct j as [|j].
        * left. cbn in Hj. inversion Hj. now rewrite Nat.add_0_r.
        * right. apply IH. exists j. split; [f_equal; lia | exact Hj]. }
  rewrite G. split.
  - intros (j & -> & Hj). cbn [plus]. rewrite Nat2N.id. now split.
  - intros [Hn Hi]. exists (N.to_nat i). now split.
Qed.

(* what find_task answers is a binding of the hook at that position, with that webhook id,
   and the configuration id is "hooks" *)
Lemma find_task_sound hooks conf id h t n : find_task hooks conf id = Some (h, (t, n)) ->
  conf = default_conf /\ webhook_id n = id /\
  exists hk, In (h, hk) (indexed hooks) /\ binds hk t n.
Proof.
  unfold find_task.
  set (vs := filter _ (indexed hooks)). set (ms := filter _ (indexed hooks)).
  assert (incl (vs ++ ms) (indexed hooks)) as Hincl.
  { intros x Hx. apply in_app_or in Hx. destruct Hx as [Hx | Hx]; unfold vs, ms in Hx; now apply filter_In in Hx. }
  set (good := fun (acc : option (N * (btype * bytes))) =>
                 forall h t n, acc = Some (h, (t, n)) ->
                   conf = default_conf /\ webhook_id n = id /\ exists hk, In (h, hk) (indexed hooks) /\ binds hk t n).
  assert (forall l acc, incl l (indexed hooks) -> good acc ->
            good (fold_left (fun acc ih =>
               if can_handle (snd ih) conf id
               then match link_get (hook_links (snd ih)) id with Some x => Some (fst ih, x) | None => acc end
               else acc) l acc)) as G.
  { induction l as [|[i hk] l IH]; intros acc Hl Hacc; [exact Hacc|]. cbn [fold_left]. apply IH; [intros y Hy; apply Hl; now right|].
    cbn [fst snd]. destruct (can_handle hk conf id) eqn:Ec; [|exact Hacc].
    destruct (link_get (hook_links hk) id) as [[t0 n0]|] eqn:El; [|exact Hacc].
    intros h' t' n' E. inversion E; subst. apply hook_links_sound in El. destruct El as [Hb Hid].
    unfold can_handle in Ec. apply andb_true_iff in Ec. destruct Ec as [Ec _]. apply bytes_eqb_eq in Ec.
    split; [|split; [assumption|]].
    - rewrite <- Ec. unfold hook_conf. destruct t'; cbn [binds] in Hb.
      + destruct (h_val hk); [destruct Hb | reflexivity].
      + destruct (h_val hk); [destruct (h_mut hk); [destruct Hb | reflexivity] | reflexivity].
    - exists hk. split; [apply Hl; now left | assumption]. }
  intros E. apply (G (vs ++ ms) None Hincl); [intros ? ? ? E0; discriminate | exact E].
Qed.

(* if some hook has a binding with that webhook id, somebody is found *)
Lemma find_task_complete hooks h hk t n : In (h, hk) (indexed hooks) -> binds hk t n ->
  find_task hooks default_conf (webhook_id n) <> None.
Proof.
  intros Hin Hb. unfold find_task.
  set (vs := filter _ (indexed hooks)). set (ms := filter _ (indexed hooks)).
  assert (In (h, hk) (vs ++ ms)) as Hin'.
  { apply in_or_app. destruct t; cbn [binds] in Hb; [left | right]; unfold vs, ms; apply filter_In; (split; [assumption|]);
      cbn [snd]; [destruct (h_val hk) | destruct (h_mut hk)]; try reflexivity; destruct Hb. }
  assert (can_handle hk default_conf (webhook_id n) = true) as Hc.
  { unfold can_handle. apply andb_true_iff. split.
    - apply bytes_eqb_eq. unfold hook_conf. destruct t; cbn [binds] in Hb.
      + destruct (h_val hk); [destruct Hb | reflexivity].
      + destruct (h_val hk); [destruct (h_mut hk); [destruct Hb | reflexivity] | reflexivity].
    - pose proof (hook_links_complete hk t n Hb) as Hl. destruct (link_get _ _); [reflexivity | now contradiction Hl]. }
  set (f := fun (acc : option (N * (btype * bytes))) (ih : N * hook) =>
              if can_handle (snd ih) default_conf (webhook_id n)
              then match link_get (hook_links (snd ih)) (webhook_id n) with Some x => Some (fst ih, x) | None => acc end
              else acc).
  assert (forall l acc, acc <> None -> fold_left f l acc <> None) as Hkeep.
  { induction l as [|x l IH]; intros acc H; [exact H|]. cbn [fold_left]. apply IH. unfold f.
    destruct (can_handle (snd x) default_conf (webhook_id n)); [|exact H].
    destruct (link_get (hook_links (snd x)) (webhook_id n)); [discriminate | exact H]. }
  assert (forall l acc, In (h, hk) l -> fold_left f l acc <> None) as Hfind.
  { induction l as [|x l IH]; intros acc Hl; [destruct Hl|]. cbn [fold_left]. destruct Hl as [-> | Hl]; [|now apply IH].
    apply Hkeep. unfold f. cbn [fst snd]. rewrite Hc.
    pose proof (hook_links_complete hk t n Hb) as Hl. destruct (link_get _ _); [discriminate | now contradiction Hl]. }
  now apply Hfind.
Qed.

(* ================================================================= registrations *)

Lemma model_regs_In hooks g : In g (model_regs hooks) <->
  exists h hk t n, In (h, hk) (indexed hooks) /\ binds hk t n /\ g = mkReg h t n (registered_path n).
Proof.
  unfold model_regs. rewrite in_flat_map. split.
  - intros ([h hk] & Hin & Hg). cbn [fst snd] in Hg. apply in_app_or in Hg. destruct Hg as [Hg | Hg];
      apply in_map_iff in Hg; destruct Hg as (n & <- & Hn).
    + exists h, hk, Validating, n. repeat split; assumption.
    + exists h, hk, Mutating, n. repeat split; assumption.
  - intros (h & hk & t & n & Hin & Hb & ->). exists (h, hk). split; [assumption|]. cbn [fst snd].
    apply in_or_app. destruct t; cbn [binds] in Hb; [left | right]; apply in_map_iff; exists n; now split.
Qed.

Lemma indexed_hook hooks h hk : In (h, hk) (indexed hooks) -> In hk hooks.
Proof. intros H. apply indexed_In in H. destruct H as [H _]. now apply nth_error_In in H. Qed.

Lemma binds_name_ok hooks h hk t n : names_ok hooks -> In (h, hk) (indexed hooks) -> binds hk t n ->
  slashfree (webhook_id n) /\ webhook_id n <> [].
Proof.
  intros Hok Hin Hb. apply indexed_hook in Hin. destruct (Hok _ Hin) as [Hv Hm].
  assert (name_ok n) as [H1 H2].
  { destruct t; cbn [binds] in Hb; [rewrite Forall_forall in Hv; now apply Hv | rewrite Forall_forall in Hm; now apply Hm]. }
  unfold webhook_id. split; [now apply safe_url_slashfree | now apply safe_url_nonempty].
Qed.

Lemma btype_eqb_refl t : btype_eqb t t = true.
Proof. destruct t; reflexivity. Qed.

(* whoever find_task designates registered the requested path *)
Lemma found_is_registrar hooks path h t n : names_ok hooks ->
  find_task hooks (fst (detect path)) (snd (detect path)) = Some (h, (t, n)) ->
  existsb (ran_is (Some (h, (t, n)))) (registrars (model_regs hooks) path) = true.
Proof.
  intros Hok E. apply find_task_sound in E. destruct E as (Ec & Ei & hk & Hin & Hb).
  destruct (binds_name_ok hooks h hk t n Hok Hin Hb) as [Hs Hne].
  apply existsb_exists. exists (mkReg h t n (registered_path n)). split.
  - unfold registrars. apply filter_In. split.
    + apply model_regs_In. exists h, hk, t, n. repeat split; assumption.
    + cbn [g_path]. apply (same_path_detect n path Hs Hne). rewrite <- Ec, Ei. now destruct (detect path).
  - cbn [ran_is g_hook g_type g_name]. now rewrite N.eqb_refl, btype_eqb_refl, bytes_eqb_refl.
Qed.

(* if somebody registered the requested path, find_task designates somebody *)
Lemma registrar_is_found hooks path g : names_ok hooks ->
  In g (registrars (model_regs hooks) path) ->
  find_task hooks (fst (detect path)) (snd (detect path)) <> None.
Proof.
  intros Hok Hg. unfold registrars in Hg. apply filter_In in Hg. destruct Hg as [Hg Hp].
  apply model_regs_In in Hg. destruct Hg as (h & hk & t & n & Hin & Hb & ->). cbn [g_path] in Hp.
  destruct (binds_name_ok hooks h hk t n Hok Hin Hb) as [Hs Hne].
  apply (same_path_detect n path Hs Hne) in Hp. rewrite Hp. cbn [fst snd].
  now apply find_task_complete with (h := h) (hk := hk) (t := t).
Qed.

(* ================================================================= one hook run *)

Definition deny_failed (uid : N) : review := mkReview uid false 403 AMHookFailed [] 0 false.

Definition relayed (uid : N) (x : resp) : review :=
  match x with
  | (allowed, msg, warnings, patch) =>
    mkReview uid allowed (if allowed then 0 else 403)%N
             (if allowed then AMNone else if N.eqb msg 0 then AMNone else AMHook msg)
             warnings patch (negb (N.eqb patch 0))
  end.

(* how a HookRun task for an admission event can end: failed and without a response prop, or
   not failed — then the process exited 0, every post-exit step went through, and the prop is
   exactly what the response file said (nothing for an empty file) *)
Lemma handle_run_hook_cases r :
  (t_fail (handle_run_hook r) = true /\ t_prop (handle_run_hook r) = None)
  \/ (t_fail (handle_run_hook r) = false /\ exit_zero r = true /\ run_completed r = true /\
      ((file r = FEmpty /\ t_prop (handle_run_hook r) = None)
       \/ exists a m w p, file r = FResp a m w p false /\ t_prop (handle_run_hook r) = Some (a, m, w, p))).
Proof.
  destruct r as [ez f mm c k].
  destruct ez; [|left; split; reflexivity].
  destruct mm as [| |mk [|]]; try (left; split; reflexivity);
  (destruct f as [| |a m w p [|]]; try (left; split; reflexivity));
  (destruct c; try (left; split; reflexivity));
  (destruct k as [| |kk [|]]; try (left; split; reflexivity));
  right; (split; [reflexivity|]); (split; [reflexivity|]); (split; [reflexivity|]);
  first [left; split; reflexivity | right; exists a, m, w, p; split; reflexivity].
Qed.

(* the invariant the event handler relies on: a failed task carries no response *)
Theorem failed_run_has_no_response r : t_fail (handle_run_hook r) = true -> t_prop (handle_run_hook r) = None.
Proof.
  intros H. destruct (handle_run_hook_cases r) as [[_ Hp] | (Hf & _)]; [exact Hp | rewrite Hf in H; discriminate].
Qed.

(* the converse: a run without any failure succeeds and carries the hook's verdict *)
Lemma handle_run_hook_success r a m w p : exit_zero r = true -> run_completed r = true -> file r = FResp a m w p false ->
  t_fail (handle_run_hook r) = false /\ t_prop (handle_run_hook r) = Some (a, m, w, p).
Proof.
  destruct r as [ez f mm c k]. cbn [exit_zero file]. intros -> Hc ->.
  unfold run_completed in Hc. cbn [kpatch metrics conv] in Hc.
  destruct k as [| |kk [|]]; try discriminate; (destruct mm as [| |mk [|]]; try discriminate);
    (destruct c; try discriminate); split; reflexivity.
Qed.

(* every failure of the run, before or after the exit of the process, fails the task *)
Lemma handle_run_hook_failure r : exit_zero r = false \/ run_completed r = false -> t_fail (handle_run_hook r) = true.
Proof.
  intros H. destruct (handle_run_hook_cases r) as [[Hf _] | (_ & He & Hc & _)]; [exact Hf|].
  destruct H as [H | H]; [rewrite He in H | rewrite Hc in H]; discriminate.
Qed.

(* side effects: the marker metric is applied only by a run that went through entirely; the
   marker Kubernetes operation only after Run and ParseOperations succeeded *)
Lemma effects_cases r :
  (t_mapplied (handle_run_hook r) = true -> t_fail (handle_run_hook r) = false /\ exists i, metrics r = MOps true i)
  /\ (t_kapplied (handle_run_hook r) = true -> hook_run r <> None /\ exists j, kpatch r = KOps true j).
Proof.
  unfold handle_run_hook. destruct (hook_run r) as [o|]; [|split; intros H; discriminate].
  destruct (kpatch r) as [| |kk [|]]; cbn [t_mapplied t_kapplied t_fail]; try (split; intros H; discriminate).
  - destruct (metrics r) as [| |mk [|]]; cbn [t_mapplied t_kapplied t_fail]; split; intros H; try discriminate.
    subst mk. split; [reflexivity | now eexists].
  - split; intros H; [discriminate|]. subst kk. split; [discriminate | now eexists].
  - destruct (metrics r) as [| |mk [|]]; cbn [t_mapplied t_kapplied t_fail]; split; intros H; try discriminate;
      subst; (split; [first [reflexivity | discriminate] | now eexists]).
Qed.

(* ================================================================= the answer *)

(* the three answers a review can get once a hook was found *)
Lemma answer_of_task_cases uid r :
  (answer_of_task uid (handle_run_hook r) = deny_failed uid)
  \/ (exit_zero r = true /\ run_completed r = true /\
      ((file r = FEmpty /\ answer_of_task uid (handle_run_hook r) = errored uid AMPropError)
       \/ exists a m w p, file r = FResp a m w p false /\ answer_of_task uid (handle_run_hook r) = relayed uid (a, m, w, p))).
Proof.
  unfold answer_of_task.
  destruct (handle_run_hook_cases r) as [[Hf Hp] | (Hf & He & Hc & [[Hfile Hp] | (a & m & w & p & Hfile & Hp)])];
    rewrite Hf, ?Hp.
  - left. reflexivity.
  - right. repeat (split; [assumption|]). left. now split.
  - right. repeat (split; [assumption|]). right. exists a, m, w, p. now split.
Qed.

Lemma admit_review_eq hooks path uid r :
  admit_review hooks path uid r =
  match find_task hooks (fst (detect path)) (snd (detect path)) with
  | None => (errored uid AMNoHook, None)
  | Some x => (answer_of_task uid (handle_run_hook r), Some x)
  end.
Proof.
  unfold admit_review. destruct (detect path) as [conf id]. cbn [fst snd].
  destruct (find_task hooks conf id) as [[h l]|]; reflexivity.
Qed.

Lemma admit_review_who hooks path uid r :
  snd (admit_review hooks path uid r) = match find_task hooks (fst (detect path)) (snd (detect path)) with
                                        | Some x => Some x | None => None end.
Proof.
  rewrite admit_review_eq. destruct (find_task _ _ _); reflexivity.
Qed.

Theorem fail_closed_holds hooks path b r : names_ok hooks ->
  fail_closed (model_regs hooks) path b r (fst (admit_request hooks path b r)) (snd (admit_request hooks path b r)) = true.
Proof.
  intros Hok. unfold admit_request. destruct b as [uid| | |]; try reflexivity.
  rewrite admit_review_eq.
  destruct (find_task hooks (fst (detect path)) (snd (detect path))) as [[h [t n]]|] eqn:Ef; [|reflexivity].
  cbn [fst snd]. unfold fail_closed. cbn [allowed_of].
  rewrite (found_is_registrar hooks path h t n Hok Ef).
  destruct (answer_of_task_cases uid r) as [-> | (He & Hc & [[Hfile ->] | (a & m & w & p & Hfile & ->)])]; try reflexivity.
  cbn [relayed a_allowed]. destruct a; [|reflexivity].
  rewrite He, Hc, Hfile. reflexivity.
Qed.

Theorem uid_echo_holds hooks path b r : uid_echo b (fst (admit_request hooks path b r)) = true.
Proof.
  unfold admit_request. destruct b as [uid| | |]; try reflexivity.
  rewrite admit_review_eq.
  destruct (find_task hooks (fst (detect path)) (snd (detect path))) as [x|]; cbn [fst uid_echo]; [|apply N.eqb_refl].
  destruct (answer_of_task_cases uid r) as [-> | (_ & _ & [[_ ->] | (a & m & w & p & _ & ->)])]; apply N.eqb_refl.
Qed.

Theorem bad_body_refused_holds hooks path b r : bad_body_refused b (fst (admit_request hooks path b r)) = true.
Proof.
  unfold admit_request. destruct b as [uid| | |]; reflexivity.
Qed.

Theorem patchtype_iff_patch_holds hooks path b r : patchtype_iff_patch (fst (admit_request hooks path b r)) = true.
Proof.
  unfold admit_request. destruct b as [uid| | |]; try reflexivity.
  rewrite admit_review_eq.
  destruct (find_task hooks (fst (detect path)) (snd (detect path))) as [x|]; cbn [fst patchtype_iff_patch]; [|reflexivity].
  destruct (answer_of_task_cases uid r) as [-> | (_ & _ & [[_ ->] | (a & m & w & p & _ & ->)])]; try reflexivity.
  cbn [relayed a_patchtype a_patch]. destruct (N.eqb p 0); reflexivity.
Qed.

Lemma nobody_ran l : existsb (ran_is None) l = false.
Proof. induction l as [|g l IH]; [reflexivity | exact IH]. Qed.

Theorem relay_holds hooks path b r :
  relay (model_regs hooks) path r (fst (admit_request hooks path b r)) (snd (admit_request hooks path b r)) = true.
Proof.
  unfold admit_request. destruct b as [uid| | |]; try reflexivity.
  rewrite admit_review_eq. unfold relay.
  destruct (find_task hooks (fst (detect path)) (snd (detect path))) as [[h [t n]]|]; cbn [fst snd].
  - destruct (valid_response (file r)) as [[[[al m] w] p]|] eqn:Ev; [|reflexivity].
    destruct (exit_zero r) eqn:Ex; [|reflexivity]. destruct (run_completed r) eqn:Ec; [|reflexivity]. cbn [andb].
    destruct (existsb _ _); [|reflexivity].
    destruct (file r) as [| |a m' w' p' [|]] eqn:Ef; cbn [valid_response] in Ev; try discriminate.
    inversion Ev; subst a m' w' p'.
    unfold answer_of_task. destruct (handle_run_hook_success r al m w p Ex Ec Ef) as [-> ->].
    cbn [a_allowed a_warnings a_msg a_patch a_patchtype].
    assert (list_eqb N.eqb w w = true) as -> by (apply list_eqb_refl, N.eqb_refl).
    rewrite Bool.eqb_reflx. cbn [andb].
    assert ((if al then true else if N.eqb m 0 then true
             else match (if al then AMNone else if N.eqb m 0 then AMNone else AMHook m) with
                  | AMHook m' => N.eqb m' m | _ => false end) = true) as ->.
    { destruct al; [reflexivity|]. destruct (N.eqb m 0); [reflexivity | apply N.eqb_refl]. }
    cbn [andb]. destruct t; [reflexivity|]. now rewrite N.eqb_refl, Bool.eqb_reflx.
  - destruct (valid_response (file r)) as [[[[al m] w] p]|]; [|reflexivity].
    rewrite nobody_ran, Bool.andb_false_r. reflexivity.
Qed.

Theorem routed_holds hooks path b r : names_ok hooks ->
  routed (model_regs hooks) path b (snd (admit_request hooks path b r)) = true.
Proof.
  intros Hok. unfold admit_request. destruct b as [uid| | |]; try reflexivity.
  destruct (admit_review hooks path uid r) as [rv who] eqn:E. cbn [snd].
  pose proof (admit_review_who hooks path uid r) as Hwho. rewrite E in Hwho. cbn [snd] in Hwho.
  unfold routed. destruct (find_task hooks (fst (detect path)) (snd (detect path))) as [[h [t n]]|] eqn:Ef; subst who.
  - rewrite (found_is_registrar hooks path h t n Hok Ef). reflexivity.
  - destruct (registrars (model_regs hooks) path) as [|g [|g' l]] eqn:Er; try reflexivity.
    exfalso. apply (registrar_is_found hooks path g Hok); [rewrite Er; now left | exact Ef].
Qed.

Theorem P_holds hooks path b r : names_ok hooks ->
  P (model_regs hooks) path b r (fst (admit_request hooks path b r)) (snd (admit_request hooks path b r)) = true.
Proof.
  intros Hok. unfold P.
  rewrite (fail_closed_holds hooks path b r Hok), (bad_body_refused_holds hooks path b r),
    (uid_echo_holds hooks path b r), (relay_holds hooks path b r),
    (patchtype_iff_patch_holds hooks path b r), (routed_holds hooks path b r Hok).
  reflexivity.
Qed.

(* with distinct webhook ids at most one binding registered any given path *)
Definition all_ids (hooks : list hook) : list bytes := map (fun g => webhook_id (g_name g)) (model_regs hooks).

Lemma filter_unique A B (f : A -> B) (p : A -> bool) (l : list A) :
  NoDup (map f l) -> (forall x y, In x (filter p l) -> In y (filter p l) -> f x = f y) ->
  length (filter p l) <= 1.
Proof.
  induction l as [|a l IH]; intros Hnd Heq; [cbn; lia|]. cbn [map] in Hnd. inversion Hnd as [|? ? Hnin Hnd']; subst.
  cbn [filter]. destruct (p a) eqn:Ea.
  - cbn [length]. assert (filter p l = []) as ->; [|cbn; lia].
    destruct (filter p l) as [|y l'] eqn:Ef; [reflexivity|]. exfalso. apply Hnin.
    assert (In y (filter p l)) as Hy by (rewrite Ef; now left).
    rewrite (Heq a y); [|cbn [filter]; rewrite Ea; now left | cbn [filter]; rewrite Ea; right; exact Hy].
    apply in_map. now apply filter_In in Hy.
  - apply IH; [assumption|]. intros x y Hx Hy. apply Heq; cbn [filter]; rewrite Ea; assumption.
Qed.

Theorem unique_registrar hooks path : names_ok hooks -> NoDup (all_ids hooks) ->
  length (registrars (model_regs hooks) path) <= 1.
Proof.
  intros Hok Hnd. unfold registrars. apply filter_unique with (f := fun g => webhook_id (g_name g)); [exact Hnd|].
  intros x y Hx Hy. apply filter_In in Hx, Hy. destruct Hx as [Hx Px], Hy as [Hy Py].
  apply model_regs_In in Hx, Hy.
  destruct Hx as (h & hk & t & n & Hin & Hb & ->), Hy as (h' & hk' & t' & n' & Hin' & Hb' & ->).
  cbn [g_path g_name] in *.
  destruct (binds_name_ok hooks h hk t n Hok Hin Hb) as [Hs Hne].
  destruct (binds_name_ok hooks h' hk' t' n' Hok Hin' Hb') as [Hs' Hne'].
  apply (same_path_detect n path Hs Hne) in Px. apply (same_path_detect n' path Hs' Hne') in Py.
  rewrite Px in Py. now inversion Py.
Qed.

(* the fail-closed statement spelt out *)
Theorem fail_closed_explicit hooks path b r : names_ok hooks ->
  allowed_of (fst (admit_request hooks path b r)) = true ->
  (exists uid, b = BReview uid)
  /\ (exists g, In g (registrars (model_regs hooks) path) /\ ran_is (snd (admit_request hooks path b r)) g = true)
  /\ exit_zero r = true
  /\ (exists m w p, file r = FResp true m w p false)
  /\ run_completed r = true.
Proof.
  intros Hok Ha. pose proof (fail_closed_holds hooks path b r Hok) as H. unfold fail_closed in H. rewrite Ha in H.
  apply andb_true_iff in H. destruct H as [H H5].
  apply andb_true_iff in H. destruct H as [H H4]. apply andb_true_iff in H. destruct H as [H H3].
  apply andb_true_iff in H. destruct H as [H1 H2]. split; [|split; [|split; [|split]]].
  - destruct b; try discriminate. now eexists.
  - apply existsb_exists in H2. destruct H2 as (g & Hg & Hr). now exists g.
  - exact H3.
  - destruct (file r) as [| |a m w p [|]]; cbn [valid_response] in H4; try discriminate.
    destruct a; [|discriminate]. now exists m, w, p.
  - exact H5.
Qed.

(* a run that failed — the process exited non-zero, or any step after its exit failed: a
   Kubernetes operation that cannot be parsed or is rejected, metrics that cannot be parsed or
   are invalid, an undecodable conversion response — is answered, whatever the response file
   says, with the denial 403 "Hook failed" under the request's UID *)
Theorem failed_run_denied hooks path uid r :
  exit_zero r = false \/ run_completed r = false ->
  snd (admit_request hooks path (BReview uid) r) <> None ->
  fst (admit_request hooks path (BReview uid) r) = AReview (deny_failed uid).
Proof.
  intros Hfail Hran. unfold admit_request in *. rewrite admit_review_eq in *.
  destruct (find_task hooks (fst (detect path)) (snd (detect path))) as [x|]; cbn [fst snd] in *; [|now contradiction Hran].
  unfold answer_of_task. now rewrite (handle_run_hook_failure r Hfail).
Qed.

Theorem failed_run_not_allowed hooks path b r :
  exit_zero r = false \/ run_completed r = false ->
  allowed_of (fst (admit_request hooks path b r)) = false.
Proof.
  intros Hfail. unfold admit_request. destruct b as [uid| | |]; try reflexivity.
  rewrite admit_review_eq.
  destruct (find_task hooks (fst (detect path)) (snd (detect path))) as [x|]; cbn [fst allowed_of]; [|reflexivity].
  unfold answer_of_task. now rewrite (handle_run_hook_failure r Hfail).
Qed.

(* what an exchange does besides answering: the marker metric is applied only when the answer
   is the hook's own verdict (the whole run went through); the marker Kubernetes operation
   only when the process exited 0 and all its files could be parsed, and then even if a later
   step fails (operations are applied before metrics, metrics before the response is saved) *)
Theorem effects_sound hooks path b r :
  (snd (admit_effects hooks path b r) = true ->
     exit_zero r = true /\ run_completed r = true /\ (exists i, metrics r = MOps true i)
     /\ snd (admit_request hooks path b r) <> None)
  /\ (fst (admit_effects hooks path b r) = true ->
     exit_zero r = true /\ (exists j, kpatch r = KOps true j) /\ snd (admit_request hooks path b r) <> None).
Proof.
  unfold admit_effects, admit_request. destruct b as [uid| | |]; try (split; intros H; discriminate).
  rewrite admit_review_eq. destruct (detect path) as [conf id]. cbn [fst snd].
  destruct (find_task hooks conf id) as [x|]; cbn [fst snd]; [|split; intros H; discriminate].
  destruct (effects_cases r) as [Hm Hk]. split; intros H.
  - destruct (Hm H) as [Hf Hi].
    destruct (handle_run_hook_cases r) as [[Hf' _] | (_ & He & Hc & _)]; [rewrite Hf in Hf'; discriminate|].
    repeat (split; [assumption|]). discriminate.
  - destruct (Hk H) as [Hr Hj]. split; [|split; [assumption | discriminate]].
    unfold hook_run in Hr. destruct (exit_zero r); [reflexivity | now contradiction Hr].
Qed.

Theorem kube_operations_before_metrics : forall hooks path b r kk mk,
  snd (admit_request hooks path b r) <> None -> hook_run r <> None ->
  kpatch r = KOps kk false -> metrics r = MOps mk true ->
  admit_effects hooks path b r = (kk, false) /\ allowed_of (fst (admit_request hooks path b r)) = false.
Proof.
  intros hooks path b r kk mk Hran Hrun Hk Hm. split.
  - unfold admit_effects, admit_request in *. destruct b as [uid| | |]; try now contradiction Hran.
    rewrite admit_review_eq in Hran. destruct (detect path) as [conf id]. cbn [fst snd] in Hran.
    destruct (find_task hooks conf id) as [x|]; [|now contradiction Hran].
    unfold handle_run_hook. destruct (hook_run r); [|now contradiction Hrun]. rewrite Hk, Hm. reflexivity.
  - apply failed_run_not_allowed. right. unfold run_completed. rewrite Hk, Hm. reflexivity.
Qed.
