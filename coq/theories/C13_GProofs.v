(* C13_GProofs.v — lemmas and proofs for C13_GModel / C13_GSpec. *)
From Coq Require Import String.
From Verif Require Import Common Json C13_Model C13_Spec C13_Proofs C13_GModel C13_GSpec.

(* ---------- resolution = what the document names ---------- *)

Lemma first_serving_preferred kind d : first_serving kind d = preferred d kind.
Proof.
  unfold preferred. induction d as [|[g ks] r IH]; cbn [first_serving find fst snd option_map]; [reflexivity|].
  destruct (has_kind kind ks); [reflexivity | exact IH].
Qed.

Lemma list_of_serves g kind d :
  match list_of g d with Some ks => has_kind kind ks | None => false end = serves d g kind.
Proof.
  unfold serves. induction d as [|[g' ks] r IH]; cbn [list_of find fst snd]; [reflexivity|].
  destruct (bytes_eqb g g'); [reflexivity | exact IH].
Qed.

Lemma resolve_named d av kind : resolve d av kind = named_gv d av kind.
Proof.
  unfold resolve, named_gv. destruct av as [|x av]; [apply first_serving_preferred|].
  rewrite <- (list_of_serves (x :: av) kind d).
  destruct (list_of (x :: av) d) as [ks|]; [destruct (has_kind kind ks)|]; reflexivity.
Qed.

(* ---------- one operation has the documented effect on the object it names ---------- *)

Lemma gstep_refines d c e o :
  cl_equiv c e ->
  match gexec_op d c o, geffect d e o with
  | (c1, _, e1), (d1, f1) => cl_equiv c1 d1 /\ e1 = f1
  end.
Proof.
  intros H. unfold gexec_op, geffect, named, named_addr.
  destruct o as [m obj | m a | a body sub im]; rewrite resolve_named.
  - destruct (named_gv d (obj_api obj) (obj_kind obj)) as [g|]; cbn [option_map not_served].
    + apply create_refines, H.
    + split; [exact H | reflexivity].
  - destruct (named_gv d (a_api a) (a_kind a)) as [g|]; cbn [option_map not_served].
    + apply (step_refines c e (ODelete m (key_at g (a_kind a) (a_ns a) (a_name a))) H).
    + split; [exact H | reflexivity].
  - destruct (named_gv d (a_api a) (a_kind a)) as [g|]; cbn [option_map not_served].
    + apply (step_refines c e (OPatch (key_at g (a_kind a) (a_ns a) (a_name a)) body sub im) H).
    + split; [exact H | reflexivity].
Qed.

Lemma gexec_refines d os : forall c e,
  cl_equiv c e ->
  match gexec d c os, geffects d e os with
  | (c1, _, es), (d1, fs) => cl_equiv c1 d1 /\ es = fs
  end.
Proof.
  induction os as [|o r IH]; intros c e H; cbn [gexec geffects].
  - split; [exact H | reflexivity].
  - pose proof (gstep_refines d c e o H) as Hs.
    destruct (gexec_op d c o) as [[c1 k1] e1]. destruct (geffect d e o) as [d1 f1]. destruct Hs as [H1 ->].
    specialize (IH c1 d1 H1).
    destruct (gexec d c1 r) as [[c2 k2] es]. destruct (geffects d d1 r) as [d2 fs]. destruct IH as [H2 ->].
    split; [exact H2 | reflexivity].
Qed.

(* ---------- parsing ---------- *)

Lemma gparse_valid ds : gall_valid ds = true -> gparse ds = Some (gops_of ds).
Proof.
  induction ds as [|[o|] r IH]; simpl; intros H; [reflexivity | | discriminate].
  now rewrite (IH H).
Qed.

Lemma gparse_invalid ds : gall_valid ds = false -> gparse ds = None.
Proof.
  induction ds as [|[o|] r IH]; simpl; intros H; [discriminate | | reflexivity].
  now rewrite (IH H).
Qed.

Lemma gall_valid_false_iff ds : gall_valid ds = false <-> In GDBad ds.
Proof.
  induction ds as [|[o|] r IH]; simpl.
  - split; [discriminate | intros []].
  - rewrite IH. split; [intros H; now right | intros [H|H]; [discriminate | exact H]].
  - split; [intros _; now left | reflexivity].
Qed.

Lemma g_all_or_nothing d c ds : In GDBad ds -> ghandle_run d c ds = mkOutcome false c [] [].
Proof. intros H. apply gall_valid_false_iff in H. unfold ghandle_run. now rewrite (gparse_invalid ds H). Qed.

(* ---------- one execution ---------- *)

Lemma sameb_of_equiv' proj a b : cl_equiv a b -> cluster_sameb (view proj a) (view proj b) = true.
Proof. apply sameb_of_equiv. Qed.

Lemma grun_meets_spec proj d c e ds :
  cl_equiv c e ->
  P_grun proj d e ds (ghandle_run d c ds) = true /\
  cl_equiv (r_cluster (ghandle_run d c ds)) (cluster_after d e ds).
Proof.
  intros H. unfold P_grun, cluster_after, ghandle_run. destruct (gall_valid ds) eqn:Ev.
  - rewrite (gparse_valid ds Ev).
    pose proof (gexec_refines d (gops_of ds) c e H) as Hr.
    destruct (gexec d c (gops_of ds)) as [[c1 k1] es]. destruct (geffects d e (gops_of ds)) as [d1 fs].
    destruct Hr as [H1 ->]. cbn [r_parse_ok r_cluster r_errors andb fst]. split; [|exact H1].
    rewrite (sameb_of_equiv proj c1 d1 H1). cbn [andb]. apply list_eqb_refl, err_eqb_refl.
  - rewrite (gparse_invalid ds Ev). unfold failed. cbn [r_parse_ok r_cluster r_calls negb orb andb].
    split; [|exact H]. now rewrite (sameb_of_equiv proj c e H).
Qed.

Lemma ghook_run_meets_spec proj d c e ds :
  cl_equiv c e ->
  let r := ghandle_run d c ds in P_ghook_run proj d e ds (failed r) (r_cluster r) (r_calls r) = true.
Proof.
  intros H. cbv zeta. unfold P_ghook_run, ghandle_run. destruct (gall_valid ds) eqn:Ev.
  - rewrite (gparse_valid ds Ev).
    pose proof (gexec_refines d (gops_of ds) c e H) as Hr.
    destruct (gexec d c (gops_of ds)) as [[c1 k1] es]. destruct (geffects d e (gops_of ds)) as [d1 fs].
    destruct Hr as [H1 ->]. unfold failed. cbn [r_parse_ok r_cluster r_errors negb orb].
    rewrite (sameb_of_equiv proj c1 d1 H1). destruct fs; reflexivity.
  - rewrite (gparse_invalid ds Ev). unfold failed. cbn [r_parse_ok r_cluster r_calls negb orb andb].
    now rewrite (sameb_of_equiv proj c e H).
Qed.

(* ---------- sessions ---------- *)

Lemma gsession_meets_spec_gen proj d files : forall c e,
  cl_equiv c e -> P_gsession proj d e files (ghandle_runs d c files) = true.
Proof.
  induction files as [|f fs IH]; intros c e H; cbn [ghandle_runs P_gsession]; [reflexivity|].
  destruct (grun_meets_spec proj d c e f H) as [Hp Hc]. rewrite Hp. cbn [andb]. apply IH, Hc.
Qed.

Lemma gsession_meets_spec proj d c files : P_gsession proj d c files (ghandle_runs d c files) = true.
Proof. apply gsession_meets_spec_gen, equiv_refl. Qed.

Definition hook_view (r : outcome) : bool * cluster * list call := (failed r, r_cluster r, r_calls r).

Lemma ghook_session_meets_spec_gen proj d files : forall c e,
  cl_equiv c e -> P_ghook_session proj d e files (map hook_view (ghandle_runs d c files)) = true.
Proof.
  induction files as [|f fs IH]; intros c e H; cbn [ghandle_runs P_ghook_session map hook_view]; [reflexivity|].
  rewrite (ghook_run_meets_spec proj d c e f H). cbn [andb].
  apply IH. apply (grun_meets_spec proj d c e f H).
Qed.

Lemma ghook_session_meets_spec proj d c files :
  P_ghook_session proj d c files (map hook_view (ghandle_runs d c files)) = true.
Proof. apply ghook_session_meets_spec_gen, equiv_refl. Qed.

Lemma ghandle_runs_length d files : forall c, length (ghandle_runs d c files) = length files.
Proof. induction files as [|f r IH]; intros c; cbn; [reflexivity | now rewrite IH]. Qed.

(* ---------- in order, once each; the split into executions does not matter ---------- *)

Lemma gexec_app d c a : forall b,
  gexec d c (a ++ b) =
  match gexec d c a with
  | (c1, k1, e1) => match gexec d c1 b with (c2, k2, e2) => (c2, k1 ++ k2, e1 ++ e2) end
  end.
Proof.
  revert c. induction a as [|o r IH]; intros c b.
  - simpl. destruct (gexec d c b) as [[c2 k2] e2]. reflexivity.
  - simpl. destruct (gexec_op d c o) as [[c1 k1] e1]. rewrite IH.
    destruct (gexec d c1 r) as [[c2 k2] e2]. destruct (gexec d c2 b) as [[c3 k3] e3].
    now rewrite <- !app_assoc.
Qed.

Lemma gall_valid_app a b : gall_valid (a ++ b) = gall_valid a && gall_valid b.
Proof. unfold gall_valid. apply forallb_app. Qed.

Lemma gops_of_app a b : gops_of (a ++ b) = gops_of a ++ gops_of b.
Proof. unfold gops_of. apply flat_map_app. Qed.

(* two executions with the files a and b do what one execution with the file a ++ b does *)
Lemma g_split_irrelevant d c a b :
  gall_valid a = true -> gall_valid b = true ->
  let r1 := ghandle_run d c a in
  let r2 := ghandle_run d (r_cluster r1) b in
  let r := ghandle_run d c (a ++ b) in
  r_parse_ok r = true /\ r_cluster r = r_cluster r2 /\
  r_calls r = r_calls r1 ++ r_calls r2 /\ r_errors r = r_errors r1 ++ r_errors r2.
Proof.
  intros Ha Hb. cbv zeta. unfold ghandle_run.
  assert (Hab : gall_valid (a ++ b) = true) by (rewrite gall_valid_app, Ha, Hb; reflexivity).
  rewrite (gparse_valid a Ha), (gparse_valid (a ++ b) Hab), gops_of_app, gexec_app.
  destruct (gexec d c (gops_of a)) as [[c1 k1] e1]. cbn [r_cluster].
  rewrite (gparse_valid b Hb).
  destruct (gexec d c1 (gops_of b)) as [[c2 k2] e2]. cbn. repeat split.
Qed.

(* the cluster a session leaves *)
Definition final_cluster (d : discovery) (c : cluster) (files : list (list gdoc)) : cluster :=
  fold_left (fun c f => r_cluster (ghandle_run d c f)) files c.

(* a session a ++ b is the session a, then the session b from the cluster a left *)
Lemma ghandle_runs_app d a : forall c b,
  ghandle_runs d c (a ++ b) = ghandle_runs d c a ++ ghandle_runs d (final_cluster d c a) b.
Proof.
  induction a as [|f r IH]; intros c b; [reflexivity|].
  cbn [app ghandle_runs]. rewrite IH. reflexivity.
Qed.

(* ---------- nothing but the named object is touched ---------- *)

Definition calls_of (r : result) : list call := snd (fst r).
Definition call_key (cl : call) : key := snd (fst cl).

Lemma exec_create_at_frame c m k obj k' :
  k' <> k -> cl_get k' (cluster_of (exec_create_at c m k obj)) = cl_get k' c.
Proof.
  intros Hne. unfold exec_create_at, api_create, api_update, cluster_of.
  destruct (cl_get k c) as [old|] eqn:Eg.
  - destruct m; cbn; try rewrite Eg; cbn; try reflexivity. now apply get_set_neq.
  - destruct m; cbn; now apply get_set_neq.
Qed.

Lemma exec_delete_frame c m k k' :
  k' <> k -> cl_get k' (cluster_of (exec_delete c m k)) = cl_get k' c.
Proof.
  intros Hne. unfold exec_delete, api_delete, cluster_of.
  destruct (cl_get k c) as [old|] eqn:Eg; [|reflexivity].
  destruct m; cbn; now apply get_del_neq.
Qed.

Lemma exec_patch_frame c k body sub im k' :
  k' <> k -> cl_get k' (cluster_of (exec_patch c k body sub im)) = cl_get k' c.
Proof.
  intros Hne. unfold exec_patch, api_patch, api_update, cluster_of. destruct body as [p|ops|f].
  - destruct (cl_get k c) as [o|]; cbn; [now apply get_set_neq | reflexivity].
  - destruct (cl_get k c) as [o|]; cbn; [|reflexivity].
    destruct (apply_jps ops o); cbn; [now apply get_set_neq | reflexivity].
  - destruct (cl_get k c) as [o|] eqn:Eg; [|reflexivity].
    destruct (apply_jq f o) as [o'|]; [|reflexivity].
    destruct (json_eqb o o' && negb (has_int o)); [reflexivity|].
    try rewrite Eg. cbn. now apply get_set_neq.
Qed.

Lemma exec_create_at_calls c m k obj : Forall (fun cl => call_key cl = k) (calls_of (exec_create_at c m k obj)).
Proof.
  unfold exec_create_at, api_create, api_update, calls_of.
  destruct (cl_get k c) as [old|] eqn:Eg.
  - destruct m; cbn; try rewrite Eg; cbn; repeat constructor.
  - destruct m; cbn; repeat constructor.
Qed.

Lemma exec_delete_calls c m k : Forall (fun cl => call_key cl = k) (calls_of (exec_delete c m k)).
Proof.
  unfold exec_delete, api_delete, calls_of.
  destruct (cl_get k c); [destruct m|]; cbn; repeat constructor.
Qed.

Lemma exec_patch_calls c k body sub im : Forall (fun cl => call_key cl = k) (calls_of (exec_patch c k body sub im)).
Proof.
  unfold exec_patch, api_patch, api_update, calls_of. destruct body as [p|ops|f].
  - destruct (cl_get k c) as [o|]; cbn; repeat constructor.
  - destruct (cl_get k c) as [o|]; cbn; [destruct (apply_jps ops o); cbn|]; repeat constructor.
  - destruct (cl_get k c) as [o|] eqn:Eg; [|repeat constructor].
    destruct (apply_jq f o) as [o'|]; [|repeat constructor].
    destruct (json_eqb o o' && negb (has_int o)); [repeat constructor|].
    try rewrite Eg. cbn. repeat constructor.
Qed.

(* an operation changes no object but the one it names, and every API call it makes is
   a call for that object *)
Lemma gexec_op_only_named d c o :
  (forall k', named d o <> Some k' -> cl_get k' (cluster_of (gexec_op d c o)) = cl_get k' c) /\
  Forall (fun cl => named d o = Some (call_key cl)) (calls_of (gexec_op d c o)).
Proof.
  unfold gexec_op, named, named_addr.
  destruct o as [m obj | m a | a body sub im]; rewrite resolve_named.
  - destruct (named_gv d (obj_api obj) (obj_kind obj)) as [g|]; cbn [option_map not_served].
    + split.
      * intros k' Hne. apply exec_create_at_frame. intros ->. now apply Hne.
      * eapply Forall_impl; [|apply exec_create_at_calls]. cbn. intros cl ->. reflexivity.
    + split; [reflexivity | constructor].
  - destruct (named_gv d (a_api a) (a_kind a)) as [g|]; cbn [option_map not_served].
    + split.
      * intros k' Hne. apply exec_delete_frame. intros ->. now apply Hne.
      * eapply Forall_impl; [|apply exec_delete_calls]. cbn. intros cl ->. reflexivity.
    + split; [reflexivity | constructor].
  - destruct (named_gv d (a_api a) (a_kind a)) as [g|]; cbn [option_map not_served].
    + split.
      * intros k' Hne. apply exec_patch_frame. intros ->. now apply Hne.
      * eapply Forall_impl; [|apply exec_patch_calls]. cbn. intros cl ->. reflexivity.
    + split; [reflexivity | constructor].
Qed.

(* a whole stream: an object that no document of the stream names is left as it was *)
Lemma gexec_untouched d os : forall c k',
  (forall o, In o os -> named d o <> Some k') ->
  cl_get k' (fst (fst (gexec d c os))) = cl_get k' c.
Proof.
  induction os as [|o r IH]; intros c k' H; cbn [gexec]; [reflexivity|].
  pose proof (proj1 (gexec_op_only_named d c o) k' (H o (or_introl eq_refl))) as H1.
  unfold cluster_of in H1.
  destruct (gexec_op d c o) as [[c1 k1] e1]. cbn [fst] in H1.
  specialize (IH c1 k' (fun o' Ho' => H o' (or_intror Ho'))).
  destruct (gexec d c1 r) as [[c2 k2] es]. cbn [fst] in *. now rewrite IH.
Qed.

(* ---------- keys of different groups are different ---------- *)

Lemma split_at_sep (s : N) (l1 : bytes) : forall l2 r1 r2,
  ~ In s l1 -> ~ In s l2 -> l1 ++ s :: r1 = l2 ++ s :: r2 -> l1 = l2 /\ r1 = r2.
Proof.
  induction l1 as [|x l1 IH]; intros [|y l2] r1 r2 H1 H2 E; cbn in E.
  - injection E as E. now split.
  - injection E as E1 E2. subst y. exfalso. apply H2. now left.
  - injection E as E1 E2. subst x. exfalso. apply H1. now left.
  - injection E as E1 E2. subst y.
    destruct (IH l2 r1 r2) as [-> ->]; [intros Hi; apply H1; now right | intros Hi; apply H2; now right | exact E2 |].
    now split.
Qed.

Definition bar : N := 124%N.     (* "|" *)
Definition slash : N := 47%N.    (* "/" *)

Lemma key_at_unfold g kind ns name : key_at g kind ns name = g ++ bar :: (kind ++ slash :: (ns ++ slash :: name)).
Proof. reflexivity. Qed.

Lemma key_at_inj g kind ns name g' kind' ns' name' :
  ~ In bar g -> ~ In bar g' -> ~ In slash kind -> ~ In slash kind' -> ~ In slash ns -> ~ In slash ns' ->
  key_at g kind ns name = key_at g' kind' ns' name' ->
  g = g' /\ kind = kind' /\ ns = ns' /\ name = name'.
Proof.
  intros Hg Hg' Hk Hk' Hn Hn' E. rewrite !key_at_unfold in E.
  destruct (split_at_sep bar g g' _ _ Hg Hg' E) as [-> E1].
  destruct (split_at_sep slash kind kind' _ _ Hk Hk' E1) as [-> E2].
  destruct (split_at_sep slash ns ns' _ _ Hn Hn' E2) as [-> ->].
  repeat split.
Qed.

Lemma key_at_gv_inj g g' kind ns name kind' ns' name' :
  ~ In bar g -> ~ In bar g' -> key_at g kind ns name = key_at g' kind' ns' name' -> g = g'.
Proof.
  intros Hg Hg' E. rewrite !key_at_unfold in E.
  now destruct (split_at_sep bar g g' _ _ Hg Hg' E) as [-> _].
Qed.

(* a delete / patch document for (apiVersion g or none, kind, ns, name) that resolves to
   the group g leaves the object of the same kind, namespace and name of any other
   group g' as it was *)
Lemma other_group_untouched d c o a g g' :
  (exists m, o = GDelete m a) \/ (exists body sub im, o = GPatch a body sub im) ->
  named_gv d (a_api a) (a_kind a) = Some g -> g' <> g -> ~ In bar g -> ~ In bar g' ->
  cl_get (key_at g' (a_kind a) (a_ns a) (a_name a)) (cluster_of (gexec_op d c o)) =
  cl_get (key_at g' (a_kind a) (a_ns a) (a_name a)) c.
Proof.
  intros Ho Hn Hne Hg Hg'. apply (proj1 (gexec_op_only_named d c o)).
  assert (Hnamed : named d o = Some (key_at g (a_kind a) (a_ns a) (a_name a))).
  { destruct Ho as [[m ->] | [body [sub [im ->]]]]; cbn [named]; unfold named_addr; now rewrite Hn. }
  rewrite Hnamed. intros E. injection E as E. apply Hne. symmetry.
  now apply (key_at_gv_inj g g' _ _ _ _ _ _ Hg Hg' E).
Qed.

(* ---------- no apiVersion = the preferred apiVersion written out ---------- *)

Lemma serves_in d g kind : serves d g kind = true -> In g (map fst d).
Proof.
  unfold serves. induction d as [|[g' ks] r IH]; cbn [find fst snd map]; [discriminate|].
  destruct (bytes_eqb g g') eqn:E.
  - apply bytes_eqb_eq in E. subst. intros _. now left.
  - intros H. right. now apply IH.
Qed.

Lemma preferred_serves d kind g :
  NoDup (map fst d) -> preferred d kind = Some g -> serves d g kind = true.
Proof.
  unfold preferred, serves. induction d as [|[g' ks] r IH]; cbn [find fst snd map option_map]; [discriminate|].
  intros Hnd Hp. inversion Hnd as [|x l Hnotin Hnd']; subst.
  destruct (has_kind kind ks) eqn:Ek.
  - cbn in Hp. injection Hp as ->. now rewrite beq_refl.
  - specialize (IH Hnd' Hp).
    destruct (bytes_eqb g g') eqn:E; [|exact IH].
    apply bytes_eqb_eq in E. subst g'. exfalso. apply Hnotin. apply (serves_in r g kind). exact IH.
Qed.

Lemma omitted_is_preferred d kind g :
  NoDup (map fst d) -> g <> [] -> preferred d kind = Some g ->
  named_gv d [] kind = named_gv d g kind.
Proof.
  intros Hnd Hne Hp. unfold named_gv. destruct g as [|x g]; [contradiction|].
  now rewrite (preferred_serves d kind (x :: g) Hnd Hp).
Qed.

Lemma omitted_is_preferred_op d c kind ns name g :
  NoDup (map fst d) -> g <> [] -> preferred d kind = Some g ->
  (forall m, gexec_op d c (GDelete m (mkAddr [] kind ns name)) = gexec_op d c (GDelete m (mkAddr g kind ns name))) /\
  (forall body sub im, gexec_op d c (GPatch (mkAddr [] kind ns name) body sub im)
                       = gexec_op d c (GPatch (mkAddr g kind ns name) body sub im)).
Proof.
  intros Hnd Hne Hp. pose proof (omitted_is_preferred d kind g Hnd Hne Hp) as E.
  split; intros; unfold gexec_op; cbn [a_api a_kind a_ns a_name]; now rewrite !resolve_named, E.
Qed.
