(* C19_WModel.v — RECORD OF THE CODE BEFORE THE REPAIR a686454 (hook.sh with unquoted expansions).
   NOT the model of the current code (that is C19_Model; C19_Corr does not use this file).  The
   line numbers below are those of hook.sh before a686454.

   The CHARACTERS of the strings the dispatch reads (binding name, groupName,
   versions) brought into the model of /repo/frameworks/shell/hook.sh.

   C19_Model treats handler names as atoms.  bash does not: every name the framework builds
   passes through unquoted expansions,

     hook.sh:27..63   echo __on_kubernetes::${BINDING_CONTEXT_CURRENT_BINDING}::added     (and the other arms)
     hook.sh:73       for handler in ${HANDLERS}; do
     hook.sh:74-75      if type $handler ...; then ($handler)

   and an unquoted expansion is (1) split into words at blanks, tabs and newlines (IFS), and
   (2) every word that is a glob pattern undergoes pathname expansion - under
   shell_lib.sh:5 `shopt -s failglob` a pattern without a matching file is an ERROR: the
   echo fails, errexit ends the command substitution, `HANDLERS=$(...)` fails, exit 1.
   Quotes, backslashes, `$`, backquotes, `;`, `~`, braces in the RESULT of an expansion are
   ordinary characters (no second round of expansion, no quote removal).

   So the names `type` is asked about are the WORDS of the documented names, in order, and
   the binding name "Monitor pods in cache tier" contributes the words
   __on_kubernetes::Monitor, pods, in, cache, tier::added.  A word need not be a handler
   of the hook: `type in` succeeds (a shell keyword), `type true`, `type -p` as well; the
   framework then runs `(in)`.  What the shell itself knows under a word - keywords,
   builtins, the options of `type` - is not modelled: it is the input [amb], a function from
   words to the status that running the word in a subshell leaves ([None]: unknown to the
   shell).  The interpreter stays an oracle; the correspondence supplies [amb] from a fixed
   table (in/for/... 127, true 0, false 1, -p 127 ...).

   Assumption about the environment (established by the harness, stated in C19_Corr): the
   working directory of the hook is empty, so no pattern has a match.

   THE LOOP reads, for context number i, the strings of context number i
   (hook.sh:11-12: BINDING_CONTEXT_CURRENT_INDEX=i, then `context::jq` = `.[i] | ...`):
   [tableW] and [step_of] are functions of ONE context; [dispatchW_from] applies them to the
   contexts in order.  That the real framework does the same for every array of strings is
   what the correspondence tests.

   No proofs in this file. *)
From Coq Require Import String Ascii.
From Verif Require Import Common C19_Model.

(* IFS whitespace: blank, tab, newline *)
Definition is_ws (x : N) : bool := N.eqb x 32 || N.eqb x 9 || N.eqb x 10.

(* word splitting of the result of an unquoted expansion; [acc] is the word collected so
   far.  Runs of whitespace separate words; leading and trailing whitespace yields no
   empty word. *)
Fixpoint split_acc (acc : bytes) (s : bytes) : list bytes :=
  match s with
  | [] => match acc with [] => [] | _ => [acc] end
  | x :: r =>
    if is_ws x then match acc with [] => split_acc [] r | _ => acc :: split_acc [] r end
    else split_acc (acc ++ [x]) r
  end.

Definition split_ws (s : bytes) : list bytes := split_acc [] s.

(* bash 5.2 pathexp.c unquoted_glob_pattern_p: is the word a glob pattern?
   `*` and `?` always; `[` ... `]` once a `[` has been seen; `+(` `@(` `!(`;
   a backslash hides the character after it. *)
Fixpoint pat_scan (open : bool) (s : bytes) : bool :=
  match s with
  | [] => false
  | x :: r =>
    if N.eqb x 42 || N.eqb x 63 then true                          (* * ? *)
    else if N.eqb x 91 then pat_scan true r                         (* [   *)
    else if N.eqb x 93 then (if open then true else pat_scan open r) (* ]   *)
    else if N.eqb x 43 || N.eqb x 64 || N.eqb x 33 then             (* + @ ! *)
      match r with
      | y :: _ => if N.eqb y 40 then true else pat_scan open r      (* (   *)
      | [] => false
      end
    else if N.eqb x 92 then                                          (* \   *)
      match r with
      | _ :: r' => pat_scan open r'
      | [] => false
      end
    else pat_scan open r
  end.

Definition is_pattern (w : bytes) : bool := pat_scan false w.

(* hook::_get_possible_handler_names as bash runs it: the lines of [table], each split into
   words by the unquoted ${...} inside the argument of echo (the newline between two echo
   lines separates words as well, hook.sh:73); a word that is a pattern fails the echo
   (failglob, empty directory) and with it the whole function. *)
Definition tableW (c : ctx) : option (list name) :=
  match table c with
  | None => None
  | Some ls =>
    let ws := flat_map split_ws ls in
    if existsb is_pattern ws then None else Some ws
  end.

(* what `type $handler` found *)
Inductive pick :=
| PHandler (h : name)               (* a function the hook defines *)
| PAmbient (w : name) (st : N).     (* something the shell knows itself; `($handler)` leaves st *)

Definition ambient := name -> option N.

(* hook::_run_first_available_handler over words *)
Fixpoint first_avail (defined : list name) (amb : ambient) (ws : list name) : option pick :=
  match ws with
  | [] => None
  | w :: r =>
    if mem w defined then Some (PHandler w)
    else match amb w with
         | Some st => Some (PAmbient w st)
         | None => first_avail defined amb r
         end
  end.

(* what the framework does for ONE context: [None] = exit 1 (the name function failed, or
   no candidate word is known) *)
Definition step_of (defined : list name) (amb : ambient) (c : ctx) : option pick :=
  match tableW c with
  | None => None
  | Some ws => first_avail defined amb (ws ++ [main_name])
  end.

(* hook::run over handlers given by their bodies (C19_Model.dispatchB_from with words).
   An ambient word runs in the subshell like a handler would: it leaves no line in the
   trace; a non-zero status ends the script, status 0 goes on to the next context. *)
Fixpoint dispatchW_from (defined : list name) (amb : ambient) (bodies : name -> N -> body) (i : N) (cs : list ctx)
  : trace * list (list step) * N :=
  match cs with
  | [] => ([], [], 0%N)
  | c :: r =>
    match step_of defined amb c with
    | None => ([], [], 1%N)
    | Some (PHandler h) =>
      let (ss, st) := exec_body (bodies h i) in
      if N.eqb st 0 then
        match dispatchW_from defined amb bodies (N.succ i) r with
        | (t, s, f) => ((h, i, cur_binding c) :: t, ss :: s, f)
        end
      else ([(h, i, cur_binding c)], [ss], st)
    | Some (PAmbient w st) =>
      if N.eqb st 0 then dispatchW_from defined amb bodies (N.succ i) r
      else ([], [], st)
    end
  end.

Definition dispatchW defined amb bodies cs := dispatchW_from defined amb bodies 0%N cs.

Definition runBW (args : list bytes) (defined : list name) (amb : ambient) (bodies : name -> N -> body)
                 (cs : list ctx) : obsB :=
  if is_config args then
    if mem config_name defined
    then let (ss, st) := exec_body (bodies config_name 0%N) in mkObsB (mkObs [config_entry] st true) [ss]
    else mkObsB (mkObs [] 127%N false) []
  else match dispatchW defined amb bodies cs with
       | (t, s, f) => mkObsB (mkObs t f false) s
       end.

Definition runCW (args : list bytes) (defined : list name) (amb : ambient) (bodies : name -> N -> body)
                 (cs : list ctx) (text : bytes) : obsC :=
  mkObsC (runBW args defined amb bodies cs) (stdout_of args defined text).
