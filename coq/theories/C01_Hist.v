(* C01_Hist.v — EVENTS of a kubernetes binding with namespace.labelSelector over whole
   histories of namespaces and objects (the quantifier of C01 names them: "all finite histories
   of create/modify/delete over several objects and namespaces, including namespaces that
   appear after start for namespace.labelSelector bindings").

   C01_Model is ONE informer at lock granularity, C01_Monitor is ONE namespace appearing ONCE
   against the unlock.  This file is the history dimension: the monitor has been created
   (CreateInformers), started (Start) and unlocked (EnableKubeEventCb after the successful
   Synchronization); from then on the cluster goes through any sequence of
     - object create / modify / delete in any namespace,
     - namespaces created with or without the selected label, gaining / losing it, deleted,
       created again ... (initial namespaces and late ones, any number of times),
   and the observation is the sequence of KubeEvents handed to the monitor's event callback.

   The monitor's informer set (VaryingInformers, cancelForNs; monitor.go: CreateInformers, Start,
   the add / delete callbacks of the namespace informer, CreateInformersForNamespace) is the
   line-by-line model of C02_Model section 3, reused as it is: [dmon], [create_mon],
   [start_mon], [add_ns], [del_ns], [deliver] (cache update of the informers in scope), [dstep].
     namespace_informer.go  OnAdd(ns)    = addFn ns  = [add_ns]   (every Added of the filtered
                            watch, also for a namespace of the start-up list that comes back)
                            OnDelete(ns) = delFn ns  = [del_ns]
                            OnUpdate     = ignored
   What this file adds is what each delivered change FIRES (resource_informer.go,
   handleWatchEvent): Added / Modified are skipped when the object is in the informer's cache
   with the same checksum (of the jqFilter result, or of the whole object without a filter),
   Deleted is never skipped; the event is fired when its type is listed in the binding
   (shouldFireEvent).  Every informer the monitor creates after EnableKubeEventCb is unlocked
   at once (eventsEnabled, C01_Monitor), so a fired event is handed over.  A new informer loads
   the objects that exist silently (loadExistedObjects; recorded finding F24) and skips their
   replay by the shared informer (same checksum).

   Oracle (client-go): a shared informer reports a change of its scope as Added when the object
   was not there, Modified when it was, Deleted with the last state; the filtered namespace
   watch reports "starts matching" as Added and "stops matching" as Deleted.
   No proofs here. *)
From Verif Require Import Common C01_Model C02_Model.
Open Scope N_scope.

(* a history step.  Set is an upsert and Del of a missing object does nothing, so that every
   subsequence of a history is a history (shrinking) *)
Inductive hop :=
| HSet (o : obj)                (* the object exists now with this content (create or modify) *)
| HDel (ns name : N)            (* the object is deleted *)
| HNs (ns : N) (lab : bool)     (* the namespace exists now, with (lab) or without the selected label *)
| HNsDel (ns : N).              (* the namespace is deleted (its objects stay unless the history deletes them) *)

Record hist_in := mkHistIn {
  h_names : list N;             (* nameSelector.matchNames ([] = any name), may repeat *)
  h_types : list wkind;         (* executeHookOnEvent *)
  h_filter : bool;              (* the binding has a jqFilter (selects content mod 10) *)
  h_initial : list obj;         (* objects and ... *)
  h_nss : list (N * bool);      (* ... namespaces when the operator starts *)
  h_ops : list hop              (* what happens after the unlock *)
}.

Definition hevent := (N * N * wkind * N)%type.      (* namespace, name, watch event, content *)
Definition hev (k : wkind) (o : obj) : hevent := (o_ns o, o_name o, k, snd o).

(* what the checksum is computed from *)
Definition csum (flt : bool) (content : N) : N := if flt then proj_of content else content.

Definition lookup (o : obj) (l : list obj) : option obj := find (fun x => same_key x o) l.

(* shouldFireEvent *)
Definition listed (types : list wkind) (k : wkind) (o : obj) : list hevent :=
  if fires types k then [hev k o] else [].

(* handleWatchEvent of one informer, the decision only (the cache update is C02_Model.deliver) *)
Definition inf_fire (types : list wkind) (flt : bool) (k : wkind) (o : obj) (cache : list obj) : list hevent :=
  match k with
  | Deleted => listed types Deleted o
  | _ => let skip := match lookup o cache with
                     | Some old => N.eqb (csum flt (snd old)) (csum flt (snd o))
                     | None => false
                     end in
         if skip then [] else listed types k o
  end.

(* the change reaches the running informers whose scope holds the object *)
Definition mon_fire (types : list wkind) (flt : bool) (k : wkind) (o : obj) (m : dmon) : list hevent :=
  flat_map (fun e : N * list informer =>
              flat_map (fun inf : informer =>
                          if in_scope (Some (fst e), fst inf) o then inf_fire types flt k o (snd inf) else [])
                       (snd e))
           (dm_vary m).

(* the cluster side of a step, in the vocabulary of C02_Model *)
Definition dop_of (op : hop) : dop :=
  match op with
  | HSet o => DObj OModify o
  | HDel ns name => DObj ODelete (ns, name, 0)
  | HNs ns lab => DNs ns lab
  | HNsDel ns => DNsDel ns
  end.

(* the events one step fires: the shared informers see the change of the cluster *)
Definition hfire (i : hist_in) (st : dcl * dmon) (op : hop) : list hevent :=
  match op with
  | HSet o =>
      let k := match lookup o (fst (fst st)) with Some _ => Modified | None => Added end in
      mon_fire (h_types i) (h_filter i) k o (snd st)
  | HDel ns name =>
      match lookup (ns, name, 0) (fst (fst st)) with
      | Some old => mon_fire (h_types i) (h_filter i) Deleted old (snd st)
      | None => []
      end
  | HNs _ _ | HNsDel _ => []        (* informers come and go; nothing is fired *)
  end.

Fixpoint hrun (i : hist_in) (st : dcl * dmon) (ops : list hop) : list hevent :=
  match ops with
  | [] => []
  | op :: r => hfire i st op ++ hrun i (dstep (h_names i) st (dop_of op)) r
  end.

Definition hcluster0 (i : hist_in) : dcl :=
  (fold_left (fun c o => cl_set o c) (h_initial i) [],
   fold_left (fun l p => ns_set (fst p) (snd p) l) (h_nss i) []).

(* AddMonitor (CreateInformers) + StartMonitor (Start) on the initial cluster *)
Definition hist_init (i : hist_in) : dcl * dmon :=
  let c := hcluster0 i in (c, start_mon (h_names i) c (create_mon (h_names i) c)).

(* the events handed to the hook after the unlock *)
Definition hist_out (i : hist_in) : list hevent := hrun i (hist_init i) (h_ops i).
